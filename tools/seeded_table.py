#!/usr/bin/env python3
"""Print the markdown table of /verif/seeded/*/meta.json for DESIGN.md section 12."""
import glob, json, os
ROOT = os.path.dirname(os.path.dirname(os.path.abspath(__file__)))
rows = []
for d in sorted(glob.glob(os.path.join(ROOT, "seeded", "*"))):
    try:
        m = json.load(open(os.path.join(d, "meta.json")))
    except Exception:
        continue
    notes = ""
    p = os.path.join(d, "notes.md")
    if os.path.exists(p):
        txt = open(p).read().replace("|", "/")
        lines = [l.strip("-# ").strip() for l in txt.splitlines() if l.strip()]
        notes = " ".join(lines[:3])[:230]
    by = []
    if m.get("detected_by_obligation"):
        by.append("obligation " + ", ".join(sorted(set(x.split("/", 1)[1] for x in m["detected_by_obligation"]))[:2]))
    if m.get("detected_by_bounded"):
        by.append("bounded stand-in")
    rows.append("| %s | %s | %s | %s |" % (m["name"], notes, "yes" if m.get("detected") else "**NO**", "; ".join(by) or "-"))
print("| seeded change | what it is (from its notes) | caught by the quick check | by |")
print("|---|---|---|---|")
print("\n".join(rows))
