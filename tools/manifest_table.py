# Per-property claims.  add(id, category, deductive summary, bounded summary, level_note)
ENC = ("Encoding assumptions of pyvc (DESIGN §2.3): floats are reals + NaN flag (no rounding/overflow), containers have value "
       "semantics, allocation is fresh, termination only where a decreases clause is given; the VC generator and the SMT "
       "solvers are trusted (validated by mutation runs and the bounded part). ")

add("C03", "proof",
    "ObsTime.isLeapYear, toAbsTime, readUnixTime, __eq__/__ne__/__lt__/__gt__/__le__/__ge__, addSec/addMin/addHour/addDay, __sub__ "
    "against the closed-form proleptic Gregorian day count: round trip well-formed and within 1 ms, exact for whole seconds, "
    "comparison operators = numeric order of epoch seconds (lexicographic-order lemma discharged), add* moves the instant by the "
    "amount; for every year >= 1970 with no upper bound; frames proved.",
    "IEEE rounding of the millisecond field: calendar days 1970-2099 with intra-day instants (every 7th day + all 28/29 Feb, 31 Dec, "
    "1 Jan, 1 Mar in quick; every day and every second of the special days in thorough), ordered pairs one unit apart, add* offsets.",
    ENC + "Years >= 1970. The bounded sweep is the only evidence for IEEE rounding effects.")

add("C19", "other",
    "Raster.getCell (None iff outside; column/line in range; footprint of the returned cell contains the point, for any resolution "
    "incl. non-square, given ncol = ceil(ax/rx), nrow = ceil(ay/ry)); co_sum, co_count, co_avg, co_min, co_max against spec folds "
    "over the non-NaN values (NaN anywhere, empty list).",
    "co_median, addCollectionToRaster scatter (conservation of observations), computeAggregates / summarize end to end incl. "
    "no-data for empty and all-NaN cells: collections of 1-4 tracks on cell borders, outer border, corners, one ulp off borders; "
    "square and non-square resolutions; margins >= 0.",
    ENC + "Bounding box with positive width and height (a zero-extent box gives a 0-cell grid: outside the quantifier). "
    "eval(aggregate + '(tarray)') dispatch trusted. co_median (selection sort with list.remove) and the scatter/aggregate loops "
    "are bounded only.")

add("C20", "other",
    "cartesienne, projection_droite, proj_segment, proj_polyligne: for every NON-VERTICAL, non-degenerate segment the returned point "
    "equals the closed-form nearest point A + clamp(t)(B-A), the returned distance is the distance to that point, and (lemma "
    "nearest-is-minimal) that point minimises the distance over the whole segment; proj_polyligne returns the minimum over all "
    "non-skipped segments with the index of the carrying segment (loop invariant). Vertical segments are case-split into their own "
    "obligations (known finding).",
    "IEEE rounding and the wrappers mapOnTrack/__projOnTrack: all integer segments in [0,3]^2 x half-integer queries, all 3-vertex "
    "polylines on small grids, random polylines 2..8 vertices with oblique/horizontal/vertical/zero-length segments in dyadic, "
    "decimal, offset and raw-float coordinates; queries beside/beyond/on/at a vertex/far.",
    ENC + "math.sqrt trusted (r >= 0, r*r == x). KNOWN FINDING C20-vertical-segment: obligations *[vertical] fail / are undecided "
    "and are reported as KNOWN-FINDING, not discharged. proj_polyligne's skip test (L1 length < 1e-16) is taken as the definition "
    "of a degenerate segment; at least one segment must be non-degenerate. mapOnTrack wrappers are bounded only.")

for i, b, n in [
    ("C01", "all histories of feature operations to a depth bound over a colliding name alphabet, random longer ones; run-time contract = abstract name->column map", ""),
    ("C02", "all expression trees to depth 3 over a small alphabet, random to depth 6, vectors with 0, negatives, ties, NaN; oracle = ordinary arithmetic under the documented operator table", ""),
    ("C04", "tracks of size 0..n with duplicate timestamps; all insertion instants, index sets, spans, steps, patterns; oracle = list comprehensions over tagged observations", ""),
    ("C05", "exhaustive small tracks/steps + random irregular tracks; oracle = direct piecewise-linear interpolation", ""),
    ("C06", "all multigraphs <= 3 nodes / 3 edges over weights {0,1,2} x 3 orientations, random <= 12 nodes / 40 edges; oracle = Floyd-Warshall over permitted arcs", ""),
    ("C07", "same multigraph space, every reachable ordered pair; oracle = existence of a permitted edge choice matching weights and chained geometry", ""),
    ("C08", "random feature sets, query points on borders/corners, non-square cells, margins >= 0; oracle = brute-force geometry", ""),
    ("C09", "all models T<=3, S<=2 over {0,0.5,1}, random T<=8, S<=5; oracle = enumeration of all state sequences", ""),
    ("C10", "random small networks with oblique/horizontal/vertical multi-vertex edges, tracks on/near/far; run-time contract on the result", ""),
    ("C11", "all 2^n marker vectors n<=12; all threshold combinations with 1-3 features, both modes, ties, NaN", ""),
    ("C12", "all {0,1,2} matrices n<=5, {0,1} n=6, random reals n<=12, both directions; oracle = all 2^(n-2) partitions; delegating functions", ""),
    ("C13", "CSV/GPX/WKT/network-CSV round trips over coordinate systems, separators, header options, all admissible column assignments, extreme values and dates", ""),
    ("C14", "lattice + random points/bases (lon, lat in +-89.9, h in [-1000,10000]); Lambert-93 domain; whole tracks; oracle = closed-form WGS84", ""),
    ("C15", "all small weight triples x signals with NaN, random signals/kernels, all built-in kernels x widths 1..6, both boundary settings; oracle = brute-force renormalised weighted mean", ""),
    ("C16", "all tracks of 2..5 fixes on a 3x3 grid, random tracks with duplicates/loops/collinear runs, tolerances 1e-6..1e3 x extent", ""),
    ("C17", "all small position/gap sequences incl. repeated positions and timestamps, random tracks, repeated computation", ""),
    ("C18", "all pairs of sizes 1..4 on small lattices, random beyond; p in {1,2,inf}, dim 1-3; oracle = enumeration of all couplings", ""),
]:
    add(i, "exploration", "", b,
        "Bounded stand-in only so far (the deductive contracts for this property are not in place yet): run-time contract on the real "
        "code within the stated bound; nothing is claimed beyond the explored inputs. " + n,
        technique="bounded run-time-contract stand-in (deductive contracts pending)")
