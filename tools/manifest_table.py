# Per-property claims.  add(id, category, deductive summary, bounded summary, level_note)
ENC = ("Encoding assumptions of pyvc (DESIGN §2.3): floats are reals + NaN flag (no rounding/overflow), containers have value "
       "semantics, allocation is fresh, termination only where a decreases clause is given; the VC generator and the SMT "
       "solvers are trusted (validated by mutation runs and the bounded part). ")

add("C03", "proof",
    "ObsTime.isLeapYear, toAbsTime, readUnixTime, __eq__/__ne__/__lt__/__gt__/__le__/__ge__, addSec/addMin/addHour/addDay, __sub__ "
    "against the closed-form proleptic Gregorian day count: round trip well-formed and within 1 ms, exact for whole seconds, "
    "comparison operators = numeric order of epoch seconds (lexicographic-order lemma discharged), add* moves the instant by the "
    "amount; for every year >= 1970 with no upper bound; frames proved.",
    "IEEE rounding of the millisecond field: calendar days 1970-2099 with intra-day instants (every 7th day + all 28/29 Feb, 31 Dec, "
    "1 Jan, 1 Mar in quick; every day and every second of the special days in thorough), ordered pairs one unit apart, add* offsets.",
    ENC + "Years >= 1970. The bounded sweep is the only evidence for IEEE rounding effects.")

add("C19", "other",
    "Raster.getCell (None iff outside; column/line in range; footprint of the returned cell contains the point, for any resolution "
    "incl. non-square, given ncol = ceil(ax/rx), nrow = ceil(ay/ry)); co_sum, co_count, co_avg, co_min, co_max against spec folds "
    "over the non-NaN values (NaN anywhere, empty list).",
    "co_median, addCollectionToRaster scatter (conservation of observations), computeAggregates / summarize end to end incl. "
    "no-data for empty and all-NaN cells: collections of 1-4 tracks on cell borders, outer border, corners, one ulp off borders; "
    "square and non-square resolutions; margins >= 0.",
    ENC + "Bounding box with positive width and height (a zero-extent box gives a 0-cell grid: outside the quantifier). "
    "eval(aggregate + '(tarray)') dispatch trusted. co_median (selection sort with list.remove) and the scatter/aggregate loops "
    "are bounded only.")

add("C20", "other",
    "cartesienne, projection_droite, proj_segment, proj_polyligne: for every NON-VERTICAL, non-degenerate segment the returned point "
    "equals the closed-form nearest point A + clamp(t)(B-A), the returned distance is the distance to that point, and (lemma "
    "nearest-is-minimal) that point minimises the distance over the whole segment; proj_polyligne returns the minimum over all "
    "non-skipped segments with the index of the carrying segment (loop invariant). Vertical segments are case-split into their own "
    "obligations (known finding). mapping.__projOnTrack (the wrapper map-matching uses, with Track.getX / getY): a new point at the nearest "
    "point of the carrying segment of the track's 2-D polyline, the distance to it, minimal over all non-skipped segments.",
    "IEEE rounding and the wrapper mapOnTrack: all integer segments in [0,3]^2 x half-integer queries, all 3-vertex "
    "polylines on small grids, random polylines 2..8 vertices with oblique/horizontal/vertical/zero-length segments in dyadic, "
    "decimal, offset and raw-float coordinates; queries beside/beyond/on/at a vertex/far.",
    ENC + "math.sqrt trusted (r >= 0, r*r == x). KNOWN FINDING C20-vertical-segment: obligations *[vertical] fail / are undecided "
    "and are reported as KNOWN-FINDING, not discharged. proj_polyligne's skip test (L1 length < 1e-16) is taken as the definition "
    "of a degenerate segment; at least one segment must be non-degenerate. mapOnTrack over a whole track is bounded only.")


DED = {
 "C01": ("Track feature-table ADT under the representation invariant twf (observations pairwise distinct, every feature list as long "
         "as the name table, names mapped injectively into [0, m), no reserved name): getObsAnalyticalFeature, getAnalyticalFeature, "
         "getListAnalyticalFeatures, setObsAnalyticalFeature, createAnalyticalFeature (scalar and list initialiser), "
         "updateAnalyticalFeature (scalar and list), removeAnalyticalFeature (column deleted everywhere, higher indices shifted, every "
         "other name reads as before - dict iteration modelled with tombstones), utils.addListToAF: each preserves twf, writes exactly "
         "the designated column / cell, leaves every other column, every other observation, every other track, coordinates and "
         "timestamps unchanged (frames proved, not assumed); the history clause follows by induction over these contracts. Bracket "
         "reads track[name, i] / track[i] and bracket assignment (track[name, i] = v, track[i, name] = v, track[name] = list or scalar, "
         "track[name] = '#DELETE') are verified as the same operations through Track.__getitem__ / __setitem__; Track.operate with an "
         "algebraic expression: whatever the (abstract, trusted-well-formed) evaluator does, no evaluator temporary ('#...') remains listed.",
         "the expression evaluator itself (__evaluate / __applyOperation: bounded only; operator objects are proved under C02, Integrator and "
         "addAnalyticalFeature under C17), track[name] = function."),
 "C04": ("Track.extract, __gt__ / __lt__ with an integer (head / tail trimming), __mod__ with a step, __add__ (concatenation; feature "
         "table carried iff both name lists are equal), __removeObsListById (strictly increasing index list: exactly the other "
         "observations in order, block-shift invariant + gap lemma by induction): the result holds exactly the designated observation "
         "objects in the original order, the feature table is carried over, the source track is unchanged (frame obligations). "
         "Track.sort (numpy.argsort as a trusted permutation model): the same observation objects, each exactly once, in non-decreasing "
         "time; nothing but the track's list is written. __getInsertionIndex on a time-sorted track (dichotomy loop invariant over powers "
         "of two, two linear fix-up loops with variants): a rank r with every earlier fix not later and every fix from r on not earlier "
         "than the instant; insertObs(obs, i), insertObsInChronoOrder and insertObs(obs): one more observation, the others in their "
         "order, the track still sorted.",
         "extractSpanTime (deepcopy), % with a pattern, removal by timestamps are bounded only (removeObsList with an index list in any "
         "order is proved: sorted in place by the trusted list.sort model, no duplicate, then __removeObsListById); `track < n` requires "
         "n <= size (a larger n wraps around in Python: recorded behaviour). ASSUMED in __getInsertionIndex (float logarithms, checked by "
         "the bounded part on the expression read from the source): the first dichotomy step is a power of two in [1, N/2], N < 2**47; "
         "termination of the dichotomy loop is not proved."),
 "C09": ("HMM.estimate's Viterbi core as two REGION contracts cut from the real function on every run: forward step - for every epoch "
         "k >= 1 and candidate l, TAB_VAL[k][l] = c_obs + TAB_VAL[k-1][m*] + c_tr with m* = TAB_MRK[k][l] a valid candidate of epoch "
         "k-1 (TIGHT) and <= the same expression for every m (LOWER); backward step - one candidate index per epoch, chained through "
         "the back-pointers, starting from a minimum of the last row (numpy.argmin trusted); Qlog / Plog verified with the user "
         "functions Q / P abstract; lemma sequence-lower-bound (induction over an arbitrary state sequence): LOWER implies every "
         "sequence costs at least TAB_VAL at its last state, so the decoded sequence (cost = TAB_VAL by TIGHT) is optimal; lemma "
         "log-likelihoods-give-the-same-costs: a model supplied as logarithms log(f + 1e-300) has the same cost function as the one "
         "supplied as likelihoods f, and the contracts mention the model only through its costs.",
         "compilation of STATES / OBS, table initialisation, storing hmm_inference / hmm_cost and the equivalence minimum -log cost <=> "
         "maximum likelihood are bounded only. ASSUMED: accumulated costs stay below the 1e300 sentinel."),
 "C11": ("segmentation.split (feature-name form, limit = 0): with a ghost list E of piece ends, piece j is exactly the slice "
         "(E[j-1], E[j]] of the track's observation list, pieces other than the last end at a marked observation and contain no other "
         "marked observation, the last piece ends at the last observation, no marker => empty collection, feature table carried; "
         "segmentation (list and scalar forms): marker = 1 exactly where not comp, comp = AND / OR fold of value <= threshold over the "
         "non-NaN tested features; other columns, coordinates, observations unchanged. Uses the contracts of extract (C04) and of the "
         "feature-table ADT (C01). split (index-list form, limit = 0, indices in range and non-decreasing): one piece per consecutive "
         "pair, piece j is exactly the observations source[j] .. source[j+1] in order, feature table carried.",
         "split with limit > 0 (Track.length, float): bounded only."),
 "C12": ("optimalPartition: interval-DP invariants (GOOD: D[a,b] at least as good as the direct cost; TRI: as good as every split "
         "D[a,k] + D[k,b]; TIGHT: attained via M) for both directions (case split on mode), backtracking (recursive contract with ghost "
         "D, C and a variant) and backward: the result is a strictly increasing list from the first to the last candidate whose summed "
         "cost is D[0, N-1]; lemmas by induction: path-cost prefix / concatenation, and optimal-over-all-lists (GOOD and TRI imply no "
         "strictly increasing list is better); hence post:no-other-list-is-better, discharged for minimise and maximise.",
         "optimalSegmentation / optimalSimplification / findStops* wiring (cost matrix construction, mode passed through) is bounded only."),
 "C17": ("ENUCoords.distance2DTo / Obs.distance2DTo (= sqrt(dx^2 + dy^2), non-negative), analytics.ds, analytics.speed (one-sided at "
         "the ends, centred inside, NaN iff the elapsed time is 0, = distance / time otherwise), Integrator.execute (running sum "
         "skipping index 0, stored under the output name, NaN-free in => NaN-free out), Track.addAnalyticalFeature for ds and for speed, "
         "cinematics.estimate_speed, cinematics.computeAbsCurv: abs_curv starts at 0, grows by exactly the planimetric leg length, never "
         "decreases, the temporary ds is removed, other columns / observations unchanged; positions and timestamps are in no frame.",
         "IEEE rounding; a pre-existing feature named ds / abs_curv / speed (the functions then reuse it: outside the contract)."),
 "C18": ("_dtw's dynamic-programming core as a REGION contract (from `T = np.zeros((N2, N1))` to the end of the backward while loop, cut "
         "from the real function on every run) with the weight function abstract and monotone: certificate TIGHT (M[a,b] is an in-grid "
         "diagonal / up / left predecessor with T[a,b] = W(T[pred], D[a,b])) and LOWER (T[a,b] <= W(T[q], D[a,b]) for every in-grid "
         "predecessor q); the backward walk S goes from the last pair to the first pair by coupling steps inside the grid and "
         "accumulates exactly T (with termination); lemma coupling-lower-bound (induction over an arbitrary coupling); every lambda of "
         "_p2weight is proved monotone in its first argument; lemma transposed-tables-agree (induction over the cells): two tables "
         "certified for D and for its transpose agree cell by cell, so the score is the same when the tracks are swapped, given that "
         "the swapped call's matrix is the transpose; proof harness distance_both_ways: the real _distance gives the same value in both "
         "orders for dim = 1, 2, 3 (so the swapped matrix is the transpose, entry by entry).",
         "the double loop filling D, _fillAF_dtw (links, nb_links, score) and _fdtw (best-first search) are bounded only."),
}
DED.update({
 "C06": ("Network.run_routing_forward: the Dijkstra loop as a REGION contract (cut from the real function on every run) over an abstract "
         "priority queue: labels are -1 or >= 0 and the source's is 0; every arc out of a settled node is relaxed (far end reached, label <= "
         "label(u) + weight); the queue holds exactly the reached unsettled nodes with their labels; settled labels never exceed queued "
         "priorities nor the node in hand; every reached node has a settled antecedent joined by the recorded edge in the direction of "
         "travel with label = label(antecedent) + weight; exit cases (queue empty / stopped at a least node because of the cut or the "
         "target). Lemma walk-lower-bound (induction over an arbitrary permitted walk): the label of the node in hand and of every settled "
         "node is at most the weight of every walk reaching it.",
         "priority_dict (heapq) is TRUSTED as an abstract priority queue; input normalisation, __resetFlags, queue initialisation, "
         "shortest_distance / all_shortest_distances wrappers and the cut-off table are bounded only; Dijkstra mode only (no A*)."),
 "C08": ("isSegmentIntersects (exact sign test), SpatialIndex.__getCell, groundDistanceToUnits (the units cover the distance along BOTH "
         "axes), __neighboringcells, __cellsCrossSegment (for an arbitrary point of the segment the cell containing it is returned: "
         "nested-loop invariant + real-arithmetic completeness, upper border included), __addSegment (inventory invariant, cells only "
         "grow), addFeature (every point of every segment of the track has the feature registered in its cell; the affine map to grid "
         "units commutes with interpolation), request (cell / point), request([c1, c2]) and request(track): every datum registered in the "
         "cell of any point of the query segment / of any segment of the query track is returned (the helper __addCellValuesInTAB, which appends to its caller's list, is inlined with "
         "the final list written back - Python aliasing), neighborhood (cell / point, unit given): every datum of every cell "
         "within `unit` cells is returned; lemma ground-distance-to-cells: a point within ground distance d falls within u cells when u "
         "cells cover d along both axes.",
         "index construction from a collection / network, neighborhood on segments and tracks, the unit = -1 incremental search: "
         "bounded only."),
 "C14": ("GeoCoords.toECEFCoords equals the closed-form WGS84 formulas (prime-vertical radius, e^2 = f(2 - f)); ECEFCoords.toENUCoords and "
         "ENUCoords.toECEFCoords are the stated rotations; three proof harnesses sequencing the REAL methods show ENU -> ECEF -> ENU and ECEF "
         "-> ENU -> ECEF are the identity for any base and that the base maps to (0, 0, 0) (sin^2 + cos^2 = 1; both directions take their "
         "angles from the same deterministic base.toGeoCoords()).",
         "the geodetic inverse (Bowring) and the Lambert-93 inverse are numerical approximations: accuracy to 1e-9 degree / 1 mm is bounded only, "
         "as are whole-track conversions and the recorded base."),
 "C15": ("Filter.execute (REGION from `N = len(kernel)` on): every output is NUM / NRM with NUM, NRM the sums of x*w and w over the window "
         "samples inside the track and not NaN; for an arbitrary window index and bounds lo <= x <= hi the output lies in [lo, hi] (hence "
         "constants are preserved); boundary values copied when boundaries are not filtered; result stored, other columns unchanged. "
         "Kernel.toSlidingWindow: odd length 2 int(support) + 1, non-negative, symmetric, sums to 1 (lemma sum-of-scaled-window) for an "
         "abstract kernel function that is even, non-negative on the support and positive at 0 - properties proved for the lambdas of the "
         "seven built-in non-negative kernels extracted from the source.",
         "kernel preparation in Filter.execute (list normalisation, Kernel objects), Kernel.evaluate (numpy.vectorize: trusted), "
         "filter_seq wiring, Filter_FFT: bounded only or outside the statement."),
 "C16": ("distance_to_segment: never fails (degenerate chord included); the result is the distance from the point to a point of the segment "
         "(the per-coordinate clamp equals clamping the parameter), 0 at both ends of the chord; it is a pure function of its six "
         "arguments (syntactic purity obligation), denoted dseg below. douglas_peucker (recursive contract with variant = number of fixes): "
         "a new track that keeps the first and the last fix, holds only input fixes, in the original order (strictly increasing index "
         "function), and EVERY input fix is within eps (dseg <= eps) of some segment of the result (ghost index, induction over the two "
         "recursive calls); the source is unchanged; it terminates. visvalingam (loop invariant over the copy made by Track.copy, "
         "trusted deepcopy): never fails, keeps the copies of the first and last fix, the kept fixes are fixes of the copy in the copy's "
         "order, each with the position and timestamp of its input fix, at least two fixes remain, the feature table stays well-formed, "
         "the input track is not touched; it terminates. Under it: triangle_area, aire_visval (IndexError exactly at the last fix), "
         "Operator.ARGMIN / Track.operate(ARGMIN) (index of a smallest value below 1e300, NaN never selected), "
         "addAnalyticalFeature(aire_visval) with the real try / except IndexError control flow, removeObs.",
         "simplify()'s dispatch and the other simplification modes are outside the statement. ASSUMED for visvalingam: no triangle of three "
         "input fixes has an area of 1e300 or more (ARGMIN ignores such values); Track.copy is a trusted deepcopy contract."),
})

DED["C07"] = ("Network.run_routing_backward under C06's certificate (predecessor tree, the source is the root): None exactly when the target has "
              "no antecedent; otherwise the walk through the antecedents ends at the source, the recorded path is that chain reversed (source to "
              "target), consecutive nodes are joined by the recorded antecedent edge (an arc in the direction of travel by C06's TREE clause), and "
              "the weights of the edges used sum to the target's label, i.e. the shortest distance. GEOMETRY (Track.reverse verified, Track.copy a "
              "trusted deepcopy, `> 1` and `+` by C04's contracts): the returned track is the chain of the walked edges' polylines, each oriented "
              "along the walk, chained end to end with every junction vertex taken once (vertex K0 of walked edge J0 at index OFF[J0] + K0 of the "
              "chain, for arbitrary J0, K0; one vertex per edge vertex), reversed so that it starts at the source node's position and ends at the "
              "target's.",
              "termination of the walk is not proved; ASSUMED network geometry: every listed edge has the listing node as an end, every edge "
              "polyline has >= 2 numeric fixes and runs from its source node's position to its target node's. IEEE rounding of coordinates: "
              "bounded only.")
DED["C02"] = ("45 operator classes against their documented pointwise definitions written independently of the code (Adder, Substracter, "
              "Multiplier, Divider with x/0 = NaN, Above, Below, PointwiseEqualer; ScalarAdder, ScalarSubstracter, ScalarRevSubstracter, "
              "ScalarMuliplier, Scalar(Rev)Below / Above; Differentiator, Forward / Backward / Centered / SecondOrder finite differences with "
              "NaN at the ends; Inverter, Square, Diode, Rectifier, Sign, Identity, Inverser, Thresholder through the generic APPLY loop and their "
              "own lambda; Shift (y(t) = x(t-k), NaN outside), ShiftRight, ShiftLeft, ShiftRev; ScalarDivider, ScalarRevDivider): for every track "
              "size and every value incl. NaN and zeros the returned list holds the documented value at every index, is stored under the "
              "output name (created if absent), and every other column, coordinate and observation is unchanged. Read-only aggregates Sum, "
              "Averager (folds over the values that are numbers), Min, Max; Reverser and Log, which store their result through the bracket "
              "assignment track[name] = list (contract of Track.__setitem__, C01); Argmax (first index of a largest value above -1e300, NaN never "
              "selected), Zeros (exactly the indices of the zero values, in increasing order), Debiaser (x - mean(x), proved from the contracts "
              "of Averager and ScalarAdder through the inlined Track.operate, not from their bodies), Mse (mean of the squares of the values that "
              "are numbers, not negative), Rmse (r >= 0 and r*r = that mean: from Mse's contract and the sqrt axiom) (45 operator classes in all).",
              "the expression parser (makeRPN, string rewriting, precedence / associativity / parentheses), __evaluateRPN / __applyOperation "
              "dispatch, '=' handling, circular shifts, powers, modulo, transcendental functions and the remaining aggregates: bounded only "
              "(unbounded string recursion is outside any contract within reach). 1/x operators require non-zero inputs (ZeroDivisionError "
              "otherwise, unlike the binary '/').")
DED["C10"] = ("mapping.__distToNode: the distances from the matched point to the edge's source and target nodes are abs_curv[i] + |g[i] - p| and "
              "abs_curv[last] - abs_curv[i+1] + |g[i+1] - p| (the edge geometry's curvilinear abscissa, proved cumulative by C17's computeAbsCurv "
              "contract); lemma on-segment-split: for a point on segment i the two add up to abs_curv[last], the edge's planimetric length. "
              "The candidate loop of __mapOnNetwork as a REGION contract (spatial index opaque and trusted: it returns edge positions): one "
              "non-empty row of states per observation; every state is either the unmatched marker (the observation's own position, -1, -1, -1), "
              "alone in its row, or (p, e, d0, d1) where e is an edge position returned by the index, p is the nearest point of a non-degenerate "
              "segment v of that edge's geometry to the observation (mapping.__projOnTrack, proved under C20) at squared distance below "
              "search_radius^2, and d0, d1 are __distToNode's distances for that segment; positions of the track and of the network are not "
              "written. Callee contracts of the composition are proved under C08 (neighbourhood coverage), C20 (projection) and C09 (decoding "
              "picks one listed candidate per epoch).",
              "the statements of __mapOnNetwork around the region (obs_noise feature, module globals, HMM set-up and decoding call), storing the "
              "decoded state, several tracks per call: bounded only. ASSUMED region preconditions: every edge geometry is a well-formed track of "
              ">= 2 numeric fixes carrying abs_curv with a non-degenerate segment; squared distances below 1e600.")
DED["C05"] = ("interpolation.__resampleTemporal: the resampling loop as a REGION contract (cut from the real function on every run), with strictly "
              "increasing track timestamps T and non-decreasing requested instants: exactly the requested instants t with T[0] < t <= T[last] "
              "produce an observation, one each and in order (ghost index lists), none is dropped; for an arbitrary produced observation the "
              "bracketing fixes satisfy T[r-1] < t <= T[r], its x, y, z are the barycentric combination with weights (T[r]-t)/(T[r]-T[r-1]) and "
              "(t-T[r-1])/(T[r]-T[r-1]) of the two bracketing fixes, and its timestamp is readUnixTime(t): well-formed and within 1 ms (C03); the "
              "inner while loop terminates and never indexes past the last fix. interpolation.__resampleSpatial: the sampling loop as a REGION "
              "contract over the cumulated-length list S (non-decreasing), the step ds > 0 and the sample count N with N ds within the length: "
              "the result is a copy of the first fix followed by exactly one sample per k = 1..N; sample k lies on the segment r with "
              "S[r-1] < k ds <= S[r] (so the divisor S[r] - S[r-1] is never 0, repeated positions included), its two weights are in [0, 1] and "
              "sum to 1, its x, y (on the polyline), z (height) and epoch time are the barycentric combination of the segment's ends, and it is "
              "stamped with that time to the millisecond (C03); with non-decreasing input times the interpolated times of successive "
              "samples never decrease (within a segment the forward weight grows with the abscissa; across segments the segment ends "
              "bound them), starting from the first fix's time.",
              "building T / S, N = floor(length / ds) in floats, prepareTimeSampling (number / list / reference track), setObsList and "
              "Track.resample's front end: bounded only. 'Never decrease' is proved for the interpolated real times; each stamp is within "
              "1 ms below its time, so the stamps themselves can only be shown non-decreasing up to that millisecond flooring.")
DED["C13"] = ("TrackWriter.writeToFile's column placement (REGION: the data-order slice, list.sort trusted): for every admissible assignment of "
              "column indices the sorted order list has in position c the pair (c, d), d being the place in the printed data list [E, N, (U), (T)] "
              "of the field whose column id is c - each datum is written in the column the reader takes it from.",
              "ALL other clauses of C13 - decimal text of IEEE doubles, timestamp layout, header handling, GPX, WKT and network-CSV round "
              "trips, the readers - are bounded only: they are about float formatting and file I/O, which no contract within reach decides.")
for i, b, n in [
    ("C01", "all histories of feature operations to a depth bound over a colliding name alphabet, random longer ones; run-time contract = abstract name->column map", ""),
    ("C02", "all expression trees to depth 3 over a small alphabet, random to depth 6, vectors with 0, negatives, ties, NaN; oracle = ordinary arithmetic under the documented operator table", ""),
    ("C04", "tracks of size 0..n with duplicate timestamps; all insertion instants, index sets, spans, steps, patterns; oracle = list comprehensions over tagged observations", ""),
    ("C05", "exhaustive small tracks/steps + random irregular tracks; oracle = direct piecewise-linear interpolation", ""),
    ("C06", "all multigraphs <= 3 nodes / 3 edges over weights {0,1,2} x 3 orientations, random <= 12 nodes / 40 edges; oracle = Floyd-Warshall over permitted arcs", ""),
    ("C07", "same multigraph space, every reachable ordered pair; oracle = existence of a permitted edge choice matching weights and chained geometry", ""),
    ("C08", "random feature sets, query points on borders/corners, non-square cells, margins >= 0; oracle = brute-force geometry", ""),
    ("C09", "all models T<=3, S<=2 over {0,0.5,1}, random T<=8, S<=5; oracle = enumeration of all state sequences", ""),
    ("C10", "random small networks with oblique/horizontal/vertical multi-vertex edges, tracks on/near/far; run-time contract on the result", ""),
    ("C11", "all 2^n marker vectors n<=12; all threshold combinations with 1-3 features, both modes, ties, NaN", ""),
    ("C12", "all {0,1,2} matrices n<=5, {0,1} n=6, random reals n<=12, both directions; oracle = all 2^(n-2) partitions; delegating functions", ""),
    ("C13", "CSV/GPX/WKT/network-CSV round trips over coordinate systems, separators, header options, all admissible column assignments, extreme values and dates", ""),
    ("C14", "lattice + random points/bases (lon, lat in +-89.9, h in [-1000,10000]); Lambert-93 domain; whole tracks; oracle = closed-form WGS84", ""),
    ("C15", "all small weight triples x signals with NaN, random signals/kernels, all built-in kernels x widths 1..6, both boundary settings; oracle = brute-force renormalised weighted mean", ""),
    ("C16", "all tracks of 2..5 fixes on a 3x3 grid, random tracks with duplicates/loops/collinear runs, tolerances 1e-6..1e3 x extent", ""),
    ("C17", "all small position/gap sequences incl. repeated positions and timestamps, random tracks, repeated computation", ""),
    ("C18", "all pairs of sizes 1..4 on small lattices, random beyond; p in {1,2,inf}, dim 1-3; oracle = enumeration of all couplings", ""),
]:
    if i in DED:
        add(i, "other", DED[i][0], b + ". ALSO BOUNDED ONLY: " + DED[i][1],
            ENC + "Every clause not listed under PROVED is carried by the bounded stand-in only. Trusted / assumed items are listed in the "
            "evidence file (assumptions, trusted_base).")
        continue
    add(i, "exploration", "", b,
        "Bounded stand-in only so far (the deductive contracts for this property are not in place yet): run-time contract on the real "
        "code within the stated bound; nothing is claimed beyond the explored inputs. " + n,
        technique="bounded run-time-contract stand-in (deductive contracts pending)")
