#!/bin/sh
# run the quick check of every property in sequence; print exit code and wall time
cd "$(dirname "$0")/.."
for p in ${@:-C01 C02 C03 C04 C05 C06 C07 C08 C09 C10 C11 C12 C13 C14 C15 C16 C17 C18 C19 C20}; do
  s=$(date +%s)
  .venv/bin/python -m checks.run $p --tier ${TIER:-quick} > /tmp/runall_$p.out 2>&1
  rc=$?
  e=$(date +%s)
  echo "$p exit=$rc wall=$((e-s))s $(grep -E '^(OK|VIOLATION|CHECKER-ERROR|UNDECIDED)' /tmp/runall_$p.out | head -3 | tr '\n' ' ')"
done
