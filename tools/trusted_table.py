#!/usr/bin/env python3
"""Print, per property, the contracts that are TRUSTED (assumed, body not verified), the statements replaced by an assumed effect and the
trusted library models used, as recorded by the specs and by the last evidence files (for DESIGN.md section 11.5)."""
import glob, json, os, sys
ROOT = os.path.dirname(os.path.dirname(os.path.abspath(__file__)))
sys.path.insert(0, ROOT)
os.environ.setdefault("PYTHONHASHSEED", "0")
from checks import deductive
print("| id | trusted contracts (body not verified) | trusted library models / assumed statements (from the last run) |")
print("|---|---|---|")
for i in range(1, 21):
    prop = "C%02d" % i
    ev = json.load(open(os.path.join(ROOT, "evidence", prop + ".json")))
    tr = sorted({t.split(":")[-1] for t in ev["coverage"].get("trusted_base", []) if ":" in t and not t.startswith(("pyvc", "z3", "cvc5"))})
    tb = [t for t in ev["coverage"].get("trusted_base", []) if not t.startswith(("pyvc", "z3", "cvc5")) and ":" not in t]
    assumed = [d.split("ASSUMED (not executed): ")[1][:90] for d in ev["coverage"].get("extraction_dropped", []) if "ASSUMED" in d]
    print("| %s | %s | %s |" % (prop, ", ".join("`%s`" % t for t in tr) or "-", "; ".join(tb + assumed) or "-"))
