#!/usr/bin/env python3
"""Regenerate /verif/MANIFEST.json from the per-property table below (kept in one place so that the
claimed level always matches what the checks actually do)."""
import json
import os
import subprocess

ROOT = os.path.dirname(os.path.dirname(os.path.abspath(__file__)))

# id -> (category, deductive summary, bounded summary, trusted / assumed)
T = {}


def add(i, cat, ded, bnd, note, technique=None):
    T[i] = dict(cat=cat, ded=ded, bnd=bnd, note=note,
                technique=technique or "contract-based deductive verification (pyvc VC generator over the real source + z3/cvc5)"
                + ("; bounded run-time-contract stand-in for the clauses named in level_note" if bnd else ""))


exec(open(os.path.join(ROOT, "tools", "manifest_table.py")).read())

props = [json.loads(l) for l in open(os.path.join(ROOT, "properties.jsonl"))]
fix_commits = subprocess.run(["git", "-C", "/repo", "log", "--format=%H %s", "d3aee5c..HEAD"], capture_output=True,
                             text=True).stdout.strip().splitlines()
checks, na = [], []
for p in props:
    i = p["id"]
    if i not in T:
        na.append(dict(property_id=i, reason="check not built yet"))
        continue
    t = T[i]
    if t["cat"] == "n/a":
        na.append(dict(property_id=i, reason=t["note"]))
        continue
    text = []
    if t["ded"]:
        text.append("PROVED (unbounded, for all inputs satisfying the stated preconditions): " + t["ded"])
    if t["bnd"]:
        text.append("BOUNDED (run-time contract on the real code, never counted as proof): " + t["bnd"])
    checks.append(dict(
        property_id=i,
        quick_cmd=".venv/bin/python -m checks.run %s --tier quick" % i,
        thorough_cmd=".venv/bin/python -m checks.run %s --tier thorough" % i,
        evidence_file="evidence/%s.json" % i,
        replay_cmd_template=".venv/bin/python -m checks.replay {path}",
        engine="pyvc",
        level_claimed=dict(category=t["cat"], text=" ".join(text), design_ref="DESIGN.md §6 " + i),
        level_note=t["note"],
        technique=t["technique"]))

m = dict(
    version=1,
    setup_cmd="sh tools/setup.sh",
    hooks=dict(guard="TRACKLIB_VERIF",
               enable="no hooks: contracts are sidecar files under /verif/specs and the run-time wrappers of the bounded part are "
                      "applied inside the check process; /repo is read (ast) and imported, never instrumented",
               baseline_off_cmd="cd /repo && /venv/bin/python -m pytest -ra -q -p no:cacheprovider --timeout=900 --continue-on-collection-errors",
               source_commits=[],
               add_only=True),
    engines=[dict(name="pyvc", path="pyvc/", serves_properties=[c["property_id"] for c in checks],
                  kind_free_text="verification-condition generator for a Python subset: re-reads /repo's source with ast on every run, "
                                 "forward symbolic execution with state merging against sidecar contracts (pre/post, loop invariants, "
                                 "frames, ghost hints, lemmas), obligations discharged by z3 5.1 / cvc5 1.0 / z3 4.8; "
                                 "bounded/ holds the run-time-contract stand-ins")],
    checks=checks,
    notes="Exit codes of every check: 0 held, 1 violation (VIOLATION line + replay file), 2 undecided without stand-in, 3 checker error. "
          "known_findings.jsonl lists recorded findings (status known) and repaired defects (status fixed, with the fix: commit). "
          "There are no hook commits (hooks.source_commits is empty). fix: commits in /repo: " + ", ".join(l.split()[0][:7] for l in fix_commits if " fix:" in l) + ".",
    not_applicable=na)
json.dump(m, open(os.path.join(ROOT, "MANIFEST.json"), "w"), indent=1)
print("checks:", len(checks), "not_applicable:", len(na))
