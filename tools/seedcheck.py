#!/usr/bin/env python3
"""Validate one candidate seeded change and run the property's check against it, all in a scratch git worktree of
/repo (never in /repo itself).

usage: python3 tools/seedcheck.py <prop> <dir with patch.diff, demo.py[, notes.md]> <name> [--keep] [--tier quick]

Steps (each recorded in <outdir>/meta.json):
  1. worktree of /repo HEAD under /tmp; demo.py on the clean tree must exit 0
  2. git apply patch.diff; demo.py must exit 1
  3. the pinned baseline test suite must still pass (243 stable tests)
  4. the property's quick check is run with TRACKLIB_REPO=<worktree> (output redirected: /verif/evidence untouched)
  5. worktree removed
With --keep the candidate is copied to /verif/seeded/<name>/ when 1-3 hold."""
import json
import os
import shutil
import subprocess
import sys
import tempfile
import time

ROOT = os.path.dirname(os.path.dirname(os.path.abspath(__file__)))


def sh(cmd, **kw):
    return subprocess.run(cmd, shell=True, capture_output=True, text=True, **kw)


def main():
    prop, src, name = sys.argv[1:4]
    keep = "--keep" in sys.argv
    tier = "thorough" if "--tier=thorough" in sys.argv else "quick"
    reuse = None
    import hashlib
    psha = hashlib.sha256(open(os.path.join(src, "patch.diff"), "rb").read()).hexdigest()
    if "--reuse-validation" in sys.argv:
        # the seed was validated before (demo flips, 243 tests pass) and the patch text is the same: only re-run the check
        try:
            old = json.load(open(os.path.join(ROOT, "seeded", name, "meta.json")))
            if old.get("valid_seed") and old.get("patch_sha256", psha) == psha and \
                    open(os.path.join(ROOT, "seeded", name, "patch.diff"), "rb").read() == open(os.path.join(src, "patch.diff"), "rb").read():
                reuse = old
        except Exception:
            reuse = None
    wt = tempfile.mkdtemp(prefix="seedwt_", dir="/tmp")
    os.rmdir(wt)
    out = tempfile.mkdtemp(prefix="seedout_", dir="/tmp")
    meta = dict(property=prop, name=name, source=src, tier=tier, steps={}, patch_sha256=psha)
    try:
        r = sh("git -C /repo worktree add -q --detach %s HEAD" % wt)
        assert r.returncode == 0, r.stderr
        env = dict(os.environ, TRACKLIB_REPO=wt, PYTHONDONTWRITEBYTECODE="1")
        demo = os.path.join(src, "demo.py")
        if reuse is None:
            r0 = sh("/venv/bin/python %s" % demo, env=env, cwd=wt, timeout=900)
            meta["steps"]["demo_clean_exit"] = r0.returncode
        r = sh("git -C %s apply %s" % (wt, os.path.join(src, "patch.diff")))
        meta["steps"]["patch_applies"] = r.returncode == 0
        if r.returncode != 0:
            meta["error"] = r.stderr[-500:]
            return meta
        if reuse is None:
            r1 = sh("/venv/bin/python %s" % demo, env=env, cwd=wt, timeout=900)
            meta["steps"]["demo_changed_exit"] = r1.returncode
            meta["steps"]["demo_changed_output"] = (r1.stdout + r1.stderr)[-600:]
            t0 = time.time()
            r = sh("/venv/bin/python %s %s" % (os.path.join(ROOT, "tools", "baseline.py"), wt))
            meta["steps"]["baseline_tests"] = r.stdout.strip().splitlines()[:6]
            meta["steps"]["baseline_tests_pass"] = r.returncode == 0
            meta["steps"]["baseline_wall_s"] = round(time.time() - t0, 1)
        else:
            meta["steps"] = dict(reuse["steps"], patch_applies=True, validation_reused="demo and the 243 baseline tests were run on this same patch text in an earlier seedcheck run")
        sh("git -C %s status --short" % wt)
        t0 = time.time()
        env2 = dict(env, VERIF_OUT=out)
        r = sh("%s -m checks.run %s --tier %s" % (os.path.join(ROOT, ".venv/bin/python"), prop, tier), env=env2, cwd=ROOT,
               timeout=7200)
        lines = [l for l in r.stdout.splitlines() if l.startswith(("VIOLATION", "KNOWN-FINDING", "UNDECIDED", "OK ", "CHECKER-ERROR", "DRIFT"))]
        meta["check"] = dict(cmd=".venv/bin/python -m checks.run %s --tier %s (TRACKLIB_REPO=<worktree with the change>)" % (prop, tier),
                             exit=r.returncode, wall_s=round(time.time() - t0, 1), lines=lines[:12],
                             stderr_tail=r.stderr[-400:] if r.returncode not in (0, 1) else "")
        meta["detected"] = r.returncode == 1 and any(l.startswith("VIOLATION") for l in lines)
        meta["detected_by_obligation"] = [l.split("obligation=")[1].split()[0] for l in lines if l.startswith("VIOLATION") and "obligation=" in l]
        meta["detected_by_bounded"] = any("(bounded stand-in)" in l for l in lines)
        valid = meta["steps"]["demo_clean_exit"] == 0 and meta["steps"]["demo_changed_exit"] == 1 and meta["steps"]["baseline_tests_pass"]
        meta["valid_seed"] = valid
        if keep and valid:
            dst = os.path.join(ROOT, "seeded", name)
            os.makedirs(dst, exist_ok=True)
            for f in ("patch.diff", "demo.py", "notes.md"):
                if os.path.exists(os.path.join(src, f)) and os.path.abspath(src) != os.path.abspath(dst):
                    shutil.copy(os.path.join(src, f), os.path.join(dst, f))
            json.dump(meta, open(os.path.join(dst, "meta.json"), "w"), indent=1)
        return meta
    finally:
        sh("git -C /repo worktree remove --force %s" % wt)
        shutil.rmtree(wt, ignore_errors=True)
        shutil.rmtree(out, ignore_errors=True)
        print(json.dumps(meta, indent=1))


if __name__ == "__main__":
    main()
