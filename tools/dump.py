#!/usr/bin/env python
"""Developer helper: dump the SMT-LIB text of the obligations of one function whose name contains a substring.
usage: .venv/bin/python tools/dump.py C01 tracklib.core.utils:addListToAF other-columns /tmp/x"""
import sys, os
import os as _os, sys as _sys
if _os.environ.get("PYTHONHASHSEED") != "0":      # deterministic VC text: set iteration order must not vary between runs
    _os.environ["PYTHONHASHSEED"] = "0"
    _os.execv(_sys.executable, [_sys.executable] + (["-m", "checks.run"] + _sys.argv[1:] if __name__ == "__main__" and _sys.argv[0].endswith("run.py") and __package__ else _sys.argv))
sys.path.insert(0, os.path.dirname(os.path.dirname(os.path.abspath(__file__))))
from checks import deductive
from pyvc.verify import verify_function
prop, qual, sub, outdir = sys.argv[1:5]
idx, reg, mod = deductive.build_registry(os.environ.get("TRACKLIB_REPO", "/repo"), prop)
r = verify_function(reg, qual, prop)
print("error:", r.error)
os.makedirs(outdir, exist_ok=True)
for o in r.obligations:
    if sub in o["name"]:
        fn = os.path.join(outdir, o["name"].replace("/", "_").replace(":", "_") + ".smt2")
        open(fn, "w").write(o["smt2"])
        print(fn, len(o["smt2"]))
        if o.get("smt2_rel"):
            open(fn[:-5] + ".rel.smt2", "w").write(o["smt2_rel"])
        for d in (1, 2):
            if o.get("smt2_near%d" % d):
                open(fn[:-5] + ".near%d.smt2" % d, "w").write(o["smt2_near%d" % d])
        if o.get("smt2_cone"):
            open(fn[:-5] + ".cone.smt2", "w").write(o["smt2_cone"])
