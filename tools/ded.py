#!/usr/bin/env python
"""Developer helper: run only the deductive part of one property and print a per-obligation table.
usage: .venv/bin/python tools/ded.py C01 [substring-filter] [--timeout N]"""
import sys, os, time
import os as _os, sys as _sys
if _os.environ.get("PYTHONHASHSEED") != "0":      # deterministic VC text: set iteration order must not vary between runs
    _os.environ["PYTHONHASHSEED"] = "0"
    _os.execv(_sys.executable, [_sys.executable] + (["-m", "checks.run"] + _sys.argv[1:] if __name__ == "__main__" and _sys.argv[0].endswith("run.py") and __package__ else _sys.argv))
ROOT = os.path.dirname(os.path.dirname(os.path.abspath(__file__)))
sys.path.insert(0, ROOT)
from checks import deductive
prop = sys.argv[1]
flt = [a for a in sys.argv[2:] if not a.startswith("--")]
tmo = 30
for a in sys.argv[2:]:
    if a.startswith("--timeout="):
        tmo = int(a.split("=")[1])
deductive.TIMEOUT["quick"] = tmo
if flt:
    deductive.ONLY = flt
t0 = time.time()
out = deductive.run(prop, "quick", os.environ.get("TRACKLIB_REPO", "/repo"))
for f in out["functions"]:
    if f["error"]:
        print("ERROR", f["qual"], f["error"])
bad = 0
for o in out["obligations"]:
    if o["kind"] == "cover":
        if o["verdict"] == "unsat":
            print("VACUOUS", o["name"])
        continue
    if o["verdict"] != "unsat":
        bad += 1
        print("%-7s %6.1fs %s  %s" % (o["verdict"], o["time"], o["name"], (o.get("detail") or "")[:60]))
        if o["verdict"] == "sat" and "--model" in sys.argv:
            print("    ", {k: v for k, v in (o.get("model") or {}).items()})
n = len([o for o in out["obligations"] if o["kind"] != "cover"])
print("obligations %d, not discharged %d, vacuous %s, wall %.1fs" % (n, bad, out["vacuous"], time.time() - t0))
