#!/bin/sh
# Re-run the property's quick check against every kept seeded change of the given properties (sequential; each in its own
# scratch worktree of /repo, removed afterwards).  usage: tools/runseeds.sh C03 C04 ...   (no argument: all)
cd "$(dirname "$0")/.."
[ $# -eq 0 ] && set -- $(ls seeded | sed 's/-.*//' | sort -u)
for p in "$@"; do
  for d in seeded/$p-*; do
    [ -f $d/patch.diff ] || continue
    n=$(basename $d)
    python3 tools/seedcheck.py $p "$PWD/$d" $n --keep --reuse-validation > /tmp/seedres_$n.json 2>&1
    python3 - $n <<'PY'
import json, sys
try:
    m = json.load(open("/verif/seeded/%s/meta.json" % sys.argv[1]))
    print(sys.argv[1], "detected" if m.get("detected") else "MISSED", "by", ("obligation " + ",".join(m.get("detected_by_obligation", [])[:2])) if m.get("detected_by_obligation") else ("bounded" if m.get("detected_by_bounded") else "-"), m.get("check", {}).get("wall_s"))
except Exception as e:
    print(sys.argv[1], "ERROR", e)
PY
  done
done
