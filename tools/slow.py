#!/usr/bin/env python
"""Developer helper: list the slowest obligations of a property (solver time), to find the ones at risk under load."""
import os as _os, sys as _sys
if _os.environ.get("PYTHONHASHSEED") != "0":
    _os.environ["PYTHONHASHSEED"] = "0"
    _os.execv(_sys.executable, [_sys.executable] + _sys.argv)
import sys, os
sys.path.insert(0, os.path.dirname(os.path.dirname(os.path.abspath(__file__))))
from checks import deductive
out = deductive.run(sys.argv[1], "quick", "/repo")
obls = sorted([o for o in out["obligations"] if o["kind"] != "cover"], key=lambda o: -o["time"])
for o in obls[:12]:
    print("%6.1fs %-8s %-28s %s" % (o["time"], o["verdict"], o["backend"], o["name"]))
print("total", len(obls), "undischarged", len([o for o in obls if o["verdict"] != "unsat"]), "wall %.1f" % out["wall"])
