#!/usr/bin/env python
"""Record, for a property, the source hash of every function under contract and the names of the obligations
discharged on the CURRENT tree of /repo (run on the pinned tree only, after a green check).
usage: .venv/bin/python tools/mkbaseline.py C17 [C01 ...]"""
import json, os, sys
import os as _os, sys as _sys
if _os.environ.get("PYTHONHASHSEED") != "0":      # deterministic VC text: set iteration order must not vary between runs
    _os.environ["PYTHONHASHSEED"] = "0"
    _os.execv(_sys.executable, [_sys.executable] + (["-m", "checks.run"] + _sys.argv[1:] if __name__ == "__main__" and _sys.argv[0].endswith("run.py") and __package__ else _sys.argv))
ROOT = os.path.dirname(os.path.dirname(os.path.abspath(__file__)))
sys.path.insert(0, ROOT)
from checks import deductive
os.makedirs(os.path.join(ROOT, "specs", "baseline"), exist_ok=True)
for prop in sys.argv[1:]:
    out = deductive.run(prop, "quick", "/repo")
    if out is None:
        print(prop, "no deductive part")
        continue
    bad = [o["name"] for o in out["obligations"] if o["kind"] != "cover" and o["verdict"] != "unsat"]
    errs = [f["qual"] for f in out["functions"] if f["error"]]
    b = dict(functions={f["qual"]: f["eff_sha"] for f in out["functions"] if not f["error"]},
             discharged=sorted(o["name"] for o in out["obligations"] if o["kind"] != "cover" and o["verdict"] == "unsat"),
             not_discharged=sorted(bad),
             backends={o["name"]: [o["backend"], o["time"]] for o in out["obligations"]
                       if o["kind"] != "cover" and o["verdict"] == "unsat" and o["time"] > 1.0})
    json.dump(b, open(os.path.join(ROOT, "specs", "baseline", prop + ".json"), "w"), indent=1)
    print(prop, "functions", len(b["functions"]), "discharged", len(b["discharged"]), "not discharged", bad, "errors", errs)
