#!/bin/sh
# developer helper: apply a patch to a scratch copy of /repo's sources and run the deductive part on it
# usage: tools/mutded.sh C17 /tmp/mut/out/C17/a/patch.diff [filter...]
prop=$1; patch=$2; shift 2
S=$(mktemp -d /tmp/scrXXXX)
cp -r /repo/tracklib $S/tracklib
(cd $S && patch -p1 -s < $patch) || { echo "patch failed"; rm -rf $S; exit 9; }
TRACKLIB_REPO=$S /verif/.venv/bin/python /verif/tools/ded.py $prop "$@"
rm -rf $S
