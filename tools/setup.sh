#!/bin/sh
# Build the overlay interpreter: /venv's packages (tracklib's dependencies) + z3 & friends from the offline wheelhouse.
set -e
cd "$(dirname "$0")/.."
if [ ! -x .venv/bin/python ] || ! .venv/bin/python -c "import z3, numpy" 2>/dev/null; then
  rm -rf .venv
  /venv/bin/python -m venv .venv
  echo "import site; site.addsitedir('/venv/lib/python3.12/site-packages')" > .venv/lib/python3.12/site-packages/_repo.pth
  PIP_NO_INDEX=1 .venv/bin/python -m pip install -q --no-index --find-links /opt/veriftools/wheels z3-solver icontract deal crosshair-tool jsonschema hypothesis
fi
.venv/bin/python -c "import z3, numpy, matplotlib; print('setup ok: z3', z3.get_version_string())"
