#!/usr/bin/env python3
"""Run the pinned baseline suite of /repo (command from /root/.vp/BASELINE.json) and
compare with its stable_pass list.  Exit 0 iff every stable test passes."""
import json, subprocess, sys, tempfile, os, xml.etree.ElementTree as ET
repo = sys.argv[1] if len(sys.argv) > 1 else "/repo"
b = json.load(open("/root/.vp/BASELINE.json"))
out = tempfile.mktemp(suffix=".xml")
cmd = b["cmd"].replace("<file>", out).replace("cd /repo", "cd " + repo)
env = dict(os.environ, PYTHONDONTWRITEBYTECODE="1")
subprocess.run(cmd, shell=True, stdout=subprocess.DEVNULL, stderr=subprocess.DEVNULL, env=env)
passed = set()
for tc in ET.parse(out).getroot().iter("testcase"):
    if not any(ch.tag in ("failure", "error", "skipped") for ch in tc):
        passed.add(tc.get("classname") + "::" + tc.get("name"))
os.remove(out)
missing = [t for t in b["stable_pass"] if t not in passed]
print("stable passing: %d/%d" % (len(b["stable_pass"]) - len(missing), len(b["stable_pass"])))
for m in missing:
    print("  MISSING", m)
sys.exit(1 if missing else 0)
