"""C13 bounded stand-in: what the writers put in a file, the matching reader gets back.

Routes: TrackWriter.writeToFile -> TrackReader.readFromCsv (all column-index permutations), TrackWriter.writeToGpx ->
TrackReader.readFromGpx, Track.toWKT -> TrackReader.parseWkt, NetworkWriter.writeToCsv -> NetworkReader.readFromFile.
Oracle = the statement itself: same number of observations, same order, coordinates equal to the written precision
(1 mm metric, 1e-8 degree geographic), timestamps equal to the second; same nodes / edges / end nodes / orientations /
geometries for networks; equal planimetric coordinates for WKT.  Files go to a private temporary directory."""
import itertools
import math
import os
import random
import shutil
import tempfile

ID = "C13"
BOUND = {
    "quick": "CSV: 3 coordinate systems x separators {',' ';' TAB} x 3 time formats (+ blank separator x 1 space-free format) "
             "x header {0,1} x 12 tracks (7 fixed + 5 random, 1..4 obs) x all 38 admissible (id_E,id_N,id_U,id_T) assignments; "
             "GPX: GEO/ENU x 2 print formats x 12 tracks (single, one-file collection, one file per track); WKT: 60 tracks; "
             "network CSV: ENU/GEO x 4 separators x header {0,1} x 8 networks (0..6 edges, 3 orientations, 2..5 vertices, "
             "loops, parallel edges)",
    "thorough": "CSV: 3 systems x separators {',' ';' TAB '  ' '|'} x 7 time formats (+ blank separator x 3 space-free formats) "
                "x header {0,1} x 192 tracks x 38 assignments; GPX: 2 x 3 formats x 137 tracks; WKT: 12000 tracks; "
                "network CSV: 2 x 5 separators x 2 x 248 networks",
}
RULE = ("case = one (route, coordinate system, separator, header flag, time format) with an explicit list of tracks / "
        "networks; every (track, column assignment) is one evaluation.  Values: negative, |x| up to 1e12, many decimals, "
        "rounding ties; timestamps at 00:00:00, 23:59:59, month/year ends, 29 Feb, ms in {0,1,500,999}.  Not generated "
        "(outside 'matching format'): a separator that occurs inside the printed timestamp, variable-width time codes "
        "(1D,1M,..), E or N within 1.5 m of the reader's documented no-data sentinel -999999, empty tracks, 3-D network geometries")
CHUNK = 1
BUDGET_S = {"quick": 75, "thorough": 1500}

DEFAULT_FMT = "2D/2M/4Y 2h:2m:2s"
GPX_FMT = "4Y-2M-2DT2h:2m:2s"
TOL_M = 1e-3
TOL_DEG = 1e-8

# all admissible column assignments: E, N always present, U and T optional, ids = a permutation of 0..k-1
PERMS = []
for k_u, k_t in ((1, 1), (1, 0), (0, 1), (0, 0)):
    names = ["E", "N"] + (["U"] if k_u else []) + (["T"] if k_t else [])
    for perm in itertools.permutations(range(len(names))):
        d = dict(zip(names, perm))
        PERMS.append((d["E"], d["N"], d.get("U", -1), d.get("T", -1)))
assert len(PERMS) == 38


# ----------------------------------------------------------------------------------------------
# generators
# ----------------------------------------------------------------------------------------------
def near_sentinel(v):
    return -1000000.5 <= v <= -999997.5


METRIC = [0.0, -0.0004, 0.0005, 0.0015, 0.00049999999, -1.2345, 1234567.8915, -987654.3215, 123456789.0125,
          -1000000000.5, 1000000000000.25, 8848.86, -431.123456789, 0.1 + 0.2, 1e-9, 999999.9995, 5, -7, 0.9995]
ECEF_PTS = [[4201575.762, 189856.033, 4779066.058], [-2694044.4111, -4266368.8056, 3888310.60235], [6378137.0, 0.0, 0.0],
            [0.0004, -0.0005, -6356752.3142], [-3957197.1, 3310205.2, -3737712.9]]
LONS = [-180.0, 180.0, -179.9999999999, 0.0, -0.00000001, 2.3488123456789, 139.6917, -73.98765432109, 0.000000005]
LATS = [-90.0, 90.0, 0.0, 48.8534123456, -33.8688, 89.99999999, -0.000000004, 45.000000015]
HGTS = [0.0, -431.123456, 8848.86, 10000.0005, -0.0004, 35]
TIMES = [[1970, 1, 1, 0, 0, 0, 0], [1999, 12, 31, 23, 59, 59, 999], [2000, 1, 1, 0, 0, 0, 0], [2000, 2, 29, 12, 0, 0, 500],
         [2020, 1, 31, 0, 0, 0, 0], [2020, 2, 29, 23, 59, 59, 0], [2021, 2, 28, 23, 59, 59, 1], [2021, 3, 1, 0, 0, 0, 0],
         [2021, 4, 30, 23, 59, 0, 0], [2021, 11, 30, 0, 0, 59, 0], [2021, 12, 31, 23, 59, 59, 0], [2022, 1, 1, 0, 0, 0, 0],
         [2022, 10, 9, 8, 7, 6, 5], [2038, 1, 19, 3, 14, 7, 0], [2099, 12, 31, 23, 59, 59, 999], [2100, 2, 28, 0, 0, 1, 0]]
DIM = [31, 28, 31, 30, 31, 30, 31, 31, 30, 31, 30, 31]


def rnd_time(rnd):
    y = rnd.choice([1970, 1999, 2000, 2004, 2019, 2020, 2023, 2024, 2038, 2099, rnd.randrange(1970, 2100)])
    m = rnd.choice([1, 2, 12, rnd.randrange(1, 13)])
    last = DIM[m - 1] + (1 if m == 2 and y % 4 == 0 and (y % 100 != 0 or y % 400 == 0) else 0)
    d = rnd.choice([1, last, rnd.randrange(1, last + 1)])
    h, mi, s = rnd.choice([(0, 0, 0), (23, 59, 59), (12, 0, 0), (0, 0, 1), (rnd.randrange(24), rnd.randrange(60), rnd.randrange(60))])
    return [y, m, d, h, mi, s, rnd.choice([0, 0, 1, 500, 999, rnd.randrange(1000)])]


def rnd_metric(rnd):
    while True:
        s = rnd.choice([1e-2, 1.0, 1e3, 1e6, 1e7, 1e9, 1e12])
        v = rnd.choice([rnd.uniform(-s, s), round(rnd.uniform(-s, s), 3) + rnd.choice([0.0005, -0.0005, 0.00049, 0.0]),
                        float(rnd.randrange(-10, 10)), rnd.choice(METRIC)])
        if not near_sentinel(v):
            return v


def rnd_pos(rnd, srid):
    if srid == "GEO":
        lon = rnd.choice([rnd.uniform(-180, 180), rnd.choice(LONS), round(rnd.uniform(-180, 180), 8) + 5e-9])
        lat = rnd.choice([rnd.uniform(-90, 90), rnd.choice(LATS), round(rnd.uniform(-89, 89), 8) - 5e-9])
        return [lon, lat, rnd.choice([rnd.uniform(-1000, 10000), rnd.choice(HGTS)])]
    if srid == "ECEF" and rnd.random() < 0.5:
        p = rnd.choice(ECEF_PTS)
        return [c + rnd.uniform(-1000, 1000) for c in p]
    return [rnd_metric(rnd), rnd_metric(rnd), rnd_metric(rnd)]


def fixed_tracks(srid):
    """Hand-picked tracks: every stress value and every boundary timestamp appears once."""
    if srid == "GEO":
        pos = [[LONS[i % len(LONS)], LATS[i % len(LATS)], HGTS[i % len(HGTS)]] for i in range(16)]
    elif srid == "ECEF":
        pos = [list(p) for p in ECEF_PTS] + [[METRIC[(3 * i + j) % len(METRIC)] for j in range(3)] for i in range(11)]
    else:
        pos = [[METRIC[(3 * i + j) % len(METRIC)] for j in range(3)] for i in range(16)]
    obs = [[p[0], p[1], p[2], TIMES[i]] for i, p in enumerate(pos)]
    return [obs[0:1], obs[1:3], obs[3:6], obs[6:10], obs[10:13], obs[13:16], [obs[12], obs[2]]]


def rnd_track(rnd, srid, nmax=4):
    n = rnd.randrange(1, nmax + 1)
    ts = sorted(rnd_time(rnd) for _ in range(n))
    return [rnd_pos(rnd, srid) + [ts[i]] for i in range(n)]


def rnd_xy(rnd, srid):
    if srid == "GEO":
        return [rnd.choice([rnd.uniform(-180, 180), rnd.choice(LONS)]), rnd.choice([rnd.uniform(-90, 90), rnd.choice(LATS)])]
    s = rnd.choice([1.0, 1e3, 1e6, 1e7])
    return [rnd.choice([rnd.uniform(-s, s), rnd.choice(METRIC), float(rnd.randrange(-5, 5)), rnd.uniform(-1, 1) * 1e-7,
                        rnd.uniform(-1, 1) * 1e17]) for _ in range(2)]


def rnd_network(rnd, srid, n_edges):
    n_nodes = rnd.randrange(1, 5) if n_edges else 0
    coords = {}
    while len(coords) < n_nodes:
        c = rnd_xy(rnd, srid)
        if c not in coords.values():
            coords["n%d" % len(coords) if rnd.random() < 0.7 else str(100 + len(coords))] = c
    ids = list(coords)
    edges = []
    for k in range(n_edges):
        s, t = rnd.choice(ids), rnd.choice(ids)
        inner = [rnd_xy(rnd, srid) for _ in range(rnd.randrange(1 if s == t else 0, 4))]
        eid = rnd.choice(["e%d", "%d", "E-%d", "edge_%d"]) % k
        edges.append([eid, s, t, rnd.choice([0, 1, -1]), [coords[s]] + inner + [coords[t]]])
    return edges


def fixed_networks(srid):
    a, b, c = ([0.0, 0.0], [10.5, -3.25], [1234567.891, 6543210.123]) if srid == "ENU" else \
        ([2.3488123456789, 48.8534123456], [-73.98765432109, 40.75], [180.0, -89.99999999])
    m = [(a[0] + b[0]) / 2 + 0.1, (a[1] + b[1]) / 2 - 0.1]
    return [
        [],
        [["e0", "A", "B", 1, [a, b]]],
        [["e0", "A", "B", 0, [a, m, b]], ["e1", "B", "C", 1, [b, c]], ["e2", "C", "A", -1, [c, m, [m[0] + 1e-7, m[1]], a]]],
        [["10", "1", "2", -1, [a, b]], ["11", "1", "2", 1, [a, m, b]], ["12", "2", "2", 0, [b, m, c, b]], ["13", "3", "1", 0, [c, a]]],
    ]


def cases(tier, seed):
    rnd = random.Random(seed)
    quick = tier == "quick"
    spaced = [DEFAULT_FMT, "4Y-2M-2D 2h:2m:2s", "2h:2m:2s 2D.2M.4Y"] if quick else \
        [DEFAULT_FMT, "4Y-2M-2D 2h:2m:2s", "2h:2m:2s 2D.2M.4Y", "4Y/2M/2D 2h:2m:2s.3z", "2D/2M/2Y 2h:2m:2s"]
    compact = [GPX_FMT] if quick else [GPX_FMT, "2D/2M/4Y-2h:2m:2s.3z"]
    seps = [",", ";", " ", "\t"] if quick else [",", ";", " ", "\t", "  ", "|"]
    srids = ["ENU", "GEO", "ECEF"]

    def csv_cases(h):
        for srid in srids:
            for sep in seps:
                fmts = (compact + ([] if quick else ["2D.2M.4Y_2h:2m:2s"])) if sep == " " else (spaced + compact)
                if quick:
                    fmts = fmts[:3]
                for tf in fmts:
                    yield dict(kind="csv", srid=srid, sep=sep, h=h, tfmt=tf,
                               tracks=fixed_tracks(srid) + [rnd_track(rnd, srid) for _ in range(5)])
                    for _ in range(0 if quick else 30):
                        yield dict(kind="csv", srid=srid, sep=sep, h=h, tfmt=tf, tracks=[rnd_track(rnd, srid) for _ in range(6)])

    def gpx_cases(srid):
        for tf in ([DEFAULT_FMT, GPX_FMT] if quick else [DEFAULT_FMT, GPX_FMT, "4Y/2M/2D 2h:2m:2s.3z"]):
            yield dict(kind="gpx", srid=srid, tfmt=tf, tracks=fixed_tracks(srid) + [rnd_track(rnd, srid, 6) for _ in range(5)])
            for _ in range(0 if quick else 25):
                yield dict(kind="gpx", srid=srid, tfmt=tf, tracks=[rnd_track(rnd, srid, 6) for _ in range(5)])

    def net_cases(h):
        for srid in ("ENU", "GEO"):
            for sep in ([",", ";", " ", "\t"] if quick else [",", ";", " ", "\t", "|"]):
                nets = fixed_networks(srid) + [rnd_network(rnd, srid, rnd.randrange(1, 7)) for _ in range(4)]
                yield dict(kind="net", srid=srid, sep=sep, h=h, networks=nets)
                for _ in range(0 if quick else 24):
                    yield dict(kind="net", srid=srid, sep=sep, h=h,
                               networks=[rnd_network(rnd, srid, rnd.randrange(0, 7)) for _ in range(10)])

    # order: the plain variants first, then the remaining option families round-robin, so that a defect in one
    # family cannot hide the others behind the runner's 50-failure cut-off
    yield from csv_cases(0)
    yield from gpx_cases("GEO")
    for srid in ("ENU", "GEO"):
        for _ in range(1 if quick else 100):
            yield dict(kind="wkt", srid=srid, tracks=fixed_tracks(srid) + [
                [rnd_xy(rnd, srid) + [0.0, TIMES[0]] for _ in range(rnd.randrange(1, 7))] for _ in range(23 if quick else 53)])
    yield from net_cases(1)
    tails = [net_cases(0), gpx_cases("ENU"), csv_cases(1)]
    while tails:
        for g in list(tails):
            try:
                yield next(g)
            except StopIteration:
                tails.remove(g)


# ----------------------------------------------------------------------------------------------
# checks
# ----------------------------------------------------------------------------------------------
def _coords(srid):
    from tracklib.core.obs_coords import ENUCoords, GeoCoords, ECEFCoords
    return dict(ENU=ENUCoords, GEO=GeoCoords, ECEF=ECEFCoords)[srid]


def _year(y, tfmt):
    return 2000 + y % 100 if "2Y" in tfmt else y        # a two-digit year only denotes 2000..2099


def build_track(obs, srid, tfmt=""):
    from tracklib.core.obs import Obs
    from tracklib.core.obs_time import ObsTime
    from tracklib.core.track import Track
    cls = _coords(srid)
    t = Track()
    for x, y, z, tm in obs:
        t.addObs(Obs(cls(x, y, z), ObsTime(_year(tm[0], tfmt), tm[1], tm[2], tm[3], tm[4], tm[5], tm[6])))
    return t


def tol3(srid):
    return (TOL_DEG, TOL_DEG, TOL_M) if srid == "GEO" else (TOL_M, TOL_M, TOL_M)


def slack(v):
    return 4 * math.ulp(abs(v)) if v else 0.0       # |v| ~ 1e12 is not representable to 1 mm + epsilon


def compare_track(back, obs, srid, tfmt, with_z, with_t, what, fails):
    """The statement, clause by clause.  Returns False at the first discrepancy."""
    from tracklib.core.track import Track
    if not isinstance(back, Track):
        fails.append("%s: reader returned %s" % (what, type(back).__name__))
        return False
    if back.size() != len(obs):
        fails.append("%s: wrote %d observations, read back %d" % (what, len(obs), back.size()))
        return False
    tx, ty, tz = tol3(srid)
    for i, (x, y, z, tm) in enumerate(obs):
        p = back.getObs(i).position
        if not isinstance(p, _coords(srid)):
            fails.append("%s: obs %d read as %s, expected %s coordinates" % (what, i, type(p).__name__, srid))
            return False
        got = (p.getX(), p.getY(), p.getZ())
        bad = abs(got[0] - x) > tx + slack(x) or abs(got[1] - y) > ty + slack(y) or (with_z and abs(got[2] - z) > tz + slack(z))
        if bad or any(isinstance(g, float) and g != g for g in got):
            only_u = (abs(got[0] - x) <= tx + slack(x) and abs(got[1] - y) <= ty + slack(y) and got[2] == 0)
            if only_u and what.startswith("gpx ENU"):
                what = "[gpx-enu-elevation-lost] " + what      # known finding: <ele> is dropped when reading as ENU
            fails.append("%s: obs %d written (%r,%r,%r) read (%r,%r,%r)" % (what, i, x, y, z if with_z else "-", got[0], got[1], got[2]))
            return False
        if with_t:
            ts = back.getObs(i).timestamp
            g = (ts.year, ts.month, ts.day, ts.hour, ts.min, ts.sec)
            w = (_year(tm[0], tfmt), tm[1], tm[2], tm[3], tm[4], tm[5])
            if g != w:
                fails.append("%s: obs %d timestamp written %r read %r" % (what, i, w, g))
                return False
    return True


def _exc(e):
    import traceback
    tb = traceback.extract_tb(e.__traceback__)
    where = [f for f in tb if "tracklib" in f.filename] or tb
    return "%s: %s at %s:%d" % (type(e).__name__, str(e)[:120], where[-1].filename.split("/")[-1], where[-1].lineno)


def csv_round_trip(track, obs, srid, sep, h, tfmt, ids, path, what, fails):
    from tracklib.io.track_writer import TrackWriter
    from tracklib.io.track_reader import TrackReader
    id_E, id_N, id_U, id_T = ids
    try:
        TrackWriter.writeToFile(track, path, id_E=id_E, id_N=id_N, id_U=id_U, id_T=id_T, separator=sep, h=h)
    except (Exception, SystemExit) as e:
        fails.append("%s: writeToFile raised %s" % (what, _exc(e)))
        return
    try:
        back = TrackReader.readFromCsv(path, id_E=id_E, id_N=id_N, id_U=id_U, id_T=id_T, separator=sep, h=h, srid=srid)
    except (Exception, SystemExit) as e:
        fails.append("%s: readFromCsv raised %s" % (what, _exc(e)))
        return
    compare_track(back, obs, srid, tfmt, id_U >= 0, id_T >= 0, what, fails)


def check_csv(case, tmp, fails):
    from tracklib.core.obs_time import ObsTime
    srid, sep, h, tfmt = case["srid"], case["sep"], case["h"], case["tfmt"]
    ObsTime.setPrintFormat(tfmt)
    ObsTime.setReadFormat(tfmt)
    n = 0
    for ti, obs in enumerate(case["tracks"]):
        track = build_track(obs, srid, tfmt)
        for k, ids in enumerate(PERMS):
            what = "csv %s sep=%r h=%d timefmt=%r ids(E,N,U,T)=%r track=%r" % (srid, sep, h, tfmt, ids, obs)
            csv_round_trip(track, obs, srid, sep, h, tfmt, ids, os.path.join(tmp, "t%d_%d.csv" % (ti, k)), what, fails)
            n += 1
            if len(fails) >= 5:
                return n
        if (ObsTime.getPrintFormat(), ObsTime.getReadFormat()) != (tfmt, tfmt):
            fails.append("csv %s sep=%r: the global ObsTime formats are %r/%r after a write/read, they were %r"
                         % (srid, sep, ObsTime.getPrintFormat(), ObsTime.getReadFormat(), tfmt))
            return n
    return n


def check_gpx(case, tmp, fails):
    from tracklib.core.obs_time import ObsTime
    from tracklib.core.track_collection import TrackCollection
    from tracklib.io.track_writer import TrackWriter
    from tracklib.io.track_reader import TrackReader
    srid, tfmt = case["srid"], case["tfmt"]
    n = 0

    def read(path, what):
        ObsTime.setReadFormat(GPX_FMT)        # the matching read format for the GPX <time> element
        try:
            return TrackReader.readFromGpx(path, srid=srid)
        except (Exception, SystemExit) as e:
            fails.append("%s: readFromGpx raised %s" % (what, _exc(e)))
            return None
        finally:
            ObsTime.setReadFormat(tfmt)

    ObsTime.setPrintFormat(tfmt)
    ObsTime.setReadFormat(tfmt)
    tracks = []
    for ti, obs in enumerate(case["tracks"]):
        track = build_track(obs, srid, tfmt)
        track.tid = "trk%d" % ti
        tracks.append(track)
        what = "gpx %s (print format %r) track=%r" % (srid, tfmt, obs)
        path = os.path.join(tmp, "g%d.gpx" % ti)
        n += 1
        try:
            TrackWriter.writeToGpx(track, path)
        except (Exception, SystemExit) as e:
            fails.append("%s: writeToGpx raised %s" % (what, _exc(e)))
            continue
        coll = read(path, what)
        if coll is None:
            continue
        if len(coll) != 1:
            fails.append("%s: wrote 1 track, read back %d" % (what, len(coll)))
            continue
        if not compare_track(coll[0], obs, srid, tfmt, True, True, what, fails):
            continue
        # the writer switches the global print format: a CSV written afterwards must still round-trip
        csv_round_trip(track, obs, srid, ";", 0, tfmt, (0, 1, 2, 3), os.path.join(tmp, "g%d.csv" % ti),
                       "csv written right after writeToGpx, " + what, fails)
        if len(fails) >= 5:
            return n
    # a collection in one file, and one file per track
    objs = case["tracks"]
    coll = TrackCollection(tracks)
    what = "gpx %s collection of %d tracks in one file, tracks=%r" % (srid, len(objs), objs)
    n += 1
    try:
        TrackWriter.writeToGpx(coll, os.path.join(tmp, "all.gpx"))
        back = read(os.path.join(tmp, "all.gpx"), what)
        if back is not None:
            if len(back) != len(objs):
                fails.append("%s: read back %d tracks" % (what, len(back)))
            else:
                for i, obs in enumerate(objs):
                    if not compare_track(back[i], obs, srid, tfmt, True, True, what + " [track %d]" % i, fails):
                        break
    except (Exception, SystemExit) as e:
        fails.append("%s: writeToGpx raised %s" % (what, _exc(e)))
    n += 1
    d = os.path.join(tmp, "each")
    os.mkdir(d)
    what = "gpx %s collection written one file per track" % srid
    try:
        TrackWriter.writeToGpx(coll, d, oneFile=False)
        for i, obs in enumerate(objs):
            p = os.path.join(d, "trk%d.gpx" % i)
            if not os.path.isfile(p):
                fails.append("%s: no file for track id trk%d (directory holds %r)" % (what, i, sorted(os.listdir(d))[:8]))
                break
            back = read(p, what)
            if back is None or len(back) != 1 or not compare_track(back[0], obs, srid, tfmt, True, True, what + " track=%r" % (obs,), fails):
                if back is not None and len(back) != 1:
                    fails.append("%s: file of track %d holds %d tracks" % (what, i, len(back)))
                break
        # multi-step history: a CSV written AFTER the one-file-per-track export must still round-trip (the writer
        # switches the process-wide timestamp print format and has to restore it on every path)
        n += 1
        if ObsTime.getPrintFormat() != tfmt:
            fails.append("%s: the global ObsTime print format is %r after writeToGpx(oneFile=False), it was %r"
                         % (what, ObsTime.getPrintFormat(), tfmt))
        if tracks and not fails:
            csv_round_trip(tracks[0], objs[0], srid, ",", 1, tfmt, (0, 1, 2, 3), os.path.join(tmp, "after_each.csv"),
                           "csv written right after writeToGpx(oneFile=False), track=%r" % (objs[0],), fails)
    except (Exception, SystemExit) as e:
        fails.append("%s: writeToGpx raised %s" % (what, _exc(e)))
    return n


def check_wkt(case, fails):
    from tracklib.io.track_reader import TrackReader
    srid = case["srid"]
    n = 0
    for obs in case["tracks"]:
        track = build_track(obs, srid)
        what = "wkt %s track=%r" % (srid, [o[:2] for o in obs])
        n += 1
        try:
            text = track.toWKT()
            back = TrackReader.parseWkt(text)
        except (Exception, SystemExit) as e:
            fails.append("%s: %s" % (what, _exc(e)))
            continue
        if not isinstance(text, str) or back.size() != len(obs):
            fails.append("%s: toWKT gave %r, parsed back %d points" % (what, text[:80], back.size()))
            continue
        for i, o in enumerate(obs):
            p = back.getObs(i).position
            if p.getX() != o[0] or p.getY() != o[1]:
                fails.append("%s: vertex %d exported (%r,%r) parsed (%r,%r) [text %r]" % (what, i, o[0], o[1], p.getX(), p.getY(), text[:80]))
                break
        if len(fails) >= 5:
            break
    return n


def build_network(edges, srid):
    from tracklib.core.network import Network, Node, Edge
    from tracklib.core.obs import Obs
    from tracklib.core.obs_time import ObsTime
    from tracklib.core.track import Track
    cls = _coords(srid)
    net = Network()
    for eid, s, t, orient, geom in edges:
        tr = Track([Obs(cls(x, y, 0.0), ObsTime()) for x, y in geom])
        e = Edge(eid, tr)
        e.orientation = orient
        net.addEdge(e, Node(s, cls(geom[0][0], geom[0][1], 0.0)), Node(t, cls(geom[-1][0], geom[-1][1], 0.0)))
    return net


def check_net(case, tmp, fails):
    from tracklib.io.network_writer import NetworkWriter
    from tracklib.io.network_reader import NetworkReader
    from tracklib.io.network_format import NetworkFormat
    srid, sep, h = case["srid"], case["sep"], case["h"]
    n = 0
    for k, edges in enumerate(case["networks"]):
        n += 1
        what = "network %s sep=%r h=%d edges=%r" % (srid, sep, h, edges)
        path = os.path.join(tmp, "n%d.csv" % k)
        try:
            net = build_network(edges, srid)
            NetworkWriter.writeToCsv(net, path, separator=sep, h=h)
        except (Exception, SystemExit) as e:
            fails.append("%s: writeToCsv raised %s" % (what, _exc(e)))
            continue
        if not edges and not os.path.isfile(path):
            continue                                  # nothing to write, nothing written
        fmt = NetworkFormat({"pos_edge_id": 0, "pos_source": 1, "pos_target": 2, "pos_direction": 3, "pos_wkt": 4,
                             "separator": sep, "header": h, "srid": srid})
        try:
            back = NetworkReader.readFromFile(path, fmt, verbose=False)
        except (Exception, SystemExit) as e:
            fails.append("%s: readFromFile raised %s" % (what, _exc(e)))
            continue
        # the statement: same edges (ids, order), end nodes, orientations, geometries, same nodes
        want_ids = [e[0] for e in edges]
        if list(back.EDGES.keys()) != want_ids:
            fails.append("%s: edges read back %r" % (what, list(back.EDGES.keys())))
            continue
        ok = True
        node_xy = {}
        for eid, s, t, orient, geom in edges:
            node_xy.setdefault(s, geom[0])
            node_xy.setdefault(t, geom[-1])
            e = back.EDGES[eid]
            if (e.source.id, e.target.id) != (s, t):
                fails.append("%s: edge %r read with end nodes (%r,%r)" % (what, eid, e.source.id, e.target.id))
            elif e.orientation != orient:
                fails.append("%s: edge %r read with orientation %r" % (what, eid, e.orientation))
            elif not isinstance(e.geom.getObs(0).position, _coords(srid)):
                fails.append("%s: edge %r geometry read as %s" % (what, eid, type(e.geom.getObs(0).position).__name__))
            else:
                got = [[e.geom.getObs(i).position.getX(), e.geom.getObs(i).position.getY()] for i in range(e.geom.size())]
                if got != [list(map(float, v)) for v in geom] or any(e.geom.getObs(i).position.getZ() != 0 for i in range(e.geom.size())):
                    fails.append("%s: edge %r geometry read as %r" % (what, eid, got))
                else:
                    continue
            ok = False
            break
        if not ok:
            continue
        if set(back.NODES.keys()) != set(node_xy):
            fails.append("%s: nodes read back %r" % (what, sorted(back.NODES.keys())))
            continue
        for nid, xy in node_xy.items():
            c = back.NODES[nid].coord
            if [c.getX(), c.getY()] != list(map(float, xy)):
                fails.append("%s: node %r read at (%r,%r)" % (what, nid, c.getX(), c.getY()))
                ok = False
                break
            # what the orientation means: which neighbours can be reached from the node
            if sorted(back.getNextNodes(nid)) != sorted(net.getNextNodes(nid)) or sorted(back.getPrevNodes(nid)) != sorted(net.getPrevNodes(nid)):
                fails.append("%s: node %r has successors %r, the written network has %r" % (what, nid, sorted(back.getNextNodes(nid)), sorted(net.getNextNodes(nid))))
                ok = False
                break
        if len(fails) >= 5:
            break
    return n


def check_case(case):
    from tracklib.core.obs_time import ObsTime
    fails = []
    n = 0
    base = "/dev/shm" if os.path.isdir("/dev/shm") and os.access("/dev/shm", os.W_OK) else None
    tmp = tempfile.mkdtemp(prefix="c13_", dir=base)
    try:
        if case["kind"] == "csv":
            n = check_csv(case, tmp, fails)
        elif case["kind"] == "gpx":
            n = check_gpx(case, tmp, fails)
        elif case["kind"] == "wkt":
            n = check_wkt(case, fails)
        elif case["kind"] == "net":
            n = check_net(case, tmp, fails)
    finally:
        ObsTime.setPrintFormat(DEFAULT_FMT)
        ObsTime.setReadFormat(DEFAULT_FMT)
        shutil.rmtree(tmp, ignore_errors=True)
    return dict(failures=fails, evaluations=max(n, 1), nontrivial=max(n, 1))
