"""C06 bounded stand-in: Network shortest distances are the true minimum over permitted walks.

Oracle = Floyd-Warshall on the relation arc(u, v, w) read off the property statement ("an edge
a->b of weight w permits a->b when two-way or direct, b->a when two-way or reverse"), cross-checked
against a plain "minimum over all walks of at most n-1 edges" recursion.  The real code is driven
through Network.addNode/addEdge, shortest_distance, all_shortest_distances, prepare,
has_prepared_shortest_distance and prepared_shortest_distance only.

case = one network:  dict(n=<nodes>, edges=[[a, b, weight, orientation], ...], ids="int"|"str",
                          fresh=<bool: new Node objects for every edge end, as the file readers do>,
                          exact=<bool: weights are dyadic, all sums exact>)
"""
import itertools
import random

ID = "C06"
BOUND = {
    "quick": "every network with 1..3 nodes and 0..3 edges over weights {0,1,2} x orientations {-1,0,1} "
             "(self-loops, parallel edges; 3-edge networks as multisets in a seeded insertion order, <=2 edges "
             "in every order) + 5000 seeded random multigraphs with 2..12 nodes, 0..40 edges; every ordered "
             "pair; cuts below/equal/above every (small) or up to 4 sampled (random) exact distances",
    "thorough": "every network with 1..3 nodes and 0..3 edges over weights {0,1,2} x orientations {-1,0,1} in every "
                "insertion order (578 k networks) + 120 000 seeded random multigraphs with 2..12 nodes, 0..40 "
                "edges; every ordered pair; cuts below/equal/above the exact distances",
}
RULE = ("case = one network, checked on every ordered (source, target) pair, the one-to-all list, and the all-pairs "
        "table for each cut; distinct by (n, edge list, id style); non-trivial = the network has at least one edge")
CHUNK = 400
BUDGET_S = {"quick": 70, "thorough": 1100}
INF = float("inf")
W_SMALL = (0, 1, 2)
ORIENT = (-1, 0, 1)


# ----------------------------------------------------------------------------- case generation
def small_alphabet(n):
    return [[a, b, w, o] for a in range(n) for b in range(n) for w in W_SMALL for o in ORIENT]


def random_graph(rnd):
    n = rnd.randint(2, 12)
    m = rnd.choice([rnd.randint(0, 6), rnd.randint(0, 40), rnd.randint(n, 40), rnd.randint(25, 40)])
    flavour = rnd.choice(["small", "small", "dyadic", "dyadic", "big", "float"])
    p_zero = rnd.choice([0.0, 0.15, 0.4, 0.8])
    p_loop = rnd.choice([0.0, 0.1, 0.3])
    omix = rnd.choice([(1, 1, 1), (1, 1, 1), (3, 1, 3), (1, 0, 1), (0, 1, 0), (1, 0, 0), (0, 0, 1), (4, 1, 0)])
    shape = rnd.choice(["any", "any", "fewpairs", "clusters", "chain"])
    pairs = None
    if shape == "fewpairs":        # many parallel edges on a handful of node pairs
        pairs = [(rnd.randrange(n), rnd.randrange(n)) for _ in range(rnd.randint(1, max(1, n)))]
    split = rnd.randint(1, n - 1)

    def weight():
        if rnd.random() < p_zero:
            return 0
        if flavour == "small":
            return rnd.choice([1, 1, 2, 3])
        if flavour == "dyadic":
            return rnd.randint(1, 80) / 8.0
        if flavour == "big":
            return rnd.choice([1, 7, 250, 1000, rnd.randint(1, 1000)])
        return rnd.uniform(0.0, 10.0)

    edges = []
    for _ in range(m):
        if rnd.random() < p_loop:
            a = b = rnd.randrange(n)
        elif shape == "fewpairs":
            a, b = rnd.choice(pairs)
        elif shape == "clusters":   # two parts that are not joined, or joined one way only
            part = rnd.random() < 0.5
            lo, hi = (0, split) if part else (split, n)
            a, b = rnd.randrange(lo, hi), rnd.randrange(lo, hi)
        elif shape == "chain":
            a = rnd.randrange(n)
            b = min(n - 1, max(0, a + rnd.choice([-2, -1, 1, 1, 2])))
        else:
            a, b = rnd.randrange(n), rnd.randrange(n)
        o = rnd.choices(ORIENT, weights=omix)[0]
        edges.append([a, b, weight(), o])
    if shape == "clusters" and edges and rnd.random() < 0.5:
        edges.append([rnd.randrange(0, split), rnd.randrange(split, n), weight(), rnd.choice(ORIENT)])
        rnd.shuffle(edges)
    return dict(n=n, edges=edges, ids=rnd.choice(["int", "str"]), fresh=rnd.random() < 0.5,
                exact=flavour != "float")


def cases(tier, seed):
    rnd = random.Random(seed)
    k = 0
    for n in (1, 2, 3):
        alpha = small_alphabet(n)
        for m in (0, 1, 2, 3):
            if tier == "thorough" or m <= 2:
                it = itertools.product(alpha, repeat=m)
            else:
                it = itertools.combinations_with_replacement(alpha, m)
            for es in it:
                es = [list(e) for e in es]
                if tier != "thorough" and m == 3:
                    rnd.shuffle(es)
                k += 1
                yield dict(n=n, edges=es, ids="int" if k % 5 else "str", fresh=bool(k % 2), exact=True)
    for _ in range(5000 if tier == "quick" else 120000):
        yield random_graph(rnd)


def nontrivial(case):
    return len(case["edges"]) > 0


# ----------------------------------------------------------------------------- specification (oracle)
def arcs(case):
    """arc(u, v, w): some edge may be traversed from u to v at cost w (property statement)."""
    out = []
    for a, b, w, o in case["edges"]:
        if o in (0, 1):        # two-way or direct: source -> target
            out.append((a, b, w))
        if o in (0, -1):       # two-way or reverse: target -> source
            out.append((b, a, w))
    return out


def true_distances(case):
    """D[s][t] = minimum total weight over permitted walks s -> t (inf when there is none)."""
    n = case["n"]
    D = [[INF] * n for _ in range(n)]
    for i in range(n):
        D[i][i] = 0          # the empty walk
    for u, v, w in arcs(case):
        if w < D[u][v]:
            D[u][v] = w
    for k in range(n):
        for i in range(n):
            dik = D[i][k]
            if dik == INF:
                continue
            for j in range(n):
                if dik + D[k][j] < D[i][j]:
                    D[i][j] = dik + D[k][j]
    return D


def walk_distances(case):
    """Independent rendering: minimum over all walks with at most n-1 edges (weights >= 0, so longer
    walks cannot be cheaper than the walk obtained by cutting their cycles out)."""
    n = case["n"]
    A = arcs(case)
    rows = []
    for s in range(n):
        best = [INF] * n
        best[s] = 0
        for _ in range(max(0, n - 1)):
            nxt = list(best)
            for u, v, w in A:
                if best[u] + w < nxt[v]:
                    nxt[v] = best[u] + w
            best = nxt
        rows.append(best)
    return rows


def close(a, b, exact):
    if exact:
        return a == b
    return abs(a - b) <= 1e-9 * max(1.0, abs(a), abs(b))


def cut_values(case, D):
    """cut-offs below, equal to and above exact distances (never negative: weights are >= 0)."""
    vals = sorted({d for row in D for d in row if d != INF})     # always contains 0
    exact = case["exact"]
    small = len(case["edges"]) <= 3 and case["n"] <= 3
    if small:
        chosen = vals
    else:
        rnd = random.Random(len(vals) * 7919 + case["n"] * 31 + len(case["edges"]))
        chosen = [vals[0], vals[-1]] + (rnd.sample(vals, min(2, len(vals))) if vals else [])
    cuts = []
    for d in chosen:
        i = vals.index(d)
        lo = vals[i - 1] if i > 0 else None
        hi = vals[i + 1] if i + 1 < len(vals) else None
        if exact:
            cuts.append(d)                                       # equal
        if lo is not None and (exact or d - lo > 1e-6):
            cuts.append((lo + d) / 2.0)                          # strictly below d (and above lo)
        if hi is None:
            cuts.append(d + 1.0)                                 # above the largest distance
        elif exact or hi - d > 1e-6:
            cuts.append((d + hi) / 2.0)                          # strictly above d (and below hi)
    out = []
    for c in cuts:
        if c >= 0 and c not in out:
            # in the float flavour keep only cuts clear of every distance by a margin
            if exact or all(abs(c - v) > 1e-7 for v in vals):
                out.append(c)
    return out


# ----------------------------------------------------------------------------- real code driver
def node_id(case, i):
    return i if case["ids"] == "int" else "N%02d" % i


def build(case):
    from tracklib.core.network import Network, Node, Edge
    from tracklib.core.track import Track
    from tracklib.core.obs import Obs
    from tracklib.core.obs_coords import ENUCoords

    def coord(i):
        return ENUCoords(10.0 * i, float((i * i) % 7), 0.0)

    net = Network()
    shared = [Node(node_id(case, i), coord(i)) for i in range(case["n"])]

    def node(i):
        return Node(node_id(case, i), coord(i)) if case["fresh"] else shared[i]
    for k, (a, b, w, o) in enumerate(case["edges"]):
        e = Edge(k if case["ids"] == "int" else "E%02d" % k, Track([Obs(coord(a)), Obs(coord(b))]))
        e.weight = w
        e.orientation = o
        net.addEdge(e, node(a), node(b))
    for i in range(case["n"]):           # nodes no edge touches
        net.addNode(node(i))
    return net


def fmt(d):
    return "unreachable" if d == INF else repr(d)


def check_case(case):
    fails = []
    n = case["n"]
    exact = case["exact"]
    ev = 0
    D = true_distances(case)
    W = walk_distances(case)
    for s in range(n):
        for t in range(n):
            if not (D[s][t] == W[s][t] or (D[s][t] != INF and W[s][t] != INF and close(D[s][t], W[s][t], False))):
                fails.append("oracle disagreement on (%d,%d): Floyd-Warshall %s, walk enumeration %s"
                             % (s, t, fmt(D[s][t]), fmt(W[s][t])))
    if fails:
        return dict(failures=fails, evaluations=0, nontrivial=0)
    ids = [node_id(case, i) for i in range(n)]
    net = build(case)
    if sorted(map(str, net.getNodesId())) != sorted(map(str, ids)):
        fails.append("network holds nodes %r, built from %r" % (net.getNodesId(), ids))
        return dict(failures=fails, evaluations=1, nontrivial=1)

    # (1) every ordered pair: the reported distance is the minimum, the negative sentinel iff no walk
    for s in range(n):
        for t in range(n):
            ev += 1
            try:
                got = net.shortest_distance(ids[s], ids[t])
            except Exception as ex:          # noqa: BLE001
                fails.append("shortest_distance(%r,%r) raised %s: %s" % (ids[s], ids[t], type(ex).__name__, ex))
                continue
            want = D[s][t]
            if want == INF:
                if not (isinstance(got, (int, float)) and got < 0):
                    fails.append("shortest_distance(%r,%r) = %r but no permitted walk exists (negative sentinel expected)"
                                 % (ids[s], ids[t], got))
            elif not (isinstance(got, (int, float)) and got >= 0 and close(got, want, exact)):
                fails.append("shortest_distance(%r,%r) = %r, minimum over permitted walks is %r"
                             % (ids[s], ids[t], got, want))
        if len(fails) > 4:
            break

    # (1b) same through Node objects and through the one-to-all form (reachable entries only carry a
    #      distance; unreachable ones must not look like one)
    order = net.getNodesId()
    for s in range(n):
        ev += 1
        try:
            row = net.shortest_distance(net.getNode(ids[s]))
        except Exception as ex:              # noqa: BLE001
            fails.append("shortest_distance(Node %r) raised %s: %s" % (ids[s], type(ex).__name__, ex))
            continue
        if len(row) != n:
            fails.append("shortest_distance(%r) returned %d values for %d nodes" % (ids[s], len(row), n))
            continue
        for pos, nid in enumerate(order):
            t = ids.index(nid)
            want = D[s][t]
            if want == INF:
                if not (row[pos] < 0 or row[pos] >= 1e299):
                    fails.append("one-to-all distance from %r to unreachable %r is %r" % (ids[s], nid, row[pos]))
            elif not close(row[pos], want, exact):
                fails.append("one-to-all distance from %r to %r is %r, minimum is %r" % (ids[s], nid, row[pos], want))
        if len(fails) > 4:
            break

    # (2) all-pairs table: exactly the pairs with true distance <= cut, each with its true distance
    cuts = [None] + cut_values(case, D)
    for c in cuts:
        ev += 1
        try:
            table = net.all_shortest_distances() if c is None else net.all_shortest_distances(cut=c)
        except Exception as ex:              # noqa: BLE001
            fails.append("all_shortest_distances(cut=%r) raised %s: %s" % (c, type(ex).__name__, ex))
            continue
        lim = INF if c is None else c
        want = {(ids[s], ids[t]): D[s][t] for s in range(n) for t in range(n) if D[s][t] != INF and D[s][t] <= lim}
        for key in want:
            if key not in table:
                fails.append("all_shortest_distances(cut=%r) misses %r (true distance %r)" % (c, key, want[key]))
            elif not close(table[key], want[key], exact):
                fails.append("all_shortest_distances(cut=%r)[%r] = %r, true distance %r" % (c, key, table[key], want[key]))
        for key in table:
            if key not in want:
                s, t = ids.index(key[0]), ids.index(key[1])
                fails.append("all_shortest_distances(cut=%r) contains %r -> %r, true distance %s exceeds the cut"
                             % (c, key, table[key], fmt(D[s][t])))
        if len(fails) > 4:
            break

    # (3) the prepared table (fresh network, one cut): same contract through prepare / prepared_shortest_distance
    if len(fails) == 0:
        pick = cuts[(n + len(case["edges"])) % len(cuts)]
        net2 = build(case)
        ev += 1
        try:
            if pick is None:
                net2.prepare(verbose=False)
            else:
                net2.prepare(cut=pick, verbose=False)
            lim = INF if pick is None else pick
            for s in range(n):
                for t in range(n):
                    inside = D[s][t] != INF and D[s][t] <= lim
                    has = net2.has_prepared_shortest_distance(ids[s], ids[t])
                    val = net2.prepared_shortest_distance(net2.getNode(ids[s]), net2.getNode(ids[t]))
                    if has != inside:
                        fails.append("after prepare(cut=%r): has_prepared_shortest_distance(%r,%r) = %r, true distance %s"
                                     % (pick, ids[s], ids[t], has, fmt(D[s][t])))
                    elif inside and not close(val, D[s][t], exact):
                        fails.append("after prepare(cut=%r): prepared_shortest_distance(%r,%r) = %r, true distance %r"
                                     % (pick, ids[s], ids[t], val, D[s][t]))
                    elif not inside and val < 1e299:
                        fails.append("after prepare(cut=%r): prepared_shortest_distance(%r,%r) = %r for a pair outside the table"
                                     % (pick, ids[s], ids[t], val))
        except Exception as ex:              # noqa: BLE001
            fails.append("prepare(cut=%r) / prepared_shortest_distance raised %s: %s" % (pick, type(ex).__name__, ex))
    nt = ev if case["edges"] else 0
    return dict(failures=fails[:6], evaluations=ev, nontrivial=nt)
