"""C03 bounded stand-in: ObsTime <-> epoch seconds on CPython doubles.

Oracle = closed-form proleptic Gregorian day count (and datetime, independently).  This part
covers what the real-arithmetic proof abstracts away: IEEE rounding of the millisecond field."""
import datetime
import random

ID = "C03"
BOUND = {"quick": "every 7th day 1970-01-01..2099-12-31 plus all 28/29 Feb, 31 Dec, 1 Jan; 6 intra-day instants each",
         "thorough": "every day 1970-01-01..2099-12-31 x 8 intra-day instants; every second of 28/29 Feb, 31 Dec, 1 Jan of each year"}
RULE = "case = one calendar day (batch of instants); non-trivial = all; distinct by (day, kind)"
CHUNK = 40
EPOCH = datetime.date(1970, 1, 1)


def leap(y):
    return y % 4 == 0 and (y % 100 != 0 or y % 400 == 0)


DIM = [31, 28, 31, 30, 31, 30, 31, 31, 30, 31, 30, 31]


def dim(m, y):
    return DIM[m - 1] + (1 if m == 2 and leap(y) else 0)


def days_before_year(y):
    return 365 * (y - 1970) + (y - 1) // 4 - (y - 1) // 100 + (y - 1) // 400 - 477


def abs_ms(y, mo, d, h, mi, s, ms):
    days = days_before_year(y) + sum(dim(k, y) for k in range(1, mo)) + d - 1
    return ((days * 24 + h) * 60 + mi) * 60000 + s * 1000 + ms


def cases(tier, seed):
    rnd = random.Random(seed)
    last = (datetime.date(2099, 12, 31) - EPOCH).days
    for n in range(0, last + 1):
        dt = EPOCH + datetime.timedelta(days=n)
        special = (dt.month, dt.day) in ((2, 28), (2, 29), (12, 31), (1, 1), (3, 1))
        if tier == "quick" and not special and n % 7 != 0:
            continue
        yield dict(kind="day", n=n, ms=[rnd.randrange(1000) for _ in range(3)],
                   every_second=bool(special and tier == "thorough"))
    # ordered pairs one unit apart in each field, and offsets crossing boundaries
    for _ in range(300 if tier == "quick" else 5000):
        yield dict(kind="order", n=rnd.randrange(last), sod=rnd.randrange(86400), ms=rnd.randrange(1000),
                   unit=rnd.choice([1, 1000, 60000, 3600000, 86400000, 31 * 86400000, 366 * 86400000]))
    for _ in range(300 if tier == "quick" else 5000):
        yield dict(kind="add", n=rnd.randrange(last - 800), sod=rnd.randrange(86400),
                   nb=rnd.choice([1, 59, 60, 3599, 3600, 86399, 86400, 86400 * 31, 86400 * 366]) * rnd.choice([1, 1, 2]),
                   how=rnd.choice(["sec", "min", "hour", "day"]))


def wf(t):
    return (isinstance(t.year, int) and 1 <= t.month <= 12 and 1 <= t.day <= dim(t.month, t.year) and 0 <= t.hour <= 23
            and 0 <= t.min <= 59 and 0 <= t.sec <= 59 and 0 <= t.ms <= 999)


def fields(t):
    return (t.year, t.month, t.day, t.hour, t.min, t.sec, t.ms)


def check_instant(ObsTime, y, mo, d, h, mi, s, ms, fails):
    t = ObsTime(y, mo, d, h, mi, s, ms)
    a = t.toAbsTime()
    exact = abs_ms(y, mo, d, h, mi, s, ms)
    if abs(a * 1000 - exact) > 0.5:
        fails.append("toAbsTime(%s) = %r, Gregorian epoch seconds are %r" % (fields(t), a, exact / 1000))
    py = (datetime.datetime(y, mo, d, h, mi, s) - datetime.datetime(1970, 1, 1)).total_seconds()
    if abs(py * 1000 + ms - exact) > 0.5:
        fails.append("oracle disagreement with datetime at %s" % (fields(t),))
    r = ObsTime.readUnixTime(a)
    if not wf(r):
        fails.append("readUnixTime(%r) is not a well-formed date: %s" % (a, fields(r)))
    else:
        back = abs_ms(*fields(r))
        if abs(back - exact) > 1:
            fails.append("round trip of %s gives %s (%d ms away)" % (fields(t), fields(r), back - exact))
        if ms == 0 and fields(r) != fields(t):
            fails.append("round trip of whole-second %s gives %s" % (fields(t), fields(r)))


def check_case(case):
    from tracklib.core.obs_time import ObsTime
    fails = []
    n_eval = 0
    if case["kind"] == "day":
        dt = EPOCH + datetime.timedelta(days=case["n"])
        y, mo, d = dt.year, dt.month, dt.day
        inst = [(0, 0, 0, 0), (12, 0, 0, 0), (23, 59, 59, 999), (23, 59, 59, 0), (0, 0, 1, 0)]
        inst += [(7, 13, 21, m) for m in case["ms"]]
        if case["every_second"]:
            inst += [(s // 3600, s // 60 % 60, s % 60, 0) for s in range(86400)]
        for h, mi, s, ms in inst:
            check_instant(ObsTime, y, mo, d, h, mi, s, ms, fails)
            n_eval += 1
            if len(fails) > 3:
                break
        # integer epoch seconds must come back exactly
        e = case["n"] * 86400
        for off in (0, 1, 86399):
            r = ObsTime.readUnixTime(e + off)
            if wf(r) and abs_ms(*fields(r)) != (e + off) * 1000:
                fails.append("readUnixTime(%d) = %s denotes another instant" % (e + off, fields(r)))
            elif not wf(r):
                fails.append("readUnixTime(%d) is not a well-formed date: %s" % (e + off, fields(r)))
            n_eval += 1
    elif case["kind"] == "order":
        a_ms = case["n"] * 86400000 + case["sod"] * 1000 + case["ms"]
        b_ms = a_ms + case["unit"]
        ta, tb = ObsTime.readUnixTime(a_ms / 1000), ObsTime.readUnixTime(b_ms / 1000)
        if wf(ta) and wf(tb):
            xa, xb = abs_ms(*fields(ta)), abs_ms(*fields(tb))
            for name, got, want in (("<", ta < tb, xa < xb), (">", ta > tb, xa > xb), ("<=", ta <= tb, xa <= xb),
                                    (">=", ta >= tb, xa >= xb), ("==", ta == tb, xa == xb), ("!=", ta != tb, xa != xb),
                                    ("rev<", tb < ta, xb < xa), ("rev>", tb > ta, xb > xa)):
                if bool(got) != want:
                    fails.append("%s on %s, %s gives %s" % (name, fields(ta), fields(tb), got))
        else:
            fails.append("ill-formed timestamp from readUnixTime(%r) or (%r)" % (a_ms / 1000, b_ms / 1000))
        n_eval = 8
    elif case["kind"] == "add":
        e = case["n"] * 86400 + case["sod"]
        t = ObsTime.readUnixTime(e)
        nb, how = case["nb"], case["how"]
        unit = dict(sec=1, min=60, hour=3600, day=86400)[how]
        nb = max(1, nb // unit)
        r = dict(sec=t.addSec, min=t.addMin, hour=t.addHour, day=t.addDay)[how](nb)
        if not wf(r) or abs_ms(*fields(r)) != (e + nb * unit) * 1000:
            fails.append("%s.add%s(%d) = %s" % (fields(t), how, nb, fields(r)))
        n_eval = 1
    return dict(failures=fails, evaluations=n_eval, nontrivial=n_eval)


def concretise(obligation):
    """Solver model -> cases: the model's elapsed seconds (readUnixTime) or date fields."""
    m = obligation.get("model") or {}
    out = []
    v = m.get("in_elapsed_seconds.1")
    if isinstance(v, list):
        e = v[0] / v[1]
        out.append(dict(kind="epoch", e=e))
    return out or None


_orig_check_case = check_case


def check_case(case):  # noqa: F811
    if case.get("kind") == "epoch":
        from tracklib.core.obs_time import ObsTime
        e = case["e"]
        r = ObsTime.readUnixTime(e)
        fails = []
        if not wf(r):
            fails.append("readUnixTime(%r) is not a well-formed date: %s" % (e, fields(r)))
        elif not (0 <= e * 1000 - abs_ms(*fields(r)) < 1.5):
            fails.append("readUnixTime(%r) = %s denotes another instant (%.3f ms away)" % (e, fields(r), e * 1000 - abs_ms(*fields(r))))
        return dict(failures=fails, evaluations=1, nontrivial=1)
    return _orig_check_case(case)
