"""C20 bounded stand-in: projection of a point on a segment / polyline returns the nearest point.

Oracle = brute force from the statement: the distance from the query to a polyline is the minimum
over its segments of the clamped-parameter point/segment distance; the returned point must lie on
the segment whose index is returned; the returned distance must equal both |query - returned point|
and that minimum.  Observed at proj_segment, proj_polyligne and mapOnTrack (coordinate and track
forms).  Covers what the real-arithmetic proof abstracts away: IEEE rounding in the foot of the
perpendicular and in the exact inclusion test.

Known finding (cannot be repaired, a unit test pins it): VERTICAL segments.  Every failure caused by
it carries the token 'vertical-segment'; the polylines that contain a vertical segment are confined
to a small number of batch cases (`vertical: true`) so the runner's 50-failure cap is never reached
by the known finding alone.  Failures are listed with the non-vertical ones first.

Second defect class met on the tree: HORIZONTAL segments whose ordinate is not a dyadic number
(0.1, 1.1, raw floats): -c/b differs from y1 by one ulp and the exact inclusion test rejects the foot.
Failures of that kind carry the token 'horizontal-segment'; polylines of that class are confined to
the batch cases with `horizontal_inexact: true` (also a bounded number)."""
import math
import random

ID = "C20"
BOUND = {
    "quick": "exhaustive: all 240 non-degenerate segments with integer end points in [0,3]^2 x all 169 query points of the "
             "half-integer grid [-1,5]^2 (step 0.5); all 3-vertex polylines on {0,1,2}^2 (incl. zero-length segments, "
             ">= 1 non-degenerate) x 49 half-integer queries; random: 5000 polylines of 2..8 vertices x 26 queries (beside, "
             "beyond the ends, on, at a vertex, far 1e3..1e6, random) -- dyadic 1/4-grid coordinates with oblique/horizontal/"
             "zero-length segments, decimal 0.1-grid / Lambert-like offset / raw float coordinates with oblique/zero-length "
             "segments; 10 batch cases of 10 polylines x 16 queries with horizontal segments on decimal / offset / float "
             "coordinates; 18 batch cases (4 + 6 exhaustive, 8 random of 10 polylines x 16 queries) holding every polyline "
             "that contains a vertical segment",
    "thorough": "same exhaustive part; 3-vertex polylines on {0,1,2,3}^2 sampled 1/3 x 81 queries; 300000 random polylines x "
                "26 queries; 16 batch cases of 60 polylines with inexact horizontal segments; 26 batch cases (4 + 6 exhaustive, "
                "16 random of 40 polylines x 16 queries) with vertical segments",
}
RULE = ("case = one polyline (or, vertical=true, a batch of polylines with a vertical segment) + a list of query points; "
        "one evaluation = one (polyline, query) pair checked through proj_polyligne, mapOnTrack(coord), mapOnTrack(track) "
        "and, for 2-vertex polylines, proj_segment; polylines always have >= 1 non-degenerate segment (DESIGN: requires); "
        "non-trivial = all; distinct by content")
CHUNK = 25
BUDGET_S = {"quick": 55, "thorough": 1100}


# ------------------------------------------------------------------ oracle (specification)
def seg_dist(ax, ay, bx, by, px, py):
    """Distance from P to the closed segment AB and the nearest point (closed form, clamped parameter)."""
    ux, uy = bx - ax, by - ay
    n2 = ux * ux + uy * uy
    if n2 == 0:
        return math.hypot(px - ax, py - ay), ax, ay
    t = ((px - ax) * ux + (py - ay) * uy) / n2
    t = 0.0 if t < 0 else (1.0 if t > 1 else t)
    qx, qy = ax + t * ux, ay + t * uy
    return math.hypot(px - qx, py - qy), qx, qy


def poly_dists(X, Y, px, py):
    return [seg_dist(X[i], Y[i], X[i + 1], Y[i + 1], px, py)[0] for i in range(len(X) - 1)]


def seg_kind(X, Y, i):
    if X[i] == X[i + 1] and Y[i] == Y[i + 1]:
        return "zero-length"
    if X[i] == X[i + 1]:
        return "vertical-segment"
    if Y[i] == Y[i + 1]:
        return "horizontal-segment"
    return "oblique-segment"


def has_vertical(X, Y):
    return any(seg_kind(X, Y, i) == "vertical-segment" for i in range(len(X) - 1))


def nondegenerate(X, Y):
    return any(seg_kind(X, Y, i) != "zero-length" for i in range(len(X) - 1))


# ------------------------------------------------------------------ case generation
def _vertex_seq(rnd, n, coord, vertical, horizontal="any"):
    """Vertices of a polyline; each successive segment is drawn oblique / horizontal / vertical / zero-length.
    vertical: True = at least one vertical segment, False = none.  horizontal: 'any' | 'require' | 'forbid'."""
    while True:
        X, Y = [coord(rnd)], [coord(rnd)]
        for _ in range(n - 1):
            k = rnd.random()
            x, y = X[-1], Y[-1]
            if k < 0.45:                       # oblique
                nx, ny = coord(rnd), coord(rnd)
                if nx == x or ny == y:
                    nx, ny = coord(rnd), coord(rnd)
            elif k < 0.70:                     # horizontal (or oblique when not wanted)
                nx, ny = (coord(rnd), y) if horizontal != "forbid" else (coord(rnd), coord(rnd))
            elif k < 0.88:                     # vertical (or oblique when not wanted)
                nx, ny = (x, coord(rnd)) if vertical else (coord(rnd), coord(rnd))
            else:                              # zero-length
                nx, ny = x, y
            X.append(nx)
            Y.append(ny)
        if not nondegenerate(X, Y):
            continue
        if has_vertical(X, Y) != vertical:
            continue
        hh = any(seg_kind(X, Y, i) == "horizontal-segment" for i in range(len(X) - 1))
        if (horizontal == "require" and not hh) or (horizontal == "forbid" and hh):
            continue
        return X, Y


def _coord_fn(system):
    if system == "dyadic":
        return lambda r: r.randrange(-32, 33) / 4.0
    if system == "decimal":
        return lambda r: r.randrange(-200, 201) / 10.0
    if system == "offset":
        return lambda r: 650000.0 + r.randrange(0, 4001) / 10.0
    if system == "float":
        return lambda r: r.uniform(-100.0, 100.0)
    raise ValueError(system)


def _queries(rnd, X, Y, system, nq):
    """Query points of every class of the quantifier: beside a segment, beyond its ends, on it, at a vertex, far, random."""
    Q = []
    n = len(X)
    span = max(max(X) - min(X), max(Y) - min(Y), 1.0)
    segs = [i for i in range(n - 1) if seg_kind(X, Y, i) != "zero-length"]
    for k in range(nq):
        i = segs[rnd.randrange(len(segs))]
        ax, ay, bx, by = X[i], Y[i], X[i + 1], Y[i + 1]
        ux, uy = bx - ax, by - ay
        L = math.hypot(ux, uy)
        cls = k % 8
        if cls == 0:        # beside: foot strictly inside, offset along the normal
            t = rnd.randrange(1, 8) / 8.0
            h = rnd.choice([-1, 1]) * rnd.choice([0.25, 0.5, 1.0, 2.0, 5.0]) * (span / 8.0)
            Q.append([ax + t * ux - h * uy / L, ay + t * uy + h * ux / L])
        elif cls == 1:      # beyond an end
            t = rnd.choice([-1.5, -0.5, -0.125, 1.125, 1.5, 2.5])
            h = rnd.choice([-1, 0, 1]) * rnd.choice([0.25, 1.0, 3.0]) * (span / 8.0)
            Q.append([ax + t * ux - h * uy / L, ay + t * uy + h * ux / L])
        elif cls == 2:      # on the segment (exact on dyadic grids, to rounding otherwise)
            t = rnd.randrange(0, 9) / 8.0
            Q.append([ax + t * ux, ay + t * uy])
        elif cls == 3:      # at a vertex
            j = rnd.randrange(n)
            Q.append([X[j], Y[j]])
        elif cls == 4:      # far away
            r = rnd.choice([1e3, 1e4, 1e5, 1e6])
            a = rnd.uniform(0, 2 * math.pi)
            Q.append([ax + r * math.cos(a), ay + r * math.sin(a)])
        elif cls == 5:      # same abscissa / ordinate as a vertex (axis-aligned corner situations)
            j = rnd.randrange(n)
            if rnd.random() < 0.5:
                Q.append([X[j], Y[j] + rnd.choice([-1, 1]) * rnd.randrange(1, 9) * span / 8.0])
            else:
                Q.append([X[j] + rnd.choice([-1, 1]) * rnd.randrange(1, 9) * span / 8.0, Y[j]])
        else:               # anywhere around the polyline
            Q.append([min(X) - 0.3 * span + rnd.random() * (max(X) - min(X) + 0.6 * span),
                      min(Y) - 0.3 * span + rnd.random() * (max(Y) - min(Y) + 0.6 * span)])
    if system == "dyadic":  # keep the arithmetic exact where it can be
        Q = [[round(x * 64) / 64.0, round(y * 64) / 64.0] if abs(x) < 1e3 and abs(y) < 1e3 else [x, y] for x, y in Q]
    return Q


def cases(tier, seed):
    rnd = random.Random(seed)
    # -- exhaustive 1: every segment with integer end points in [0,3]^2, every half-integer query in [-1,5]^2
    grid_q = [[a / 2.0, b / 2.0] for a in range(-2, 11) for b in range(-2, 11)]
    vert_batches = {}
    for x1 in range(4):
        for y1 in range(4):
            for x2 in range(4):
                for y2 in range(4):
                    if (x1, y1) == (x2, y2):
                        continue
                    P = dict(X=[float(x1), float(x2)], Y=[float(y1), float(y2)])
                    if x1 == x2:
                        vert_batches.setdefault(x1, []).append(P)
                    else:
                        yield dict(kind="exh-seg", coords="integer", vertical=False, horizontal_inexact=False, polylines=[P], Q=grid_q)
    for x1 in sorted(vert_batches):
        yield dict(kind="exh-seg", coords="integer", vertical=True, horizontal_inexact=False, polylines=vert_batches[x1], Q=grid_q)
    # -- exhaustive 2: 3-vertex polylines on a small integer grid (zero-length segments included)
    g = 3 if tier == "quick" else 4
    pts = [(a, b) for a in range(g) for b in range(g)]
    small_q = [[a / 2.0, b / 2.0] for a in range(-1, 2 * g) for b in range(-1, 2 * g)]
    vb = []
    k = 0
    for p0 in pts:
        for p1 in pts:
            for p2 in pts:
                X = [float(p0[0]), float(p1[0]), float(p2[0])]
                Y = [float(p0[1]), float(p1[1]), float(p2[1])]
                if not nondegenerate(X, Y):
                    continue
                k += 1
                if tier == "thorough" and k % 3 != 0:
                    continue
                if has_vertical(X, Y):
                    vb.append(dict(X=X, Y=Y))
                else:
                    yield dict(kind="exh-3", coords="integer", vertical=False, horizontal_inexact=False, polylines=[dict(X=X, Y=Y)], Q=small_q)
    nb = 6  # the vertical 3-vertex polylines go into 6 batch cases
    for b in range(nb):
        part = vb[b::nb]
        if part:
            yield dict(kind="exh-3", coords="integer", vertical=True, horizontal_inexact=False, polylines=part, Q=small_q)
    systems = ["dyadic", "dyadic", "decimal", "decimal", "offset", "float"]
    inexact = ["decimal", "offset", "float", "decimal"]
    # -- random polylines with >= 1 vertical segment: a bounded number of batch cases (known finding)
    nvb, per = (8, 10) if tier == "quick" else (16, 40)
    for c in range(nvb):
        system = systems[c % len(systems)]
        P = []
        for m in range(per):
            X, Y = _vertex_seq(rnd, 2 + (c + m) % 7, _coord_fn(system), vertical=True,
                               horizontal="any" if system == "dyadic" else "forbid")
            P.append(dict(X=X, Y=Y, Q=_queries(rnd, X, Y, system, 16)))
        yield dict(kind="rand", coords=system, vertical=True, horizontal_inexact=False, polylines=P, Q=[])
    # -- random polylines with >= 1 horizontal segment whose ordinate is not a dyadic number (decimal / raw float
    #    coordinates): the class in which rounding decides the inclusion test; also a bounded number of batch cases
    nhb, per = (10, 10) if tier == "quick" else (16, 60)
    for c in range(nhb):
        system = inexact[c % len(inexact)]
        P = []
        for m in range(per):
            X, Y = _vertex_seq(rnd, 2 + (c + m) % 7, _coord_fn(system), vertical=False, horizontal="require")
            P.append(dict(X=X, Y=Y, Q=_queries(rnd, X, Y, system, 16)))
        yield dict(kind="rand", coords=system, vertical=False, horizontal_inexact=True, polylines=P, Q=[])
    # -- random polylines, one per case: dyadic coordinates with oblique / horizontal / zero-length segments,
    #    inexact coordinates with oblique / zero-length segments
    nrand = 5000 if tier == "quick" else 300000
    for c in range(nrand):
        system = systems[c % len(systems)]
        n = 2 + (c // len(systems)) % 7
        X, Y = _vertex_seq(rnd, n, _coord_fn(system), vertical=False, horizontal="any" if system == "dyadic" else "forbid")
        yield dict(kind="rand", coords=system, vertical=False, horizontal_inexact=False, polylines=[dict(X=X, Y=Y)],
                   Q=_queries(rnd, X, Y, system, 26))


# ------------------------------------------------------------------ contract
def _tol(X, Y, px, py):
    scale = max(1.0, max(abs(v) for v in X), max(abs(v) for v in Y), abs(px), abs(py))
    return 1e-9 * scale


def _fmt(X, Y):
    return "[" + ",".join("(%r,%r)" % (x, y) for x, y in zip(X, Y)) + "]"


def _judge(what, X, Y, px, py, d, xp, yp, idx, fails):
    """The contract of one projection result (d, (xp,yp), idx) against the brute-force oracle."""
    tol = _tol(X, Y, px, py)
    D = poly_dists(X, Y, px, py)
    dmin = min(D)
    arg = [i for i in range(len(D)) if D[i] <= dmin + tol and seg_kind(X, Y, i) != "zero-length"]
    kinds = sorted(set(seg_kind(X, Y, i) for i in arg))
    label = "a " + kinds[0] if len(kinds) == 1 else "several kinds tie"
    head = "%s(%s, query (%r,%r))" % (what, _fmt(X, Y), px, py)
    vals = [d, xp, yp]
    if any(not isinstance(v, (int, float)) or v != v or abs(v) == float("inf") for v in vals):
        fails.append("%s returned non-finite %r" % (head, vals))
        return
    if idx is not None:
        if not (isinstance(idx, int) or float(idx).is_integer()) or not (0 <= idx <= len(X) - 2):
            fails.append("%s returned segment index %r outside 0..%d" % (head, idx, len(X) - 2))
            return
        idx = int(idx)
        on = seg_dist(X[idx], Y[idx], X[idx + 1], Y[idx + 1], xp, yp)[0]
        if on > tol:
            fails.append("%s returned point (%r,%r) which is %.3g away from the returned segment %d" % (head, xp, yp, on, idx))
    else:
        on = min(poly_dists(X, Y, xp, yp))
        if on > tol:
            fails.append("%s returned point (%r,%r) which is %.3g away from the segment" % (head, xp, yp, on))
    dd = math.hypot(px - xp, py - yp)
    if abs(dd - d) > tol:
        fails.append("%s returned distance %r but its point (%r,%r) is at %r of the query" % (head, d, xp, yp, dd))
    if abs(d - dmin) > tol:
        fails.append("%s returned distance %r and point (%r,%r) but the minimum distance to the polyline is %r (nearest segment is %s)"
                     % (head, d, xp, yp, dmin, label))


def _exc(what, X, Y, px, py, e, fails):
    head = "%s(%s, query (%r,%r))" % (what, _fmt(X, Y), px, py)
    tag = ""
    if isinstance(e, ZeroDivisionError) and any(
            seg_kind(X, Y, i) == "vertical-segment" and X[i] == px for i in range(len(X) - 1)):
        tag = " (query has the abscissa of a vertical-segment)"
    fails.append("%s raised %s: %s%s" % (head, type(e).__name__, e, tag))


def _check_polyline(X, Y, Q, fails):
    from tracklib.util.geometry import proj_segment, proj_polyligne
    from tracklib.algo.mapping import mapOnTrack
    from tracklib.core import ENUCoords, Obs, ObsTime
    from tracklib.core.track import Track
    track = Track([Obs(ENUCoords(x, y, 0), ObsTime()) for x, y in zip(X, Y)])
    n_eval = 0
    known_crash = False
    for px, py in Q:
        n_eval += 1
        try:
            d, xp, yp, idx = proj_polyligne(list(X), list(Y), px, py)
            _judge("proj_polyligne", X, Y, px, py, d, xp, yp, idx, fails)
        except Exception as e:
            _exc("proj_polyligne", X, Y, px, py, e, fails)
            known_crash = known_crash or "vertical-segment" in fails[-1]
        if len(X) == 2:
            try:
                d, xp, yp = proj_segment([X[0], Y[0], X[1], Y[1]], px, py)
                _judge("proj_segment", X, Y, px, py, d, xp, yp, None, fails)
            except Exception as e:
                _exc("proj_segment", X, Y, px, py, e, fails)
        try:
            c, d, idx = mapOnTrack(ENUCoords(px, py, 0), track)
            _judge("mapOnTrack", X, Y, px, py, d, c.getX(), c.getY(), idx, fails)
        except Exception as e:
            _exc("mapOnTrack", X, Y, px, py, e, fails)
    # track form: one output observation per query, features 'dist' and 'edge'
    qt = Track([Obs(ENUCoords(px, py, 0), ObsTime()) for px, py in Q])
    try:
        out = mapOnTrack(qt, track)
        if len(out) != len(Q):
            fails.append("mapOnTrack(track of %d points, %s) returned %d points" % (len(Q), _fmt(X, Y), len(out)))
        else:
            for k, (px, py) in enumerate(Q):
                _judge("mapOnTrack[track form, point %d]" % k, X, Y, px, py, out["dist", k],
                       out[k].position.getX(), out[k].position.getY(), out["edge", k], fails)
    except Exception as e:
        if not (known_crash and isinstance(e, ZeroDivisionError)):
            fails.append("mapOnTrack(track of %d points, %s) raised %s: %s" % (len(Q), _fmt(X, Y), type(e).__name__, e))
    return n_eval


def _check_droite(case):
    """Direct run-time contract of projection_droite (replay of solver counter-models): for a non-vertical line
    the result is the foot of the perpendicular."""
    from tracklib.util.geometry import projection_droite
    a, b, c = case["param"]
    x, y = case["xy"]
    if b == 0:
        return dict(failures=[], evaluations=0, nontrivial=0)
    try:
        xp, yp = projection_droite((a, b, c), x, y)
    except Exception as e:
        return dict(failures=["projection_droite((%r,%r,%r),%r,%r) raised %s: %s" % (a, b, c, x, y, type(e).__name__, e)],
                    evaluations=1, nontrivial=1)
    scale = max(1.0, abs(a), abs(b), abs(c), abs(x), abs(y)) ** 2
    fails = []
    if abs(a * xp + b * yp + c) > 1e-9 * scale:
        fails.append("projection_droite((%r,%r,%r),%r,%r) = (%r,%r) is not on the line" % (a, b, c, x, y, xp, yp))
    elif abs((x - xp) * (-b) + (y - yp) * a) > 1e-9 * scale:
        fails.append("projection_droite((%r,%r,%r),%r,%r) = (%r,%r) is not the foot of the perpendicular" % (a, b, c, x, y, xp, yp))
    return dict(failures=fails, evaluations=1, nontrivial=1)


def check_case(case):
    if case.get("kind") == "droite":
        return _check_droite(case)
    fails = []
    n_eval = 0
    for P in case["polylines"]:
        Q = P.get("Q") or case["Q"]
        sub = []
        n_eval += _check_polyline(P["X"], P["Y"], Q, sub)
        # de-duplicate the same defect seen through the wrappers: keep the first two reports per polyline and class
        seen = {}
        for f in sub:
            key = "vertical-segment" in f
            seen[key] = seen.get(key, 0) + 1
            if seen[key] <= 2:
                fails.append(f)
    fails.sort(key=lambda f: "vertical-segment" in f)   # anything that is not the known finding comes first
    return dict(failures=fails[:12], evaluations=n_eval, nontrivial=n_eval)


# ------------------------------------------------------------------ replay of solver counter-models
def concretise(obligation):
    """Counter-model of a C20 obligation -> a one-polyline case of this harness."""
    from checks import modelutil as mu
    m = obligation.get("model") or {}
    fn = obligation.get("function", "")
    x, y = mu.scalar(m, "in_x", 0.0), mu.scalar(m, "in_y", 0.0)
    if fn.endswith("proj_polyligne"):
        n = mu.scalar(m, "in_Xp.0", 2)
        n = int(n) if isinstance(n, (int, float)) and 2 <= n <= 10 else 3
        X, Y = mu.array(m, "in_Xp.1", n), mu.array(m, "in_Yp.1", n)
    elif fn.endswith("projection_droite"):
        a, b, c = mu.float_list(m, "in_param", 3)
        return dict(kind="droite", param=[a, b, c], xy=[x, y])
    else:
        s = mu.float_list(m, "in_segment", 4)
        X, Y = [s[0], s[2]], [s[1], s[3]]
    if not nondegenerate(X, Y):
        return None
    return dict(kind="model", coords="model", vertical=has_vertical(X, Y), horizontal_inexact=False,
                polylines=[dict(X=X, Y=Y)], Q=[[x, y]])
