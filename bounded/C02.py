"""C02 bounded stand-in: algebraic feature expressions evaluate to ordinary arithmetic on the features.

Oracle = eval_tree(): the expression TREE is evaluated with plain Python arithmetic under the documented
operator definitions (pointwise + - * / ^, < > as 0/1, feature-by-feature division by zero = NaN as Divider
documents, D = backward difference with NaN first, I = running sum skipping the first value, D2 = second
difference with NaN at both ends, >> / << = circular shifts, aggregates over the non-NaN values broadcast to
every observation).  The tree is printed to text with the usual precedence / left-to-right associativity /
parentheses and handed to the REAL evaluator (Track.operate(text), Track[text]); for the simple trees the
corresponding Operator object is also applied directly.

Inputs on which ordinary arithmetic gives no value are outside the property and are not run:
  division of / by a literal-only sub-expression equal to 0, literal / feature containing 0, 0 ** negative,
  negative ** non-integer, overflow, SQRT of a negative, LOG of a non-positive or NaN, SIGN of 0 or NaN, mean-type
  aggregates / MIN / MAX / ARG* / MAD of an all-NaN vector, MEDIAN of a vector containing NaN, functions applied to a
  literal-only argument, |intermediate value| > 1e6, and the discontinuity guards listed at `Undefined`."""
import math
import random

ID = "C02"
BOUND = {
    "quick": "trees over atoms {a,b,x,idx,2,0.5}, operators + - * / ^ < >, unary minus, 24 functions (D I D2 ABS SQRT DIODE SIGN "
             "EXP LOG COS SIN TAN SUM AVG VAR STD MSE RMSE MAD MIN MAX MEDIAN ARGMIN ARGMAX) and 4 >>/<< atoms: all 364 trees of "
             "height <=2 on all 8 vector sets (n=1,2,3,5; zeros, negatives, equal values, NaN) x {no '=', new name, existing "
             "name, x, y, z, += -= *= /= ^=} plus the direct Operator object; every height-3 tree with an atom on one side of "
             "the root, every unary root over a height-2 tree, 1/12 of the remaining height-3 trees (2 vector sets without '=' "
             "and 1 with, each); 34 hand-written spellings; 5000 random trees of height 4..6 over 7 names / 10 literals x 3 "
             "random vector sets; two 20/10-evaluation items for the two known defects",
    "thorough": "as quick, but EVERY height-3 tree (binary root over two height<=2 trees, ~9*10^5 trees), and 400000 random "
                "trees of height 4..6 x 3 random vector sets",
}
RULE = ("case = work item (set of trees x vector sets x assignment mode); a (tree, vectors) pair is non-trivial when ordinary "
        "arithmetic defines a value at every observation (otherwise it is not run); distinct by (text, vectors, mode)")
CHUNK = 3
NAN = float("nan")
BIG = 1e6
TINY = 1e-6

BINOPS = ["+", "-", "*", "/", "^", "<", ">"]
PREC = {"<": 1, ">": 1, "+": 2, "-": 2, "*": 3, "/": 3, "^": 4}
POINT_FN = ["ABS", "SQRT", "DIODE", "SIGN", "EXP", "LOG", "COS", "SIN", "TAN"]
VEC_FN = ["D", "I", "D2"]
AGG_FN = ["SUM", "AVG", "VAR", "STD", "MSE", "RMSE", "MAD", "MIN", "MAX", "MEDIAN", "ARGMIN", "ARGMAX"]
ALL_FN = VEC_FN + POINT_FN + AGG_FN
INEXACT_FN = {"SQRT", "EXP", "LOG", "COS", "SIN", "TAN", "AVG", "VAR", "STD", "MSE", "RMSE"}

# documented Operator attributes corresponding to each expression form
OBJ2 = {"+": "ADDER", "-": "SUBSTRACTER", "*": "MULTIPLIER", "/": "DIVIDER", "^": "POWER", ">": "ABOVE", "<": "BELOW"}
OBJS = {"+": "SCALAR_ADDER", "-": "SCALAR_SUBSTRACTER", "*": "SCALAR_MULTIPLIER", "/": "SCALAR_DIVIDER",
        "^": "SCALAR_POWER", ">": "SCALAR_ABOVE", "<": "SCALAR_BELOW"}
OBJSR = {"+": "SCALAR_ADDER", "-": "SCALAR_REV_SUBSTRACTER", "*": "SCALAR_MULTIPLIER", "/": "SCALAR_REV_DIVIDER",
         "^": "SCALAR_REV_POWER", ">": "SCALAR_REV_ABOVE", "<": "SCALAR_REV_BELOW"}
OBJF = {"D": "DIFFERENTIATOR", "I": "INTEGRATOR", "D2": "SECOND_ORDER_FINITE_DIFF", "LOG": "LOG", "ABS": "RECTIFIER",
        "SQRT": "SQRT", "DIODE": "DIODE", "SIGN": "SIGN", "EXP": "EXP", "COS": "COS", "SIN": "SIN", "TAN": "TAN",
        "SUM": "SUM", "AVG": "AVERAGER", "VAR": "VARIANCE", "STD": "STDDEV", "MSE": "MSE", "RMSE": "RMSE", "MAD": "MAD",
        "MIN": "MIN", "MAX": "MAX", "MEDIAN": "MEDIAN", "ARGMIN": "ARGMIN", "ARGMAX": "ARGMAX"}
OBJSH = {">>": "SHIFT_CIRCULAR", "<<": "SHIFT_CIRCULAR_REV"}

# --------------------------------------------------------------------------------------------------
#  Vector sets ("nan" decoded in vec())
# --------------------------------------------------------------------------------------------------
VECSETS = [
    dict(a=[2.0], b=[0.5], x=[-1.0], y=[3.0], z=[0.0]),
    dict(a=[0.0], b=["nan"], x=[2.0], y=[-0.5], z=[1.0]),
    dict(a=[1.5, -2.0], b=[-2.0, -2.0], x=[0.0, 3.0], y=[-1.0, -1.0], z=[0.5, 2.0]),
    dict(a=["nan", 1.0], b=[0.0, 0.0], x=[1.0, 1.0], y=[2.0, -3.0], z=[0.0, -1.0]),
    dict(a=[1.0, -2.0, 0.0, 3.0, 0.5], b=[2.0, 2.0, -1.0, 0.5, "nan"], x=[0.0, 1.0, -1.0, 2.0, 2.0],
         y=[3.0, 3.0, 0.5, -4.0, 1.0], z=[0.0, 0.0, 1.0, 1.0, -2.0]),
    dict(a=[1.0, 2.0, 4.0, 0.5, 3.0], b=[2.0, 0.5, 1.0, 1.0, 4.0], x=[3.0, 1.0, 2.0, 2.0, 0.5],
         y=[1.0, 4.0, 0.25, 2.0, 2.0], z=[0.5, 0.5, 3.0, 1.0, 2.0]),
    dict(a=[-1.0, "nan", 2.0, 2.0, -0.5], b=[0.0, -3.0, 0.0, 1.5, 1.5], x=[-2.0, -2.0, 0.0, 1.0, 4.0],
         y=[0.0, 1.0, 1.0, -1.0, "nan"], z=[1.0, 2.0, 3.0, 4.0, 5.0]),
    dict(a=[3.0, 3.0, 3.0], b=[1.0, 0.0, -1.0], x=[2.0, 4.0, 1.0], y=[0.5, 0.5, 0.25], z=[-1.0, 0.0, 1.0]),
]
POOL = [-3.0, -2.0, -1.5, -1.0, -0.5, 0.0, 0.0, 0.5, 1.0, 1.0, 1.5, 2.0, 2.0, 3.0, 4.0, "nan"]
SAFE_POOL = [0.5, 1.0, 1.0, 1.5, 2.0, 2.0, 3.0, 4.0, 0.25]


def vec(vs):
    n = len(vs["a"])
    out = {k: [NAN if e == "nan" else e for e in v] for k, v in vs.items()}
    out["t"] = [float(i + 1) for i in range(n)]
    out["idx"] = list(range(n))
    return out


# --------------------------------------------------------------------------------------------------
#  Oracle: ordinary arithmetic on the tree
# --------------------------------------------------------------------------------------------------
class Undefined(Exception):
    """Ordinary arithmetic assigns no value, or the value sits on a discontinuity that a one-ulp difference in an
    inexact intermediate (division, roots, means ...) could cross: comparison / ARGMIN / SIGN / zero test on inexact
    operands closer than 1e-6, denominator of magnitude < 1e-6, inexact denominator ~0 (NaN-or-huge), negative base
    with an inexact exponent (real-or-complex), 0 ** inexact ~0."""


class Val:
    __slots__ = ("v", "scalar", "inexact")

    def __init__(self, v, scalar, inexact):
        self.v, self.scalar, self.inexact = v, scalar, inexact


def _chk(r):
    if isinstance(r, complex):
        raise Undefined("complex")
    if r == r and abs(r) > BIG:
        raise Undefined("magnitude")
    return r


def _bin(op, p, q, lsc, rsc, linex, rinex):
    inex = linex or rinex
    if op == "+":
        return _chk(p + q)
    if op == "-":
        return _chk(p - q)
    if op == "*":
        return _chk(p * q)
    if op == "/":
        if rinex and q == q and abs(q) < TINY:
            raise Undefined("inexact denominator ~0 (zero test)")
        if q == 0:
            if rsc or lsc:
                raise Undefined("division by a literal zero / of a literal by a zero feature value")
            return NAN  # feature-by-feature: documented by Divider
        if q == q and abs(q) < TINY:
            raise Undefined("tiny denominator")
        return _chk(p / q)
    if op == "^":
        if linex and p == p and abs(p) < TINY and (rinex or q != q or q != int(q)):
            raise Undefined("root of an inexact ~0")
        if rinex and p == p and (p < 0 or (abs(p) < TINY and q == q and abs(q) < TINY)):
            raise Undefined("negative or zero base with an inexact exponent")
        try:
            return _chk(p ** q)
        except (ZeroDivisionError, OverflowError, ValueError):
            raise Undefined("power")
    if op in "<>":
        if inex and p == p and q == q and abs(p - q) <= TINY * max(1.0, abs(p), abs(q)):
            raise Undefined("inexact tie")
        return 1.0 if (p < q if op == "<" else p > q) else 0.0
    raise ValueError(op)


def _nn(v):
    return [e for e in v if e == e]


def _median(v):
    s = sorted(v)
    k = len(s)
    return s[k // 2] if k % 2 else 0.5 * (s[k // 2 - 1] + s[k // 2])


def _agg(fn, v, inex):
    nn = _nn(v)
    if fn == "SUM":
        return _chk(sum(nn))
    if fn == "MEDIAN":
        if len(nn) != len(v):
            raise Undefined("median of NaN")
        return _median(v)
    if not nn:
        raise Undefined("aggregate of nothing")
    if fn == "AVG":
        return sum(nn) / len(nn)
    if fn in ("VAR", "STD"):
        m = sum(nn) / len(nn)
        var = sum((e - m) ** 2 for e in nn) / len(nn)
        return var if fn == "VAR" else math.sqrt(var)
    if fn in ("MSE", "RMSE"):
        mse = _chk(sum(e ** 2 for e in nn) / len(nn))
        return mse if fn == "MSE" else math.sqrt(mse)
    if fn == "MAD":
        return _median([abs(e) for e in nn])
    if fn == "MIN":
        return min(nn)
    if fn == "MAX":
        return max(nn)
    if fn in ("ARGMIN", "ARGMAX"):
        best = min(nn) if fn == "ARGMIN" else max(nn)
        if inex and any(e != best and abs(e - best) <= TINY * max(1.0, abs(best)) for e in nn):
            raise Undefined("inexact tie")
        return v.index(best)
    raise ValueError(fn)


def _point(fn, p, inex):
    if fn == "ABS":
        return abs(p)
    if fn == "DIODE":
        return p * (1 if p > 0 else 0)
    if fn in ("SIGN", "LOG", "SQRT") and inex and p == p and abs(p) < TINY:
        raise Undefined("inexact ~0")
    if fn == "SIGN":
        if p != p or p == 0:
            raise Undefined("sign of 0 / NaN")
        return p / abs(p)
    if fn == "LOG":
        if not p > 0:
            raise Undefined("log domain")
        return math.log(p)
    if fn == "SQRT":
        if p < 0:
            raise Undefined("sqrt domain")
        return math.sqrt(p)
    try:
        return _chk({"EXP": math.exp, "COS": math.cos, "SIN": math.sin, "TAN": math.tan}[fn](p))
    except (OverflowError, ValueError):
        raise Undefined(fn)


def literal_only(t):
    if t[0] == "l":
        return True
    if t[0] == "b":
        return literal_only(t[2]) and literal_only(t[3])
    if t[0] == "u":
        return literal_only(t[1])
    return False


def eval_tree(t, V):
    n = len(V["a"])
    k = t[0]
    if k == "n":
        return Val(list(V[t[1]]), False, False)
    if k == "l":
        return Val(float(t[1]), True, False)
    if k == "s":
        src, s = V[t[2]], int(t[3])
        return Val([src[(i - s) % n] if t[1] == ">>" else src[(i + s) % n] for i in range(n)], False, False)
    if k == "u":
        e = eval_tree(t[1], V)
        return Val(_chk(0 - e.v), True, e.inexact) if e.scalar else Val([_chk(0 - p) for p in e.v], False, e.inexact)
    if k == "b":
        L, R = eval_tree(t[2], V), eval_tree(t[3], V)
        inex = L.inexact or R.inexact
        if L.scalar and R.scalar:
            r = Val(_bin(t[1], L.v, R.v, True, True, L.inexact, R.inexact), True, inex)
            if t[1] in "<>":
                r.v = float(r.v)
        else:
            lv = [L.v] * n if L.scalar else L.v
            rv = [R.v] * n if R.scalar else R.v
            r = Val([_bin(t[1], p, q, L.scalar, R.scalar, L.inexact, R.inexact) for p, q in zip(lv, rv)], False, inex)
        if t[1] == "/" or (t[1] == "^" and not (R.scalar and R.v == int(R.v) and R.v >= 0)):
            r.inexact = True
        return r
    if k == "f":
        fn = t[1]
        e = eval_tree(t[2], V)
        if e.scalar:
            raise Undefined("function of a literal-only argument")
        v, inex = e.v, e.inexact or fn in INEXACT_FN
        if fn == "D":
            return Val([NAN] + [_chk(v[i] - v[i - 1]) for i in range(1, n)], False, inex)
        if fn == "I":
            out = [0] * n
            for i in range(1, n):
                out[i] = _chk(out[i - 1] + v[i])
            return Val(out, False, inex)
        if fn == "D2":
            return Val([NAN if i in (0, n - 1) else _chk(v[i + 1] - 2 * v[i] + v[i - 1]) for i in range(n)], False, inex)
        if fn in POINT_FN:
            return Val([_point(fn, p, e.inexact) for p in v], False, inex)
        return Val([_agg(fn, v, e.inexact)] * n, False, inex)
    raise ValueError(t)


def magnitude(t, V):
    """max |intermediate value| of the evaluation (scales the comparison tolerance of inexact trees)."""
    m = 1.0

    def rec(t):
        nonlocal m
        r = eval_tree(t, V)
        for e in ([r.v] if r.scalar else r.v):
            if e == e and abs(e) > m:
                m = abs(e)
        for c in t[1:]:
            if isinstance(c, list):
                rec(c)
    rec(t)
    return m


# --------------------------------------------------------------------------------------------------
#  Printer: usual precedence, left-to-right associativity, parentheses
# --------------------------------------------------------------------------------------------------
def prec(t):
    if t[0] == "b":
        return PREC[t[1]]
    if t[0] == "u":
        return 2
    return 5


def to_text(t, rnd=None, lead=True):
    """`lead`: the text starts the expression or directly follows '=' or '(' (where a unary sign is accepted)."""
    def coin(p):
        return rnd is not None and rnd.random() < p

    def wrap(s):
        return "(" + s + ")"
    k = t[0]
    if k == "n" or k == "l":
        s = t[1]
        return wrap(s) if coin(0.05) else s
    if k == "s":
        return wrap(t[2] + t[1] + str(t[3]))
    if k == "f":
        inner = to_text(t[2], rnd, True)
        return t[1] + ("(" + inner + ")" if coin(0.3) else "{" + inner + "}")
    if k == "u":
        e = t[1]
        inner = to_text(e, rnd, False)
        if prec(e) <= 2:
            inner = wrap(to_text(e, rnd, True))
        return "-" + inner if lead else wrap("-" + inner)
    op, L, R = t[1], t[2], t[3]
    p = PREC[op]
    if prec(L) < p or (L[0] == "u" and not lead):
        ls = wrap(to_text(L, rnd, True))
    else:
        ls = to_text(L, rnd, lead)
        if coin(0.08):
            ls = wrap(to_text(L, rnd, True))
    sym = "**" if (op == "^" and coin(0.3)) else op
    if R[0] == "u" and op in "+-" and prec(R[1]) > 2 and coin(0.5):
        rs = "-" + to_text(R[1], rnd, False)  # a--b / a+-b, rewritten by the evaluator to a+b / a-b
    elif prec(R) <= p:
        rs = wrap(to_text(R, rnd, True))
    else:
        rs = to_text(R, rnd, False)
        if coin(0.08):
            rs = wrap(to_text(R, rnd, True))
    sp = " " if coin(0.2) else ""
    return ls + sp + sym + sp + rs


# --------------------------------------------------------------------------------------------------
#  Tree spaces
# --------------------------------------------------------------------------------------------------
ATOMS = [["n", "a"], ["n", "b"], ["n", "x"], ["n", "idx"], ["l", "2"], ["l", "0.5"]]
SHIFTS = [["s", ">>", "a", 1], ["s", "<<", "a", 1], ["s", ">>", "b", 2], ["s", "<<", "x", 1]]
_T2 = None


def T2():
    """Every tree of height <= 2 (atoms first)."""
    global _T2
    if _T2 is None:
        out = list(ATOMS)
        for op in BINOPS:
            for L in ATOMS:
                for R in ATOMS:
                    out.append(["b", op, L, R])
        for A in ATOMS:
            out.append(["u", A])
        for fn in ALL_FN:
            for A in ATOMS:
                if A[0] == "n":
                    out.append(["f", fn, A])
        out += SHIFTS
        _T2 = out
    return _T2


R_NAMES = ["a", "b", "x", "y", "z", "t", "idx"]
R_LITS = ["0", "1", "2", "3", "4", "0.5", "0.25", "1.5", "2.0", "10"]


def rand_tree(rnd, h):
    if h <= 1 or rnd.random() < 0.12:
        r = rnd.random()
        if r < 0.62:
            return ["n", rnd.choice(R_NAMES)]
        if r < 0.94:
            return ["l", rnd.choice(R_LITS)]
        return ["s", rnd.choice([">>", "<<"]), rnd.choice(R_NAMES[:5]), rnd.choice([1, 1, 2])]
    r = rnd.random()
    if r < 0.70:
        op = rnd.choice(["+", "-", "*", "/", "+", "-", "*", "^", "<", ">"])
        return ["b", op, rand_tree(rnd, h - 1), rand_tree(rnd, h - 1)]
    if r < 0.80:
        return ["u", rand_tree(rnd, h - 1)]
    for _ in range(20):
        e = rand_tree(rnd, h - 1)
        if not literal_only(e):
            return ["f", rnd.choice(ALL_FN + ["D", "I", "ABS", "SUM"]), e]
    return ["n", "a"]


def height(t):
    return 1 + max([height(c) for c in t[1:] if isinstance(c, list)] + [0])


def rand_vecs(rnd):
    n = rnd.choice([1, 2, 3, 5, 5])
    pool = SAFE_POOL if rnd.random() < 0.45 else POOL
    return {k: [rnd.choice(pool) for _ in range(n)] for k in ("a", "b", "x", "y", "z")}


# --------------------------------------------------------------------------------------------------
#  Work items
# --------------------------------------------------------------------------------------------------
MODES_ALL = ["none", "new", "over", "x", "y", "z", "+=", "-=", "*=", "/=", "^="]


def cases(tier, seed):
    """Work items (trees are enumerated inside the worker, see units()):
       t2    : trees T2()[lo:hi] x every vector set x every assignment mode, plus the direct Operator-object form
       bin   : root `op` with T2()[fixed] on side `side` and every tree of `other` ('T2' or 'deep' = T2 minus atoms, sampled 1/k)
       un    : unary root (minus or function) over every non-atom tree of T2
       rand  : `count` random trees of height 4..6 on random vectors
       lit   : literal-only right-hand side assigned to an existing feature / a coordinate
       cmp   : comparison whose right operand is parenthesised
       forms : hand-written spellings (a--b, **, F(x) / F{x}, blanks, redundant parentheses, chains) against their trees
       one   : a single (tree, vectors, mode) -- replay form"""
    rnd = random.Random(seed)
    quick = tier == "quick"
    n2 = len(T2())
    for lo in range(0, n2, 12):
        yield dict(kind="t2", lo=lo, hi=min(n2, lo + 12))
    yield dict(kind="lit")
    yield dict(kind="cmp")
    yield dict(kind="forms")
    for root in ["neg"] + ALL_FN:
        yield dict(kind="un", root=root, seed=rnd.randrange(1 << 30))
    na = len(ATOMS)
    for op in BINOPS:
        for side in ("L", "R"):
            for i in range(na):  # an atom on one side, any height-2 tree on the other
                yield dict(kind="bin", op=op, fixed=i, side=side, other="deep", k=1, seed=rnd.randrange(1 << 30))
        for i in range(na, n2):  # both sides of height 2
            yield dict(kind="bin", op=op, fixed=i, side="L", other="deep", k=12 if quick else 1, seed=rnd.randrange(1 << 30))
    total, per = (5000, 100) if quick else (400000, 250)
    for _ in range(total // per):
        yield dict(kind="rand", seed=rnd.randrange(1 << 30), count=per)


_PROBE = None


def known_defects():
    """Two defects found with this harness flood every work item while they are present in the tree under test
    (each is reported, tagged, by its own dedicated work item: 'lit' and 'cmp').  A two-expression probe decides once per
    process whether the generic items also exercise those forms: they do as soon as the probe passes."""
    global _PROBE
    if _PROBE is None:
        _PROBE = set()
        V = vec(VECSETS[2])
        for tag, text, name, want in (("literal-rhs-assign", "a=2", "a", [2.0, 2.0]),
                                      ("cmp-before-paren", "c=a<(b)", "c", [0.0, 0.0])):
            try:
                trk = build(V)
                trk.operate(text)
                if not same_list(trk.getAnalyticalFeature(name), want, 0.0):
                    _PROBE.add(tag)
            except BaseException:  # noqa: B902
                _PROBE.add(tag)
    return _PROBE


def tag_of(tree, mode, text):
    if literal_only(tree) and mode in ("over", "x", "y", "z"):
        return "literal-rhs-assign"
    sq = text.replace(" ", "")
    if "<(" in sq.replace("<<", "") or ">(" in sq.replace(">>", ""):
        return "cmp-before-paren"
    return None


def units(case):
    """(tree, vector-set dict, mode, style seed or None, direct) for every evaluation of a work item."""
    yield from _units(case)


def _units(case):
    kind = case["kind"]
    T = T2()
    if kind == "one":
        yield case["tree"], case["vec"], case["mode"], case.get("style"), case.get("direct", False)
    elif kind == "t2":
        for t in T[case["lo"]:case["hi"]]:
            for vs in VECSETS:
                for mode in MODES_ALL:
                    yield t, vs, mode, None, mode == "new"
                yield t, vs, "none", 12345, False
    elif kind == "lit":
        for t in (["l", "2"], ["b", "+", ["l", "2"], ["l", "0.5"]], ["u", ["l", "2"]], ["b", "<", ["l", "0.5"], ["l", "2"]]):
            for mode in ("over", "x", "z", "+="):
                yield t, VECSETS[2], mode, None, False
    elif kind == "forms":  # spellings the evaluator rewrites before parsing; `style` is the literal text here
        a, b, two = ["n", "a"], ["n", "b"], ["l", "2"]
        neg = lambda e: ["u", e]  # noqa: E731
        B = lambda o, p, q: ["b", o, p, q]  # noqa: E731
        for text, t in (("a--b", B("-", a, neg(b))), ("a+-b", B("+", a, neg(b))), ("a - - b * 2", B("-", a, neg(B("*", b, two)))),
                        ("a--b^2-a", B("-", B("-", a, neg(B("^", b, two))), a)), ("a**2", B("^", a, two)),
                        ("a ** b ** 2", B("^", B("^", a, b), two)), ("2**a*b", B("*", B("^", two, a), b)),
                        ("D(a)", ["f", "D", a]), ("I(a)+D{b}", B("+", ["f", "I", a], ["f", "D", b])),
                        ("SUM(a)*MAD(b)", B("*", ["f", "SUM", a], ["f", "MAD", b])), ("ARGMIN(a)-MIN{b}", B("-", ["f", "ARGMIN", a], ["f", "MIN", b])),
                        ("STD(a)+RMSE(b)+MSE(a)", B("+", B("+", ["f", "STD", a], ["f", "RMSE", b]), ["f", "MSE", a])),
                        ("  a +  b ", B("+", a, b)), ("((a))*(b)", B("*", a, b)), ("(((a+b)))", B("+", a, b)),
                        ("-a", neg(a)), ("-(a+b)", neg(B("+", a, b))), ("(-a)^2", B("^", neg(a), two)), ("-a^2", neg(B("^", a, two))),
                        ("2*(-a)", B("*", two, neg(a))), ("-a*b", neg(B("*", a, b))), ("-a-b", B("-", neg(a), b)),
                        ("-2", neg(two)), ("(-2)*a", B("*", neg(two), a)), ("ABS{-a}", ["f", "ABS", neg(a)]),
                        ("a-(-(-b))", B("-", a, neg(neg(b)))), ("a*2^2", B("*", a, B("^", two, two))),
                        ("a/b/2", B("/", B("/", a, b), two)), ("a-b-2", B("-", B("-", a, b), two)), ("2-a-b", B("-", B("-", two, a), b)),
                        ("2/a/b", B("/", B("/", two, a), b)), ("a^b^2", B("^", B("^", a, b), two)), ("a<b<2", B("<", B("<", a, b), two)),
                        ("a>b+2*a^2", B(">", a, B("+", b, B("*", two, B("^", a, two)))))):
            for vs in (VECSETS[5], VECSETS[4], VECSETS[2]):
                for mode in ("none", "new", "over", "x", "-="):
                    if not (literal_only(t) and mode in ("over", "x")):
                        yield t, vs, mode, text, False
    elif kind == "cmp":  # `style` is the literal text
        a, b, two = ["n", "a"], ["n", "b"], ["l", "2"]
        for text, t in (("a<(b+2)", ["b", "<", a, ["b", "+", b, two]]), ("a>(b*2)", ["b", ">", a, ["b", "*", b, two]]),
                        ("(a+2)>(b)", ["b", ">", ["b", "+", a, two], b]), ("a+2>(-b)", ["b", ">", ["b", "+", a, two], ["u", b]]),
                        ("2*(a<(b<a))", ["b", "*", two, ["b", "<", a, ["b", "<", b, a]]])):
            for mode in ("none", "new"):
                yield t, VECSETS[5], mode, text, False
    elif kind in ("un", "bin"):
        rnd = random.Random(case["seed"])
        deep = T[len(ATOMS):]
        if kind == "un":
            trees = (["u", e] if case["root"] == "neg" else ["f", case["root"], e] for e in deep
                     if case["root"] == "neg" or not literal_only(e))
        else:
            f = T[case["fixed"]]
            others = [e for e in deep if case["k"] == 1 or rnd.randrange(case["k"]) == 0]
            trees = (["b", case["op"], f, e] if case["side"] == "L" else ["b", case["op"], e, f] for e in others)
        modes = ["new", "over", "x", "+=", "y", "-=", "z", "*="]
        for j, t in enumerate(trees):
            # one vector set with zeros / negatives / NaN and one all-positive set (where every operator is defined)
            for vs in (VECSETS[(j % 6) if (j % 6) != 5 else 6], VECSETS[5] if j % 3 else VECSETS[7]):
                yield t, vs, "none", (rnd.randrange(1 << 30) if j % 4 == 0 else None), False
            yield t, VECSETS[5] if j % 2 else VECSETS[4], modes[j % len(modes)], None, False
    elif kind == "rand":
        rnd = random.Random(case["seed"])
        for _ in range(case["count"]):
            t = rand_tree(rnd, rnd.choice([4, 5, 5, 6, 6]))
            for _ in range(3):
                vs = rand_vecs(rnd)
                yield t, vs, rnd.choice(["none", "none", "new", "over", "x", "y", "z", "+=", "-=", "*=", "/=", "^="]), \
                    rnd.randrange(1 << 30), False


# --------------------------------------------------------------------------------------------------
#  Running one (tree, vectors, mode) on the real code
# --------------------------------------------------------------------------------------------------
def same(g, w, tol):
    """tol = absolute tolerance (0.0: exact; 1e-9 for exact trees; 1e-9 * max|intermediate| for inexact ones)."""
    try:
        if isinstance(g, complex):
            return False
        if g != g or w != w:
            return g != g and w != w
        return g == w or abs(g - w) <= max(tol, 1e-9 * abs(w) if tol else 0.0)
    except Exception:
        return False


def same_list(got, want, tol):
    try:
        got = list(got)
    except Exception:
        return False
    return len(got) == len(want) and all(same(g, w, tol) for g, w in zip(got, want))


def build(V):
    from tracklib.core.obs import Obs
    from tracklib.core.obs_coords import ENUCoords
    from tracklib.core.obs_time import ObsTime
    from tracklib.core.track import Track
    n = len(V["a"])
    trk = Track([], 1)
    for i in range(n):
        trk.addObs(Obs(ENUCoords(V["x"][i], V["y"][i], V["z"][i]), ObsTime(1970, 1, 1, 0, 0, i + 1, 0)))
    trk.createAnalyticalFeature("a", list(V["a"]))
    trk.createAnalyticalFeature("b", list(V["b"]))
    return trk


def snapshot(trk):
    names = trk.getListAnalyticalFeatures()
    return dict(names=list(names), cols={k: list(trk.getAnalyticalFeature(k)) for k in names},
                x=trk.getX(), y=trk.getY(), z=trk.getZ(), t=trk.getT(), n=trk.size(),
                lens=[len(trk.getObs(i).features) for i in range(trk.size())])


def frame(before, after, changed, what, fails, ordered):
    """Nothing but `changed` (a feature name or a coordinate) differs between the two snapshots."""
    new = changed is not None and changed not in ("x", "y", "z") and changed not in before["names"]
    want_names = list(before["names"]) + ([changed] if new else [])
    if (after["names"] != want_names) if ordered else (sorted(after["names"]) != sorted(want_names)):
        fails.append("%s: track lists %s afterwards, expected %s" % (what, after["names"], want_names))
        return
    if after["n"] != before["n"] or any(e != len(want_names) for e in after["lens"]):
        fails.append("%s: observations carry %s feature values for %d names" % (what, after["lens"], len(want_names)))
    for k in before["names"]:
        if k != changed and not same_list(after["cols"][k], before["cols"][k], 0.0):
            fails.append("%s: feature %r changed from %s to %s" % (what, k, before["cols"][k], after["cols"][k]))
    for c in "xyzt":
        if c != changed and not same_list(after[c], before[c], 0.0):
            fails.append("%s: %s changed from %s to %s" % (what, c.upper(), before[c], after[c]))


def fmt(V):
    return "a=%s b=%s x=%s y=%s z=%s" % tuple(V[k] for k in "abxyz")


def check_unit(tree, vs, mode, style, direct, dedicated=True):
    """-> (failures, evaluated?)"""
    V = vec(vs)
    n = len(V["a"])
    full = tree if mode in ("none", "new", "over", "x", "y", "z") else ["b", mode[0], ["n", "a"], tree]
    try:
        val = eval_tree(full, V)
        if full is not tree:
            eval_tree(tree, V)
        tol = 1e-9 * (magnitude(full, V) if val.inexact else 1.0)
    except Undefined:
        return [], False
    want = [val.v] * n if val.scalar else val.v
    rhs = style if isinstance(style, str) else to_text(tree, random.Random(style) if style is not None else None, True)
    lhs = {"none": None, "new": "c", "over": "a", "x": "x", "y": "y", "z": "z"}.get(mode, "a")
    text = rhs if lhs is None else lhs + ("=" if len(mode) != 2 else mode) + rhs
    tag = tag_of(tree, mode, text)
    if tag is not None and not dedicated and tag in known_defects():
        return [], False
    what = "operate(%r) on %s%s" % (text, fmt(V), " [%s]" % tag if tag else "")
    fails = []
    trk = build(V)
    before = snapshot(trk)
    try:
        use_bracket = isinstance(style, int) and style % 2 == 1 and any(ch in text for ch in "+-*/^<>()=")
        got = trk[text] if use_bracket else trk.operate(text)
    except BaseException as e:  # noqa: B902  (the evaluator calls exit() on some paths)
        return ["%s raised %s: %s; ordinary arithmetic gives %s" % (what, type(e).__name__, str(e)[:100], want)], True
    try:
        after = snapshot(trk)
    except BaseException as e:  # noqa: B902
        return ["%s: track unreadable afterwards (%s: %s)" % (what, type(e).__name__, str(e)[:100])], True
    if lhs is None:
        if not same_list(got, want, tol):
            fails.append("%s returned %s, ordinary arithmetic gives %s" % (what, got, want))
        frame(before, after, None, what, fails, True)
    else:
        frame(before, after, lhs, what, fails, False)
        stored = after[lhs] if lhs in "xyz" else after["cols"].get(lhs)
        if stored is not None and not same_list(stored, want, tol):
            fails.append("%s stored %s under %r, ordinary arithmetic gives %s" % (what, stored, lhs, want))
    if direct and not fails:
        fails += check_direct(tree, V, want, tol)
    return fails, True


def check_direct(tree, V, want, tol):
    """The corresponding Operator object applied directly must give the same values (simple trees only)."""
    from tracklib.core.operators import Operator
    k = tree[0]
    call = None
    if k == "b" and tree[2][0] in "nl" and tree[3][0] in "nl":
        op, L, R = tree[1], tree[2], tree[3]
        if L[0] == "n" and R[0] == "n":
            call = (OBJ2[op], (L[1], R[1]))
        elif L[0] == "n":
            call = (OBJS[op], (L[1], float(R[1])))
        elif R[0] == "n":
            call = (OBJSR[op], (R[1], float(L[1])))
    elif k == "f" and tree[2][0] == "n":
        call = (OBJF[tree[1]], (tree[2][1],))
    elif k == "s":
        call = (OBJSH[tree[1]], (tree[2], tree[3]))
    if call is None:
        return []
    name, args = call
    what = "operate(Operator.%s, %s) on %s" % (name, ", ".join(repr(a) for a in args), fmt(V))
    fails = []
    trk = build(V)
    before = snapshot(trk)
    try:
        obj = getattr(Operator, name)
        if k == "f" and tree[1] in AGG_FN:
            got = trk.operate(obj, *args)
            after = snapshot(trk)
            if not same(got, want[0], tol):
                fails.append("%s returned %r, ordinary arithmetic gives %r" % (what, got, want[0]))
            frame(before, after, None, what, fails, True)
        else:
            trk.operate(obj, *(args + ("o",)))
            after = snapshot(trk)
            frame(before, after, "o", what + " -> 'o'", fails, True)
            if "o" in after["cols"] and not same_list(after["cols"]["o"], want, tol):
                fails.append("%s stored %s, ordinary arithmetic gives %s" % (what, after["cols"]["o"], want))
    except BaseException as e:  # noqa: B902
        fails.append("%s raised %s: %s; ordinary arithmetic gives %s" % (what, type(e).__name__, str(e)[:100], want))
    return fails


def check_case(case):
    import json
    fails = []
    n_eval = n_run = 0
    dedicated = case["kind"] in ("lit", "cmp", "one")
    for tree, vs, mode, style, direct in units(case):
        f, ran = check_unit(tree, vs, mode, style, direct, dedicated)
        n_eval += 1
        n_run += 1 if ran else 0
        if f:
            fails.append(f[0] + "  {replay: " + json.dumps(dict(kind="one", tree=tree, vec=vs, mode=mode, style=style,
                                                                 direct=direct)) + "}")
            if len(fails) >= 5:
                break
    return dict(failures=fails, evaluations=max(n_run, 1), nontrivial=n_run)
