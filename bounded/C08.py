"""C08 bounded stand-in: the grid spatial index has no false negatives.

Oracle = brute-force geometry in exact rational arithmetic (fractions.Fraction):
  * the cell of a point is (floor((x-xmin)/dX), floor((y-ymin)/dY)) -- cells are half-open, points of the upper outer
    border belong to the last cell -- evaluated exactly on the extent / cell size the index reports;
  * the cells a segment passes through = the cells in which it has a piece of positive length, enumerated exactly by
    cutting the segment at every grid line it meets and taking the cell of every piece between two cuts (a cell met in
    one isolated point only -- the segment runs exactly through a lattice corner -- is not demanded: the statement
    says "passes through" / "crossed"; a zero-length segment is demanded in the cell of its point);
  * the distance from a point to a feature = exact minimum of the squared point/segment distances.
Checked (extra candidates are allowed, omissions are not):
  (a) every cell holds every feature with a segment passing through it (all cells, via request(i,j)) and
      request(coord) returns them for the cell containing coord;
  (b) request([c1,c2]) / request(track) return every feature registered in, and every feature passing through, a cell
      the query passes through;
  (c) neighborhood(coord, unit=groundDistanceToUnits(d)) returns every feature having a point within d of coord.
When the grid is not exactly representable (cell size not dyadic, raw float coordinates) a cell membership is only
demanded if it holds with a clearance of 1e-9 cell from the cell border, and a neighbour only if it is within
d*(1-1e-9), so no verdict depends on the last bit; on dyadic grids (about 4 cases in 10) every comparison is exact,
which makes vertices / queries on borders and corners and distances exactly equal to d meaningful.

Defect class met on the tree (margin 0 only): a segment lying ON the upper / right outer border is registered in no
cell when (ymax-ymin)/dY rounds to just above the number of rows (resp. columns).  Failures of that class carry the
token 'outer-border'; the first 12 (24) cases of the generator aim at it."""
import math
import random
from fractions import Fraction as F

ID = "C08"
BOUND = {
    "quick": "12 margin-0 sets whose features lie on the outer border of the extent (sides of the bounding rectangle, "
             "non-dyadic cell sizes); 1500 feature sets (1..6 polylines of 2..6 vertices, track collections and networks, one network edge in 4 "
             "added after the index is built): 60% on integer coordinates with margins {0,1/8,1/4,1/2} and cell sizes "
             "that mostly keep the grid dyadic/exact (square and non-square, incl. default resolution on 25/50/100-wide "
             "extents; ~38% of all sets end up exact), 40% raw floats with margins in [0,0.3] and arbitrary / default resolution; per set: all cells, <= ~120 point "
             "queries (vertices, cell corners / edge midpoints / centres, extent corners, random), ~20 segment queries, "
             "3 track queries, 12 points x 9 distances (0 .. grid size) neighbourhood queries",
    "thorough": "same generators, 24 border sets + 40000 feature sets",
}
RULE = ("case = one feature set + index parameters + a seed from which the query points/segments/distances are derived "
        "once the extent is known; only extents with >= 1 cell per axis (non-degenerate bbox, cell size <= extent, aspect "
        "ratio < 60 for the default resolution) are generated; one evaluation = one request / neighborhood call (plus one "
        "for the sweep over all cells); non-trivial = the oracle demands at least one feature; distinct by content")
CHUNK = 8
BUDGET_S = {"quick": 55, "thorough": 1100}
EPS = F(1, 10 ** 9)


# ------------------------------------------------------------------ case generation
def _poly_int(rnd, W, H, n):
    """Polyline on integer vertices in [0,W]x[0,H]; oblique, horizontal, vertical and zero-length segments."""
    P = [[rnd.randint(0, W), rnd.randint(0, H)]]
    for _ in range(n - 1):
        x, y = P[-1]
        k = rnd.random()
        if k < 0.45:
            P.append([rnd.randint(0, W), rnd.randint(0, H)])
        elif k < 0.65:
            P.append([rnd.randint(0, W), y])
        elif k < 0.85:
            P.append([x, rnd.randint(0, H)])
        elif k < 0.93:   # short hop (stays within one or two cells)
            P.append([min(W, max(0, x + rnd.choice([-1, 0, 1]))), min(H, max(0, y + rnd.choice([-1, 0, 1])))])
        else:
            P.append([x, y])
    return [[float(a), float(b)] for a, b in P]


def _poly_float(rnd, W, H, n):
    P = [[rnd.uniform(0, W), rnd.uniform(0, H)]]
    for _ in range(n - 1):
        x, y = P[-1]
        k = rnd.random()
        if k < 0.5:
            P.append([rnd.uniform(0, W), rnd.uniform(0, H)])
        elif k < 0.65:
            P.append([rnd.uniform(0, W), y])
        elif k < 0.8:
            P.append([x, rnd.uniform(0, H)])
        elif k < 0.93:
            P.append([min(W, max(0, x + rnd.uniform(-W, W) / 50)), min(H, max(0, y + rnd.uniform(-H, H) / 50))])
        else:
            P.append([x, y])
    return P


def _bbox(feats):
    xs = [p[0] for f in feats for p in f]
    ys = [p[1] for f in feats for p in f]
    return min(xs), max(xs), min(ys), max(ys)


def _one_case(rnd, c):
    exact = (c % 5) < 3
    kind = "network" if c % 2 else "tracks"
    nf = rnd.randint(1, 6)
    while True:
        if exact:
            default = (c % 15) == 0
            if default:
                W = rnd.choice([25, 50, 100])
                H = rnd.choice([4, 10, 25, 50, 100])
                if rnd.random() < 0.5:
                    W, H = H, W
            else:
                W = rnd.choice([4, 8, 8, 12, 16, 24])
                H = rnd.choice([4, 8, 8, 12, 16, 2])
            feats = [_poly_int(rnd, W, H, rnd.randint(2, 6)) for _ in range(nf)]
            if default:   # pin the extent so that the default cell size is dyadic
                feats[0] = [[0.0, 0.0], [float(W), float(H)]] + feats[0][:3]
        else:
            default = (c % 10) == 3
            W = rnd.choice([1.0, 10.0, 1000.0, 1000.0, 30000.0])
            H = W * rnd.choice([1.0, 1.0, 0.5, 0.1, 2.0, 7.0, 0.03] if not default else [1.0, 0.5, 0.1, 2.0, 7.0, 0.03])
            ox, oy = rnd.choice([(0.0, 0.0), (-W / 2, -H / 2), (650000.0, 6860000.0)])
            feats = [[[x + ox, y + oy] for x, y in _poly_float(rnd, W, H, rnd.randint(2, 6))] for _ in range(nf)]
        late = kind == "network" and nf >= 2 and rnd.random() < 0.5
        base = feats[:-1] if late else feats
        x0, x1, y0, y1 = _bbox(base)
        ax, ay = x1 - x0, y1 - y0
        if ax <= 0 or ay <= 0:
            continue
        if late:   # the edge added afterwards must lie inside the extent of the index built before
            lx0, lx1, ly0, ly1 = _bbox(feats[-1:])
            if lx0 < x0 or lx1 > x1 or ly0 < y0 or ly1 > y1:
                late = False
                x0, x1, y0, y1 = _bbox(feats)
                ax, ay = x1 - x0, y1 - y0
        if default and not (1 / 60.0 < ax / ay < 60.0):
            continue
        break
    if exact:
        margin = rnd.choice([0.0, 0.0, 0.125, 0.25, 0.5])
        tx, ty = ax * (1 + 2 * margin), ay * (1 + 2 * margin)
        if default:
            res = None
            margin = 0.0
        else:
            # a cell size = extent / (number of cells): mostly dyadic, sometimes not (thirds, fifths); never > extent
            nx = rnd.choice([1, 2, 2, 3, 4, 4, 5, 6, 8, 16])
            ny = rnd.choice([1, 2, 2, 3, 4, 4, 5, 6, 8, 16])
            if rnd.random() < 0.3:
                ny = nx
            res = [tx / nx, ty / ny]
            if rnd.random() < 0.25:    # a cell size that does not divide the extent (cells get stretched)
                res = [res[0] * rnd.choice([0.9, 0.75, 0.6]), res[1] * rnd.choice([0.9, 0.75, 0.6])]
            if rnd.random() < 0.2:     # square cells of the smaller side
                res = [min(res), min(res)]
    else:
        margin = rnd.choice([0.0, 0.05, 0.05, 0.1, 0.3, rnd.uniform(0, 0.3)])
        tx, ty = ax * (1 + 2 * margin), ay * (1 + 2 * margin)
        if default:
            res = None
        else:
            rx = tx / rnd.choice([1, 2, 3, 5, 7, 10, 13, 20, 40]) * rnd.uniform(0.7, 1.0)
            ry = ty / rnd.choice([1, 2, 3, 5, 7, 10, 13, 20, 40]) * rnd.uniform(0.7, 1.0)
            k = rnd.random()
            if k < 0.3:
                rx = ry = min(rx, ry)
            elif k < 0.45:     # strongly non-square cells
                rx, ry = (tx * rnd.uniform(0.3, 0.99), ty / rnd.choice([10, 20, 40])) if rnd.random() < 0.5 else \
                         (tx / rnd.choice([10, 20, 40]), ty * rnd.uniform(0.3, 0.99))
            res = [rx, ry]
    return dict(kind=kind, coords="exact" if exact else "float", feats=feats, resolution=res, margin=margin,
                late=late, seed=rnd.randrange(10 ** 9))


def _border_case(rnd, c):
    """Margin 0, features lying on the outer border of the extent (the sides of the bounding rectangle are features),
    cell sizes that do not divide the extent into dyadic cells."""
    if c % 2 == 0:
        W, H = float(rnd.choice([3, 4, 7, 10, 15, 100])), float(rnd.choice([3, 4, 7, 10, 15, 100]))
        x0, y0 = float(rnd.choice([0, 0, -5, 1000])), float(rnd.choice([0, 0, -5, 1000]))
    else:
        W, H = rnd.uniform(1, 1000), rnd.uniform(1, 1000)
        x0, y0 = rnd.uniform(-1000, 1000), rnd.uniform(-1000, 1000)
    x1, y1 = x0 + W, y0 + H
    W, H = x1 - x0, y1 - y0
    sides = [[[x0, y0], [x1, y0]], [[x1, y0], [x1, y1]], [[x1, y1], [x0, y1]], [[x0, y1], [x0, y0]]]
    rnd.shuffle(sides)
    feats = sides[:rnd.randint(2, 4)]
    # the extent must be the whole rectangle whatever sides were kept
    feats.append([[x0, y0], [x0 + W / 2, y0 + H / 2], [x1, y1]])
    if rnd.random() < 0.5:
        feats.append([[x0, y1], [x0 + W * rnd.random(), y1], [x0 + W * rnd.random(), y0 + H * rnd.random()], [x1, y0 + H * rnd.random()], [x1, y0]])
    nx, ny = rnd.choice([3, 5, 6, 7, 10, 13, 26, 49]), rnd.choice([3, 5, 6, 7, 10, 13, 26, 49])
    res = [W / nx, H / ny] if c % 3 else [W / nx * 0.95, H / ny * 0.95]
    if c % 5 == 4:
        res = None if 1 / 60.0 < W / H < 60.0 else res
    return dict(kind="network" if c % 4 == 1 else "tracks", coords="border", feats=feats, resolution=res, margin=0.0,
                late=False, seed=rnd.randrange(10 ** 9))


def cases(tier, seed):
    rnd = random.Random(seed)
    for c in range(12 if tier == "quick" else 24):
        yield _border_case(rnd, c)
    n = 1500 if tier == "quick" else 40000
    for c in range(n):
        yield _one_case(rnd, c)


# ------------------------------------------------------------------ oracle
class Grid:
    """Exact view of the extent / cell size the index reports."""

    def __init__(self, si):
        self.xmin, self.xmax, self.ymin, self.ymax = F(si.xmin), F(si.xmax), F(si.ymin), F(si.ymax)
        self.dX, self.dY = F(si.dX), F(si.dY)
        self.nx, self.ny = si.csize, si.lsize

    def unit(self, x, y):
        return (F(x) - self.xmin) / self.dX, (F(y) - self.ymin) / self.dY

    def cell_of_unit(self, ux, uy, eps):
        """Cell containing a point given in grid units, or None when eps > 0 and the point is within eps of a border."""
        i, j = math.floor(ux), math.floor(uy)
        i = min(max(i, 0), self.nx - 1)      # upper outer border -> last cell
        j = min(max(j, 0), self.ny - 1)
        if eps:
            if not (eps <= ux - i <= 1 - eps and eps <= uy - j <= 1 - eps):
                return None
        return (i, j)

    def cells_of_segment(self, p1, p2, eps):
        """Cells the segment p1p2 (ground coordinates) passes through, by exact traversal: the segment is cut at every
        grid line it meets; each piece between two cuts lies in one cell (the cell of its midpoint).  A cell that the
        segment meets in one isolated point only (it runs exactly through a lattice corner, or ends on a border coming
        from the other side) is NOT demanded: touching is not passing through.  A zero-length segment is its own cell."""
        a = self.unit(*p1)
        b = self.unit(*p2)
        if a == b:
            c = self.cell_of_unit(a[0], a[1], eps)
            return set() if c is None else {c}
        cuts = {F(0), F(1)}
        for k in (0, 1):
            lo, hi = min(a[k], b[k]), max(a[k], b[k])
            if lo != hi:
                for n in range(math.ceil(lo), math.floor(hi) + 1):
                    cuts.add((n - a[k]) / (b[k] - a[k]))
        S = sorted(cuts)
        out = set()
        for m in range(len(S) - 1):
            s = (S[m] + S[m + 1]) / 2
            c = self.cell_of_unit(a[0] + s * (b[0] - a[0]), a[1] + s * (b[1] - a[1]), eps)
            if c is not None:
                out.add(c)
        return out


def dist2_point_segment(p, a, b):
    px, py, ax, ay, bx, by = F(p[0]), F(p[1]), F(a[0]), F(a[1]), F(b[0]), F(b[1])
    ux, uy = bx - ax, by - ay
    n2 = ux * ux + uy * uy
    if n2 == 0:
        return (px - ax) ** 2 + (py - ay) ** 2
    t = ((px - ax) * ux + (py - ay) * uy) / n2
    t = min(max(t, F(0)), F(1))
    return (px - ax - t * ux) ** 2 + (py - ay - t * uy) ** 2


def dist2_point_feature(p, feat):
    return min(dist2_point_segment(p, feat[k], feat[k + 1]) for k in range(len(feat) - 1))


def _is_dyadic(v):
    f = F(v)
    return f.denominator <= 4096 and (f.denominator & (f.denominator - 1)) == 0 and abs(f) < 2 ** 20


# ------------------------------------------------------------------ building the real objects
def _track(pts):
    from tracklib.core import ENUCoords, Obs, ObsTime
    from tracklib.core.track import Track
    return Track([Obs(ENUCoords(x, y, 0), ObsTime()) for x, y in pts])


def _build(case):
    """Returns the real SpatialIndex over the case's features (feature number k = k-th polyline)."""
    from tracklib.core import TrackCollection
    from tracklib.core.spatial_index import SpatialIndex
    res = tuple(case["resolution"]) if case["resolution"] is not None else None
    feats = case["feats"]
    if case["kind"] == "tracks":
        coll = TrackCollection([_track(f) for f in feats])
        return SpatialIndex(coll, resolution=res, margin=case["margin"], verbose=False)
    from tracklib.core.network import Network, Node, Edge
    net = Network()
    ids = {}

    def node(p):
        key = (p[0], p[1])
        if key not in ids:
            ids[key] = len(ids) + 1
        from tracklib.core import ENUCoords
        return Node(ids[key], ENUCoords(p[0], p[1], 0))

    def add(k):
        e = Edge(100 + k, _track(feats[k]))
        e.orientation = Edge.DOUBLE_SENS
        net.addEdge(e, node(feats[k][0]), node(feats[k][-1]))
    last = len(feats) - 1 if case["late"] else len(feats)
    for k in range(last):
        add(k)
    net.createSpatialIndex(resolution=res, margin=case["margin"], verbose=False)
    for k in range(last, len(feats)):
        add(k)     # Network.addEdge registers the new edge in the existing index
    return net.spatial_index


# ------------------------------------------------------------------ contract
def _sfeat(feats, ks):
    return " | ".join("%d=%s" % (k, feats[k]) for k in sorted(ks))


def check_case(case):
    from tracklib.core import ENUCoords
    fails = []
    n_eval = n_nontrivial = 0
    feats = case["feats"]
    head = "%s index(resolution=%r, margin=%r%s)" % (case["kind"], case["resolution"], case["margin"],
                                                      ", last edge added after build" if case["late"] else "")
    try:
        si = _build(case)
    except Exception as e:
        return dict(failures=["building the %s over %d features raised %s: %s" % (head, len(feats), type(e).__name__, e)],
                    evaluations=1, nontrivial=1)
    g = Grid(si)
    grid_txt = "[%d x %d cells of %r x %r from (%r,%r)]" % (si.csize, si.lsize, si.dX, si.dY, si.xmin, si.ymin)
    exact = (g.dX * g.nx == g.xmax - g.xmin and g.dY * g.ny == g.ymax - g.ymin
             and all(_is_dyadic(v) for v in (si.xmin, si.ymin, si.dX, si.dY))
             and all(_is_dyadic(v) for f in feats for p in f for v in p))
    rnd = random.Random(case["seed"])

    # ---- oracle: which feature must be in which cell
    def must(eps):
        M = {}
        for k, f in enumerate(feats):
            for m in range(len(f) - 1):
                for c in g.cells_of_segment(f[m], f[m + 1], eps):
                    M.setdefault(c, set()).add(k)
        return M
    eps = 0 if exact else EPS
    MUST = must(eps)

    def on_outer_border(k):
        """Does feature k have a segment (possibly zero-length) lying on the upper / right outer border of the extent?"""
        f = feats[k]
        return any(f[m][0] == si.xmax == f[m + 1][0] or f[m][1] == si.ymax == f[m + 1][1] for m in range(len(f) - 1))

    def report(what, got, want, why):
        missing = sorted(set(want) - set(got if got is not None else []))
        if missing and len(fails) < 8:
            tag = ""
            if case["margin"] == 0 and all(on_outer_border(k) for k in missing):
                tag = " [outer-border: the omitted feature has a segment lying on the upper/right border of the margin-0 extent]"
            fails.append("%s %s: %s returned %r, omits feature(s) %s %s%s" % (
                head, grid_txt, what, got if got is None else sorted(got), _sfeat(feats, missing), why, tag))

    # ---- (a0) every cell holds the features passing through it
    n_eval += 1
    n_nontrivial += 1 if MUST else 0
    for (i, j), want in sorted(MUST.items()):
        try:
            got = si.request(i, j)
        except Exception as e:
            fails.append("%s %s: request(%d,%d) raised %s: %s" % (head, grid_txt, i, j, type(e).__name__, e))
            break
        report("request(%d,%d)" % (i, j), got, want, "which pass(es) through that cell")
        if len(fails) >= 8:
            break

    # ---- query points: vertices, cell corners / edge midpoints / centres, extent corners, random
    def ground(ux, uy):
        """Ground coordinates of a point given in grid units (exact on dyadic grids), kept inside the extent."""
        x = float(g.xmin + F(ux) * g.dX)
        y = float(g.ymin + F(uy) * g.dY)
        return [min(max(x, si.xmin), si.xmax), min(max(y, si.ymin), si.ymax)]
    P = []
    verts = [p for f in feats for p in f]
    rnd.shuffle(verts)
    P += verts[:20]
    P += [[si.xmin, si.ymin], [si.xmax, si.ymax], [si.xmin, si.ymax], [si.xmax, si.ymin],
          ground(F(g.nx, 2), 0), ground(F(g.nx, 2), g.ny), ground(0, F(g.ny, 2)), ground(g.nx, F(g.ny, 2))]
    allcells = [(i, j) for i in range(g.nx) for j in range(g.ny)]
    occupied = sorted(MUST)
    pick = (allcells if len(allcells) <= 12 else
            [allcells[rnd.randrange(len(allcells))] for _ in range(5)] + [occupied[rnd.randrange(len(occupied))] for _ in range(7) if occupied])
    for (i, j) in pick:
        P += [ground(i + F(1, 2), j + F(1, 2)), ground(i, j), ground(i + 1, j + 1), ground(i + 1, j), ground(i, j + 1),
              ground(i + F(1, 2), j), ground(i, j + F(1, 2)), ground(i + 1, j + F(1, 4)), ground(i + F(3, 4), j + 1)]
    P += [[rnd.uniform(si.xmin, si.xmax), rnd.uniform(si.ymin, si.ymax)] for _ in range(12)]
    if exact:   # keep every coordinate dyadic so that the exact comparison is legitimate
        P = [[round(x * 64) / 64.0, round(y * 64) / 64.0] for x, y in P]
    P = [p for p in P if si.xmin <= p[0] <= si.xmax and si.ymin <= p[1] <= si.ymax][:130]

    # ---- (a) point query
    for p in P:
        n_eval += 1
        c = g.cell_of_unit(*g.unit(*p), eps)
        if c is None:
            continue        # within 1e-9 cell of a border on an inexact grid: no demand
        want = MUST.get(c, set())
        n_nontrivial += 1 if want else 0
        try:
            got = si.request(ENUCoords(p[0], p[1], 0))
        except Exception as e:
            fails.append("%s %s: request(coord %r) raised %s: %s" % (head, grid_txt, p, type(e).__name__, e))
            continue
        report("request(coord %r)" % (p,), got, want, "which pass(es) through its cell %r" % (c,))

    # ---- (b) segment and track queries
    def registered(cells):
        R = set()
        for (i, j) in cells:
            R.update(si.grid[i][j])
        return R

    def through(cells):
        R = set()
        for c in cells:
            R.update(MUST.get(c, ()))
        return R
    SEG = []
    for _ in range(8):
        SEG.append([P[rnd.randrange(len(P))], P[rnd.randrange(len(P))]])
    for _ in range(4):
        f = feats[rnd.randrange(len(feats))]
        m = rnd.randrange(len(f) - 1)
        SEG.append([f[m], f[m + 1]])
    SEG.append([[si.xmin, si.ymin], [si.xmax, si.ymax]])
    SEG.append([[si.xmin, si.ymax], [si.xmax, si.ymin]])
    SEG.append([ground(0, F(g.ny, 2)), ground(g.nx, F(g.ny, 2))])          # along a grid line when ny is even
    SEG.append([ground(g.nx // 2, 0), ground(g.nx // 2, g.ny)])            # along a grid line
    for _ in range(3):
        q = P[rnd.randrange(len(P))]
        SEG.append([q, q])                                                   # zero-length query
    for a, b in SEG:
        n_eval += 1
        cells = g.cells_of_segment(a, b, eps)
        want_reg, want_geo = registered(cells), through(cells)
        n_nontrivial += 1 if (want_reg or want_geo) else 0
        try:
            got = si.request([ENUCoords(a[0], a[1], 0), ENUCoords(b[0], b[1], 0)])
        except Exception as e:
            fails.append("%s %s: request(segment %r-%r) raised %s: %s" % (head, grid_txt, a, b, type(e).__name__, e))
            continue
        report("request(segment %r-%r)" % (a, b), got, want_reg, "registered in a cell it crosses")
        report("request(segment %r-%r)" % (a, b), got, want_geo, "which pass(es) through a cell it crosses")
    for _ in range(3):
        n_eval += 1
        T = [P[rnd.randrange(len(P))] for _ in range(rnd.randint(2, 5))]
        if rnd.random() < 0.3:
            T = list(feats[rnd.randrange(len(feats))])
        cells = set()
        for m in range(len(T) - 1):
            cells |= g.cells_of_segment(T[m], T[m + 1], eps)
        want_reg, want_geo = registered(cells), through(cells)
        n_nontrivial += 1 if (want_reg or want_geo) else 0
        try:
            got = si.request(_track(T))
        except Exception as e:
            fails.append("%s %s: request(track %r) raised %s: %s" % (head, grid_txt, T, type(e).__name__, e))
            continue
        report("request(track %r)" % (T,), got, want_reg, "registered in a cell it crosses")
        report("request(track %r)" % (T,), got, want_geo, "which pass(es) through a cell it crosses")

    # ---- (c) neighbourhood within a ground distance
    size = max(si.xmax - si.xmin, si.ymax - si.ymin)
    NP = [P[rnd.randrange(len(P))] for _ in range(12)]
    for p in NP:
        D2 = [dist2_point_feature(p, f) for f in feats]
        near = math.sqrt(float(min(D2)))
        DS = [0.0, si.dX, si.dY, min(si.dX, si.dY) / 2, max(si.dX, si.dY) * rnd.choice([1, 2, 3]), near, near * 1.0000001,
              rnd.uniform(0, size), rnd.uniform(0, size) * rnd.random(), size]
        rnd.shuffle(DS)
        for d in DS[:9]:
            n_eval += 1
            # exact grid: 'within d' is decided exactly (<=).  Inexact grid: the cell of a point lying within an ulp
            # of a grid line depends on the last bit, so a feature is only demanded when it is within d * (1 - 1e-9).
            d2 = F(d) ** 2 if exact else (F(d) * (1 - EPS)) ** 2
            want = set(k for k in range(len(feats)) if D2[k] <= d2)
            n_nontrivial += 1 if want else 0
            try:
                u = si.groundDistanceToUnits(d)
                got = si.neighborhood(ENUCoords(p[0], p[1], 0), unit=u)
            except Exception as e:
                fails.append("%s %s: neighborhood(coord %r, groundDistanceToUnits(%r)) raised %s: %s" % (
                    head, grid_txt, p, d, type(e).__name__, e))
                continue
            report("neighborhood(coord %r, unit=groundDistanceToUnits(%r)=%r)" % (p, d, u), got, want,
                   "having a point within %r of the query" % d)
    return dict(failures=fails[:6], evaluations=n_eval, nontrivial=n_nontrivial)
