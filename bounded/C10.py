"""C10 bounded stand-in: map-matched positions lie on a real edge within the search radius.

Run-time contract on the result of the REAL mapOnNetwork (HMM decoding included).  For every observation k the
feature 'hmm_inference' must be either the unmatched flag (edge number -1, distances -1) or a tuple
(point, edge number, distance to source, distance to target) with
  * edge number = position of an existing edge of the network,
  * point on the geometry of that edge (brute-force point/polyline distance ~ 0),
  * |observed position - point| <= search radius,
  * the two distances = arc length along the edge geometry from its first vertex to the point and from the point to
    its last vertex (computed from the vertex list), hence adding up to the edge length;
and the track must hold the same observations, in the same order, with the same positions and timestamps as before.

Known finding of C20 (vertical segments) shows here only as a ZeroDivisionError when an observation has exactly the
abscissa of a vertical edge segment; such inputs are confined to cases with `vertical_exact: true` (a bounded number)
and their failure string carries the token 'vertical-segment'.  Everywhere else an observation that would share its
abscissa with a vertical segment is moved by 2^-16 m."""
import math
import random

ID = "C10"
BOUND = {
    "quick": "4000 networks + track: grid-like (2..4 x 2..3 lattice, spacing 20..150 m, optional Lambert-93-like offset; "
             "horizontal / vertical / diagonal edges of 2..4 vertices, straight or bent, either orientation) and random planar "
             "(4..8 nodes, non-crossing straight or bent edges); spatial index default / square / non-square resolution, margin "
             "0.02..0.5; tracks of 2..10 observations walking along the network: exactly on it (vertices, nodes, interior "
             "points), near (noise 0.2..1.5 search radius), far (1..3 network sizes, at most 1.5 km) and, in 10 cases, very far (8..50 km, "
             "field far_m); search radius 0.02..3 x spacing (and 0; at most 600 m), gps_noise 0.5..200, transition_cost 1..100; 10 cases with "
             "observations exactly at the abscissa of a vertical segment (field vertical_exact)",
    "thorough": "same generator, 100000 cases, 24 of them with observations exactly at the abscissa of a vertical segment, "
                "20 with very far observations",
}
RULE = ("case = one network + index parameters + one track + parameters; one evaluation = one observation of the matched "
        "track; non-trivial = observations that were matched to an edge (flagged ones are trivial); distinct by content")
CHUNK = 6
BUDGET_S = {"quick": 55, "thorough": 1100}


# ------------------------------------------------------------------ geometry helpers (oracle side)
def seg_dist(ax, ay, bx, by, px, py):
    ux, uy = bx - ax, by - ay
    n2 = ux * ux + uy * uy
    if n2 == 0:
        return math.hypot(px - ax, py - ay)
    t = ((px - ax) * ux + (py - ay) * uy) / n2
    t = 0.0 if t < 0 else (1.0 if t > 1 else t)
    return math.hypot(px - ax - t * ux, py - ay - t * uy)


def poly_length(P):
    return sum(math.hypot(P[i + 1][0] - P[i][0], P[i + 1][1] - P[i][1]) for i in range(len(P) - 1))


def _cross(a, b, c, d):
    """Do the open segments ab and cd properly cross?"""
    def o(p, q, r):
        return (q[0] - p[0]) * (r[1] - p[1]) - (q[1] - p[1]) * (r[0] - p[0])
    return o(a, b, c) * o(a, b, d) < 0 and o(c, d, a) * o(c, d, b) < 0


# ------------------------------------------------------------------ case generation
def _bend(rnd, a, b, nv, amp):
    """Geometry from a to b with nv vertices: straight (collinear inner vertices) or bent by up to amp."""
    P = [list(a)]
    ux, uy = b[0] - a[0], b[1] - a[1]
    L = math.hypot(ux, uy)
    ts = sorted(rnd.sample([1, 2, 3, 4, 5, 6, 7], nv - 2))
    straight = rnd.random() < 0.4
    for t in ts:
        h = 0.0 if straight else rnd.choice([-1, 1]) * rnd.choice([0.25, 0.5, 1.0]) * amp
        P.append([a[0] + t / 8.0 * ux - h * uy / L, a[1] + t / 8.0 * uy + h * ux / L])
    P.append(list(b))
    return P


def _grid_network(rnd):
    nx, ny = rnd.randint(2, 4), rnd.randint(2, 3)
    sx = float(rnd.choice([20, 32, 50, 64, 100, 150]))
    sy = sx if rnd.random() < 0.5 else float(rnd.choice([20, 32, 50, 64, 100, 150]))
    ox, oy = rnd.choice([(0.0, 0.0), (0.0, 0.0), (-64.0, -32.0), (650000.0, 6860000.0)])
    node = lambda i, j: (ox + i * sx, oy + j * sy)
    E = []
    for i in range(nx):
        for j in range(ny):
            if i + 1 < nx and rnd.random() < 0.9:
                E.append((node(i, j), node(i + 1, j)))
            if j + 1 < ny and rnd.random() < 0.9:
                E.append((node(i, j), node(i, j + 1)))
            if i + 1 < nx and j + 1 < ny and rnd.random() < 0.3:
                E.append((node(i, j), node(i + 1, j + 1)) if rnd.random() < 0.5 else (node(i + 1, j), node(i, j + 1)))
    if len(E) < 2:
        E = [(node(0, 0), node(1, 0)), (node(0, 0), node(0, 1)), (node(1, 0), node(1, 1))]
    edges = []
    for a, b in E:
        if rnd.random() < 0.5:
            a, b = b, a
        nv = rnd.choice([2, 2, 3, 4])
        edges.append(_bend(rnd, a, b, nv, min(sx, sy) / 8.0) if nv > 2 else [list(a), list(b)])
    return edges, min(sx, sy)


def _planar_network(rnd):
    n = rnd.randint(4, 8)
    W = float(rnd.choice([50, 200, 1000]))
    H = W * rnd.choice([1.0, 0.5, 2.0])
    ox, oy = rnd.choice([(0.0, 0.0), (0.0, 0.0), (650000.0, 6860000.0)])
    pts = []
    while len(pts) < n:
        p = (ox + round(rnd.uniform(0, W), 1), oy + round(rnd.uniform(0, H), 1))
        if all(math.hypot(p[0] - q[0], p[1] - q[1]) > W / 20 for q in pts):
            pts.append(p)
    pairs = sorted(((math.hypot(a[0] - b[0], a[1] - b[1]), a, b) for i, a in enumerate(pts) for b in pts[i + 1:]))
    E = []
    for _, a, b in pairs:
        if len(E) >= n + 3:
            break
        if any(_cross(a, b, c, d) for c, d in E):
            continue
        if rnd.random() < 0.85:
            E.append((a, b))
    if len(E) < 2:
        E = [(pts[0], pts[1]), (pts[1], pts[2])]
    edges = []
    for a, b in E:
        if rnd.random() < 0.5:
            a, b = b, a
        nv = rnd.choice([2, 2, 3, 4])
        L = math.hypot(a[0] - b[0], a[1] - b[1])
        edges.append(_bend(rnd, a, b, nv, L / 10.0) if nv > 2 else [list(a), list(b)])
    mean = sum(poly_length(e) for e in edges) / len(edges)
    return edges, mean


def _vertical_xs(edges):
    return set(P[i][0] for P in edges for i in range(len(P) - 1) if P[i][0] == P[i + 1][0] and P[i][1] != P[i + 1][1])


def _track(rnd, edges, spacing, radius, far_m, size):
    """A walk along the network; every observation is drawn on / near / far from the current edge."""
    ends = {}
    for k, P in enumerate(edges):
        ends.setdefault(tuple(P[0]), []).append(k)
        ends.setdefault(tuple(P[-1]), []).append(k)
    T = rnd.randint(2, 10)
    e = rnd.randrange(len(edges))
    s = rnd.random()
    fwd = rnd.random() < 0.5
    out = []
    style = rnd.choice(["on", "near", "mixed", "mixed", "mixed"])
    for _ in range(T):
        P = edges[e]
        L = poly_length(P)
        # point at arc-length fraction s of the edge
        target = s * L
        x, y = P[-1]
        for i in range(len(P) - 1):
            l = math.hypot(P[i + 1][0] - P[i][0], P[i + 1][1] - P[i][1])
            if target <= l or i == len(P) - 2:
                t = min(1.0, target / l) if l > 0 else 0.0
                t = round(t * 8) / 8.0                      # eighths: exact on axis-aligned edges
                x, y = P[i][0] + t * (P[i + 1][0] - P[i][0]), P[i][1] + t * (P[i + 1][1] - P[i][1])
                break
            target -= l
        k = rnd.random()
        mode = style if style != "mixed" else ("on" if k < 0.3 else "near" if k < 0.7 else "far" if k < 0.9 else "vertex")
        if mode == "vertex":
            x, y = rnd.choice(P)
        elif mode == "near":
            r = max(radius, spacing / 50.0) * rnd.choice([0.2, 0.5, 0.9, 0.999, 1.001, 1.5])
            a = rnd.uniform(0, 2 * math.pi)
            x, y = x + r * math.cos(a), y + r * math.sin(a)
        elif mode == "far":
            r = min(rnd.uniform(1.0, 3.0) * size, 1500.0) if far_m is None else rnd.uniform(0.1, 1.0) * far_m
            a = rnd.uniform(0, 2 * math.pi)
            x, y = x + r * math.cos(a), y + r * math.sin(a)
        out.append([x, y])
        # move on
        step = rnd.uniform(0.05, 0.8)
        s = s + step if fwd else s - step
        if s > 1 or s < 0:
            nodekey = tuple(P[-1]) if s > 1 else tuple(P[0])
            nxt = [q for q in ends[nodekey] if q != e] or [e]
            e = rnd.choice(nxt)
            fwd = tuple(edges[e][0]) == nodekey
            s = rnd.uniform(0, 0.3) if fwd else rnd.uniform(0.7, 1.0)
    return out


def _one_case(rnd, c, want_vertical_exact, want_far):
    kind = "grid" if c % 3 != 2 else "planar"
    edges, spacing = _grid_network(rnd) if kind == "grid" else _planar_network(rnd)
    xs = [p[0] for P in edges for p in P]
    ys = [p[1] for P in edges for p in P]
    size = max(max(xs) - min(xs), max(ys) - min(ys))
    tx, ty = max(xs) - min(xs), max(ys) - min(ys)
    # (radius <= 600 m, near <= 1.5 radius, far <= 1.5 km: consecutive observations stay < 7 km apart, so that the
    #  exp() overflow of the transition model is met in the far_m cases only)
    radius = min(rnd.choice([0.0, 0.02, 0.1, 0.25, 0.5, 0.5, 1.0, 1.0, 3.0]) * spacing, 600.0)
    far_m = rnd.choice([8000.0, 20000.0, 50000.0]) if want_far else None
    k = rnd.random()
    if k < 0.25:
        res = None
    elif k < 0.6:
        r = size / rnd.choice([1.5, 2, 3, 5, 10, 25, 60])
        res = [min(r, tx), min(r, ty)]
    else:
        res = [tx / rnd.choice([1, 2, 3, 7, 20, 50]) * rnd.uniform(0.6, 1.0), ty / rnd.choice([1, 2, 3, 7, 20, 50]) * rnd.uniform(0.6, 1.0)]
    margin = rnd.choice([0.02, 0.05, 0.05, 0.15, 0.5])
    pts = _track(rnd, edges, spacing, radius, far_m, size)
    vx = _vertical_xs(edges)
    if want_vertical_exact and vx:
        # put some observations exactly on / at the abscissa of a vertical segment
        vs = [(P[i], P[i + 1]) for P in edges for i in range(len(P) - 1) if P[i][0] == P[i + 1][0] and P[i][1] != P[i + 1][1]]
        for m in range(len(pts)):
            if rnd.random() < 0.5:
                a, b = rnd.choice(vs)
                t = rnd.choice([0.0, 0.25, 0.5, 1.0, 1.5])
                pts[m] = [a[0], a[1] + t * (b[1] - a[1])]
    else:
        pts = [[x + 2.0 ** -16, y] if x in vx else [x, y] for x, y in pts]
    vertical_exact = any(p[0] in vx for p in pts)
    t0 = 1500000000 + rnd.randrange(10 ** 8)
    dt = rnd.choice([1, 1, 5, 30])
    orient = [rnd.choice([0, 0, 1, -1]) for _ in edges]
    return dict(kind=kind, edges=edges, orientation=orient, resolution=res, margin=margin,
                track=[[p[0], p[1], t0 + m * dt] for m, p in enumerate(pts)],
                gps_noise=rnd.choice([0.5, 2.0, 10.0, 50.0, 200.0]), transition_cost=rnd.choice([1, 10, 100]),
                search_radius=radius, far_m=far_m, vertical_exact=vertical_exact)


def cases(tier, seed):
    rnd = random.Random(seed)
    # the two input classes that hit known defects are bounded in number (the runner stops after 50 failing cases)
    n, nvert, nfar = (4000, 10, 10) if tier == "quick" else (100000, 24, 20)
    made = far = 0
    for c in range(n):
        want_far = far < nfar and c % 11 == 5
        want_vert = made < nvert and c % 7 == 3 and not want_far
        case = _one_case(rnd, c, want_vert, want_far)
        # some cases are matched as a collection of 2-3 tracks in ONE call (state shared between tracks must not leak)
        case["group"] = rnd.choice([2, 3]) if (c % 5 == 1 and len(case["track"]) >= 4) else 1
        made += 1 if case["vertical_exact"] else 0
        far += 1 if want_far else 0
        yield case


# ------------------------------------------------------------------ building the real objects
def _build(case):
    from tracklib.core import ENUCoords, Obs, ObsTime
    from tracklib.core.track import Track
    from tracklib.core.network import Network, Node, Edge
    from tracklib.algo.cinematics import computeAbsCurv
    net = Network()
    ids = {}

    def node(p):
        key = (p[0], p[1])
        if key not in ids:
            ids[key] = 1000 + len(ids)
        return Node(ids[key], ENUCoords(p[0], p[1], 0))
    for k, P in enumerate(case["edges"]):
        g = Track([Obs(ENUCoords(x, y, 0), ObsTime()) for x, y in P])
        computeAbsCurv(g)          # precondition of the matcher: edge geometries carry 'abs_curv'
        e = Edge(100 + 7 * k, g)   # edge ids differ from edge numbers on purpose
        e.orientation = case["orientation"][k]
        e.weight = g.length()
        net.addEdge(e, node(P[0]), node(P[-1]))
    res = tuple(case["resolution"]) if case["resolution"] is not None else None
    net.createSpatialIndex(resolution=res, margin=case["margin"], verbose=False)
    net.prepare(verbose=False)
    track = Track([Obs(ENUCoords(x, y, 0), ObsTime.readUnixTime(t)) for x, y, t in case["track"]])
    return net, track


def _snapshot(track):
    out = []
    for k in range(len(track)):
        o = track[k]
        try:
            out.append((o.position.getX(), o.position.getY(), o.position.getZ(), o.timestamp.toAbsTime(), str(o.timestamp)))
        except Exception:
            out.append(("not an observation with coordinates and a timestamp", repr(getattr(o, "position", o))[:120]))
    return out


# ------------------------------------------------------------------ contract
def check_case(case):
    from tracklib.algo.mapping import mapOnNetwork
    from tracklib.core.track import Track
    from tracklib.core.track_collection import TrackCollection
    edges = case["edges"]
    radius = case["search_radius"]
    net, whole = _build(case)
    group = case.get("group", 1)
    if group > 1:
        n = len(whole)
        cuts = [round(j * n / group) for j in range(group + 1)]
        tracks = [Track([whole[k] for k in range(cuts[j], cuts[j + 1])]) for j in range(group) if cuts[j + 1] > cuts[j]]
    else:
        tracks = [whole]
    befores = [_snapshot(t) for t in tracks]
    objss = [[t[k] for k in range(len(t))] for t in tracks]
    what = "mapOnNetwork(%s %r, %s network of %d edges, index resolution=%r margin=%r, search_radius=%r, gps_noise=%r)" % (
        "track" if group == 1 else "collection of %d tracks cut from" % len(tracks),
        [[p[0], p[1]] for p in case["track"]], case["kind"], len(edges), case["resolution"], case["margin"], radius, case["gps_noise"])
    nobs = sum(len(b) for b in befores)
    try:
        mapOnNetwork(tracks[0] if group == 1 else TrackCollection(tracks), net, gps_noise=case["gps_noise"],
                     transition_cost=case["transition_cost"], search_radius=radius, debug=False)
    except Exception as e:
        tag = ""
        vx = _vertical_xs(edges)
        if isinstance(e, ZeroDivisionError) and any(p[0] in vx for p in case["track"]):
            tag = " (an observation has exactly the abscissa of a vertical-segment of the network)"
        return dict(failures=["mapOnNetwork raised %s: %s%s -- %s" % (type(e).__name__, e, tag, what)],
                    evaluations=nobs, nontrivial=nobs)
    fails, matched = [], 0
    for j, track in enumerate(tracks):
        f, m = _check_track(track, befores[j], objss[j], edges, radius, case,
                            what if group == 1 else "track %d of the %s" % (j, what))
        fails += f
        matched += m
    return dict(failures=fails[:5], evaluations=nobs, nontrivial=matched)


def _check_track(track, before, objs, edges, radius, case, what):
    fails = []
    # ---- the track keeps its observations
    after = _snapshot(track)
    if len(after) != len(before):
        fails.append("track has %d observations after matching, %d before -- %s" % (len(after), len(before), what))
    else:
        for k in range(len(before)):
            if after[k] != before[k]:
                fails.append("observation %d changed from %r to %r -- %s" % (k, before[k], after[k], what))
                break
            if track[k] is not objs[k]:
                fails.append("observation %d was replaced by another object -- %s" % (k, what))
                break
    scale = max(1.0, max(abs(v) for P in edges for p in P for v in p), max(max(abs(p[0]), abs(p[1])) for p in case["track"]))
    tol = 1e-9 * scale
    matched = 0
    for k in range(min(len(after), len(before))):
        try:
            s = track["hmm_inference", k]
        except Exception as e:
            fails.append("no 'hmm_inference' for observation %d (%s: %s) -- %s" % (k, type(e).__name__, e, what))
            break
        ox, oy = before[k][0], before[k][1]
        if not isinstance(s, (tuple, list)) or len(s) != 4:
            fails.append("observation %d: 'hmm_inference' is %r, not a (point, edge, d_source, d_target) tuple -- %s" % (k, s, what))
            continue
        p, e, ds, dt = s
        if isinstance(e, (int, float)) and e == -1:
            if not (ds == -1 and dt == -1):
                fails.append("observation %d flagged unmatched (edge -1) but distances are %r, %r -- %s" % (k, ds, dt, what))
            continue
        matched += 1
        if not isinstance(e, int) or isinstance(e, bool) or not (0 <= e < len(edges)):
            fails.append("observation %d matched to edge number %r, the network has edges 0..%d -- %s" % (k, e, len(edges) - 1, what))
            continue
        try:
            px, py = float(p.getX()), float(p.getY())
        except Exception as ex:
            fails.append("observation %d: matched point %r has no coordinates (%s) -- %s" % (k, p, type(ex).__name__, what))
            continue
        P = edges[e]
        L = poly_length(P)
        D = [seg_dist(P[i][0], P[i][1], P[i + 1][0], P[i + 1][1], px, py) for i in range(len(P) - 1)]
        if not (px == px and py == py) or min(D) > tol:
            fails.append("observation %d (%r,%r): matched point (%r,%r) is %.3g away from the geometry %r of its edge %d -- %s"
                         % (k, ox, oy, px, py, min(D), P, e, what))
            continue
        d = math.hypot(ox - px, oy - py)
        if d > radius + tol:
            fails.append("observation %d (%r,%r): matched point (%r,%r) on edge %d is %r away, search radius is %r -- %s"
                         % (k, ox, oy, px, py, e, d, radius, what))
        if not all(isinstance(v, (int, float)) and v == v for v in (ds, dt)):
            fails.append("observation %d: distances to the end nodes are %r, %r -- %s" % (k, ds, dt, what))
            continue
        if abs(ds + dt - L) > 4 * tol:
            fails.append("observation %d: distances to the end nodes %r + %r = %r, edge %d is %r long -- %s"
                         % (k, ds, dt, ds + dt, e, L, what))
        # arc length from the first vertex to the matched point, through any segment that carries the point
        cum = [0.0]
        for i in range(len(P) - 1):
            cum.append(cum[-1] + math.hypot(P[i + 1][0] - P[i][0], P[i + 1][1] - P[i][1]))
        cand = [cum[i] + math.hypot(px - P[i][0], py - P[i][1]) for i in range(len(P) - 1) if D[i] <= tol]
        if not any(abs(ds - a) <= 4 * tol and abs(dt - (L - a)) <= 4 * tol for a in cand):
            fails.append("observation %d: matched point (%r,%r) is at arc length %r of edge %d (length %r) but the distances to "
                         "source / target are %r / %r -- %s" % (k, px, py, cand[0], e, L, ds, dt, what))
    return fails, matched
