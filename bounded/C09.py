"""C09 bounded stand-in: HMM.estimate (Viterbi decoding) against full enumeration of all state sequences.

Oracle = the property statement written out: enumerate every sequence of the product of the per-epoch
candidate lists, compute its joint likelihood (product of observation and transition likelihoods) and
its log-cost, take the maximum / minimum.  No dynamic programme in the oracle."""
import itertools
import math
import random

ID = "C09"
BOUND = {
    "quick": "all models with T<=3 epochs, 1..2 states per epoch (sizes may differ), likelihoods in {0,0.5,1}, except "
             "shape (2,2,2) which is sampled (40000 of 3^14); 2500 random models T<=8, S<=5 per epoch "
             "(dyadic / real / zero-heavy / tie-heavy tables); 600 random models given directly as log values; "
             "each model decoded as likelihoods and again as logarithms",
    "thorough": "all models with T<=3 epochs, 1..2 states per epoch, likelihoods in {0,0.5,1} (5.2e6 models incl. all 3^14 "
                "of shape (2,2,2)); 40000 random models T<=8, S<=5; 10000 random log-valued models; "
                "each model decoded as likelihoods and again as logarithms"}
RULE = ("exhaustive case = block of consecutive base-3 codes of the (P,Q) tables of one shape; random case = one model "
        "(seeded); state labels are reused across epochs at different indices and tables depend on the epoch, so index/"
        "label or epoch mix-ups change the answer; non-trivial = model with >1 candidate sequence")
CHUNK = 20
BUDGET_S = {"quick": 75, "thorough": 1500}

VALS3 = [0.0, 0.5, 1.0]
BLOCK = 3000
EPS = 1e-300


# ----------------------------------------------------------------------------------------------
# model = dict(states=[[label,...] per epoch], P=[[p per state] per epoch], Q=[[[q per next state] per state] per epoch<T-1],
#              obs=[y per epoch])
# ----------------------------------------------------------------------------------------------
def shape_len(sizes):
    return sum(sizes) + sum(sizes[k] * sizes[k + 1] for k in range(len(sizes) - 1))


def labels_for(sizes):
    # epoch k uses labels (k+i) mod 3 : the same label sits at different indices in successive epochs
    return [[(k + i) % 3 for i in range(n)] for k, n in enumerate(sizes)]


def model_from_code(sizes, code, vals):
    b = len(vals)
    digs = []
    for _ in range(shape_len(sizes)):
        digs.append(vals[code % b])
        code //= b
    it = iter(digs)
    P = [[next(it) for _ in range(n)] for n in sizes]
    Q = [[[next(it) for _ in range(sizes[k + 1])] for _ in range(sizes[k])] for k in range(len(sizes) - 1)]
    return dict(states=labels_for(sizes), P=P, Q=Q, obs=[float(10 + 3 * k) for k in range(len(sizes))])


def all_shapes(tmax, smax):
    for t in range(1, tmax + 1):
        for sizes in itertools.product(range(1, smax + 1), repeat=t):
            yield list(sizes)


def cases(tier, seed):
    rnd = random.Random(seed)
    # 1. exhaustive small models
    for sizes in all_shapes(3, 2):
        total = 3 ** shape_len(sizes)
        if tier == "quick" and total > 500000:
            # sampled: 40000 codes in blocks of 2000 explicit codes
            for _ in range(20):
                yield dict(kind="exh", sizes=sizes, codes=sorted(rnd.randrange(total) for _ in range(2000)))
            continue
        for start in range(0, total, BLOCK):
            yield dict(kind="exh", sizes=sizes, start=start, count=min(BLOCK, total - start))
    # 2. random models given as likelihoods
    n_rand = 2500 if tier == "quick" else 40000
    for i in range(n_rand):
        yield dict(kind="rand", model=random_model(rnd, i), strlabels=bool(i % 3 == 0))
    # 3. random models given directly as log values (any real, ties from small integers)
    n_log = 600 if tier == "quick" else 10000
    for i in range(n_log):
        yield dict(kind="log", model=random_log_model(rnd, i))


def random_shape(rnd, i):
    # the enumeration is <= 5^8 sequences; most models are kept <= 6000 sequences so that many can be run,
    # every 40th may be as large as the bound allows (T = 8, S = 5 everywhere when i % 400 == 0)
    if i % 400 == 0:
        return [5] * 8
    cap = 400000 if i % 40 == 0 else 6000
    while True:
        T = 1 + (i % 8) if i < 64 else rnd.randint(1, 8)
        smax = rnd.choice([2, 3, 5, 5])
        sizes = [rnd.randint(1, smax) for _ in range(T)]
        n = 1
        for s in sizes:
            n *= s
        if n <= cap:
            return sizes


def random_labels(rnd, sizes):
    pool = list(range(7))
    return [rnd.sample(pool, n) for n in sizes]


def random_model(rnd, i):
    sizes = random_shape(rnd, i)
    flavour = i % 5
    if flavour == 0:
        draw = lambda: rnd.choice(VALS3)                                  # zeros + ties
    elif flavour == 1:
        draw = lambda: rnd.choice([0.0, 0.25, 0.5, 1.0, 2.0, 4.0])        # unnormalised dyadic: many product ties
    elif flavour == 2:
        draw = lambda: rnd.uniform(0.01, 1.0)                             # generic reals
    elif flavour == 3:
        draw = lambda: 0.0 if rnd.random() < 0.45 else rnd.choice([0.5, 1.0, rnd.uniform(0.05, 3.0)])   # zero-heavy
    else:
        draw = lambda: rnd.choice([0.5, 0.5, 0.5, 0.25, 1.0])             # tie-heavy, no zeros
    P = [[draw() for _ in range(n)] for n in sizes]
    Q = [[[draw() for _ in range(sizes[k + 1])] for _ in range(sizes[k])] for k in range(len(sizes) - 1)]
    return dict(states=random_labels(rnd, sizes), P=P, Q=Q, obs=[float(rnd.randint(-50, 50)) + 0.5 * k for k in range(len(sizes))])


def random_log_model(rnd, i):
    sizes = random_shape(rnd, i)
    if i % 2 == 0:
        draw = lambda: float(rnd.randint(-3, 3))
    else:
        draw = lambda: rnd.uniform(-8.0, 2.0)
    P = [[draw() for _ in range(n)] for n in sizes]
    Q = [[[draw() for _ in range(sizes[k + 1])] for _ in range(sizes[k])] for k in range(len(sizes) - 1)]
    return dict(states=random_labels(rnd, sizes), P=P, Q=Q, obs=[float(rnd.randint(-50, 50)) + 0.5 * k for k in range(len(sizes))])


# ----------------------------------------------------------------------------------------------
# oracle: plain enumeration
# ----------------------------------------------------------------------------------------------
def seq_factors(model, idx):
    P, Q = model["P"], model["Q"]
    f = [P[k][idx[k]] for k in range(len(idx))]
    f += [Q[k][idx[k]][idx[k + 1]] for k in range(len(idx) - 1)]
    return f


def enumerate_optimum(model, as_log):
    """-> (max joint likelihood or None, min cost) over all candidate sequences.
    cost of a sequence = -sum of log-likelihoods; a zero likelihood is floored at 1e-300 (documented in Plog/Qlog)."""
    sizes = [len(s) for s in model["states"]]
    best_l, best_c = None, None
    for idx in itertools.product(*[range(n) for n in sizes]):
        f = seq_factors(model, idx)
        if as_log:
            c = -math.fsum(f)
            l = None
        else:
            l = 1.0
            for x in f:
                l *= x
            c = -math.fsum(math.log(x + EPS) for x in f)
            if best_l is None or l > best_l:
                best_l = l
        if best_c is None or c < best_c:
            best_c = c
    return best_l, best_c


def close(a, b):
    return abs(a - b) <= 1e-9 * (1.0 + abs(a) + abs(b))


# ----------------------------------------------------------------------------------------------
# running the real decoder
# ----------------------------------------------------------------------------------------------
def decode(model, as_log, via_setters, strlabels, fails, tag):
    from tracklib.core.obs import Obs
    from tracklib.core.obs_time import ObsTime
    from tracklib import ENUCoords, Track
    from tracklib.algo.dynamics import HMM, MODE_OBS_AS_SCALAR, MODE_VERBOSE_NONE

    lab = (lambda s: "s%d" % s) if strlabels else (lambda s: s)
    states = [[lab(s) for s in row] for row in model["states"]]
    T = len(states)
    pos = [dict((s, i) for i, s in enumerate(row)) for row in states]
    yobs = model["obs"]
    misuse = []

    track = Track()
    for k in range(T):
        track.addObs(Obs(ENUCoords(float(k), 0.0, 0.0), ObsTime.readUnixTime(60.0 * k)))
    track.createAnalyticalFeature("yy", list(yobs))

    def S(t, k):
        return list(states[k])

    def P(s, y, k, t):
        if not (0 <= k < T) or s not in pos[k] or y != yobs[k]:
            misuse.append("P(s=%r, y=%r, k=%r) outside the model (epoch %r has states %r, observation %r)" % (
                s, y, k, k, states[k] if 0 <= k < T else None, yobs[k] if 0 <= k < T else None))
            return 0.0 if as_log else 1.0
        return model["P"][k][pos[k][s]]

    def Q(s1, s2, k, t):
        if not (0 <= k < T - 1) or s1 not in pos[k] or s2 not in pos[k + 1]:
            misuse.append("Q(s1=%r, s2=%r, k=%r) outside the model (S[k]=%r, S[k+1]=%r)" % (
                s1, s2, k, states[k] if 0 <= k < T else None, states[k + 1] if 0 <= k + 1 < T else None))
            return 0.0 if as_log else 1.0
        return model["Q"][k][pos[k][s1]][pos[k + 1][s2]]

    if via_setters:
        hmm = HMM()
        hmm.setStates(S)
        hmm.setTransitionModel(Q)
        hmm.setObservationModel(P)
        hmm.setLog(as_log)
    else:
        hmm = HMM(S, Q, P, log=as_log)
    try:
        hmm.estimate(track, "yy", mode=MODE_OBS_AS_SCALAR, verbose=MODE_VERBOSE_NONE)
        inf = [track.getObsAnalyticalFeature("hmm_inference", k) for k in range(T)]
        cost = [track.getObsAnalyticalFeature("hmm_cost", k) for k in range(T)]
    except Exception as e:  # any exception on an in-scope model is a failure
        fails.append("%s: estimate raised %s: %s" % (tag, type(e).__name__, e))
        return None
    if misuse:
        fails.append("%s: %s" % (tag, misuse[0]))
    idx = []
    for k in range(T):
        if inf[k] not in pos[k]:
            fails.append("%s: hmm_inference[%d] = %r is not a candidate of epoch %d %r" % (tag, k, inf[k], k, states[k]))
            return None
        idx.append(pos[k][inf[k]])
    return idx, cost


def show(model):
    return "states=%s P=%s Q=%s" % (model["states"], model["P"], model["Q"])


def check_model(model, strlabels=False, via_setters=False):
    """Decode `model` (likelihood tables) as likelihoods and as logarithms; -> list of failure strings."""
    fails = []
    T = len(model["states"])
    best_l, best_c = enumerate_optimum(model, as_log=False)
    # --- likelihood mode
    r = decode(model, False, via_setters, strlabels, fails, "log=False")
    if r is not None:
        idx, cost = r
        f = seq_factors(model, idx)
        l = 1.0
        for x in f:
            l *= x
        c = -math.fsum(math.log(x + EPS) for x in f)
        if l < best_l * (1 - 1e-9):
            fails.append("log=False: decoded indices %s have joint likelihood %r, the maximum over all sequences is %r" % (idx, l, best_l))
        elif c > best_c + 1e-9 * (1 + abs(best_c)):
            fails.append("log=False: decoded indices %s have cost %r, the minimum over all sequences is %r" % (idx, c, best_c))
        last = cost[T - 1]
        want = -math.log(best_l) if best_l > 0 else best_c
        if not (isinstance(last, (int, float)) and close(float(last), want) and close(float(last), best_c)):
            fails.append("log=False: hmm_cost[%d] = %r, optimal cost is %r (max likelihood %r)" % (T - 1, last, want, best_l))
    # --- the same model supplied as logarithms
    lm = dict(model)
    lm["P"] = [[math.log(x + EPS) for x in row] for row in model["P"]]
    lm["Q"] = [[[math.log(x + EPS) for x in row] for row in mat] for mat in model["Q"]]
    r = decode(lm, True, not via_setters, strlabels, fails, "log=True")
    if r is not None:
        idx, cost = r
        c = -math.fsum(seq_factors(lm, idx))
        if c > best_c + 1e-9 * (1 + abs(best_c)):
            fails.append("log=True: decoded indices %s have cost %r, the optimum is %r" % (idx, c, best_c))
        last = cost[T - 1]
        if not (isinstance(last, (int, float)) and close(float(last), best_c)):
            fails.append("log=True: hmm_cost[%d] = %r, optimal cost (same as with likelihoods) is %r" % (T - 1, last, best_c))
    if fails:
        fails = ["%s | %s" % (x, show(model)) for x in fails[:3]]
    return fails


def check_log_model(model):
    fails = []
    T = len(model["states"])
    _, best_c = enumerate_optimum(model, as_log=True)
    r = decode(model, True, False, False, fails, "log=True")
    if r is not None:
        idx, cost = r
        c = -math.fsum(seq_factors(model, idx))
        if c > best_c + 1e-9 * (1 + abs(best_c)):
            fails.append("log=True: decoded indices %s have cost %r, the minimum over all sequences is %r" % (idx, c, best_c))
        last = cost[T - 1]
        if not (isinstance(last, (int, float)) and close(float(last), best_c)):
            fails.append("log=True: hmm_cost[%d] = %r, optimal cost is %r" % (T - 1, last, best_c))
    if fails:
        fails = ["%s | %s" % (x, show(model)) for x in fails[:3]]
    return fails


def n_sequences(model):
    n = 1
    for s in model["states"]:
        n *= len(s)
    return n


def check_case(case):
    fails = []
    n_eval = 0
    n_nt = 0
    if case["kind"] == "exh":
        sizes = case["sizes"]
        codes = case["codes"] if "codes" in case else range(case["start"], case["start"] + case["count"])
        for code in codes:
            model = model_from_code(sizes, code, VALS3)
            f = check_model(model, strlabels=False, via_setters=bool(code & 1))
            n_eval += 1
            n_nt += 1 if n_sequences(model) > 1 else 0
            if f:
                fails += ["code %d: %s" % (code, x) for x in f]
                if len(fails) > 4:
                    break
    elif case["kind"] == "rand":
        model = case["model"]
        fails = check_model(model, strlabels=case.get("strlabels", False), via_setters=False)
        n_eval, n_nt = 1, (1 if n_sequences(model) > 1 else 0)
    elif case["kind"] == "log":
        model = case["model"]
        fails = check_log_model(model)
        n_eval, n_nt = 1, (1 if n_sequences(model) > 1 else 0)
    return dict(failures=fails, evaluations=n_eval, nontrivial=n_nt)
