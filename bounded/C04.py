"""C04 bounded stand-in: sequence operations on a Track select exactly the designated observations.

Every observation of a generated track is made recognisable: observation number j carries
x = 100 + j, y = -j, z = j / 2, feature 'tag' = 1000 + j and feature 'w' = j * j, and the time
BASE + ts[j] seconds.  The oracle of every operation is the plain list comprehension the
property statement describes, evaluated on the list of numbers 0..n-1; the result of the real
operation is read back through getObsList() / the feature table and compared field by field."""
import itertools
import random

ID = "C04"
BOUND = {
    "quick": "sort: all time vectors over 4 instants, sizes 0..6, + sorted/reversed/constant sizes 0..40, random with "
             "duplicates at sizes 8..128; insertObs(obs): all non-decreasing vectors over 4 instants, sizes 0..9, x all 9 "
             "instants before/between/equal/after, + distinct/constant/random-duplicate tracks of sizes 0..70 and 127..129, "
             "255..257 x all instants; extract: all (a,b), sizes 0..9,16,17; extractSpanTime: all vectors over 3 instants, sizes "
             "0..4, x all 49 (lo,hi) incl. reversed/empty, also with a track as span; +: all size pairs 0..6 x 4 feature "
             "set-ups (same table / none / other names / empty operand with table) and t + t; > and <: all k in 0..n, sizes 0..9,16,17; %: steps 1..n+1 and all boolean patterns of length 1..3, "
             "sizes 0..9,16,17; removeObsList: all 2^n index sets in 3 orders and removeObs(i), sizes 0..9",
    "thorough": "sort: all vectors over 4 instants sizes 0..8 and over n instants sizes 0..6, 3000 random sizes 0..200; "
                "insertObs(obs): all non-decreasing vectors over 6 instants sizes 0..11 x all 13 instants, distinct / "
                "constant / random-duplicate tracks of every size 0..200 and 255..257, 511..513 x all instants; extract: all "
                "(a,b) sizes 0..20,32,33; extractSpanTime: all vectors over 3 instants sizes 0..6 x 49 (lo,hi), over 4 "
                "instants sizes 0..5 x 81; +: all size pairs 0..10 x 4 set-ups; > and <: all k, sizes 0..20,32,33,64; %: steps "
                "1..n+1 and all boolean patterns of length 1..5, sizes 0..20,32,33,64; removeObsList: all 2^n index sets in 3 "
                "orders, sizes 0..13",
}
RULE = ("case = one track (given by its vector of integer instants) and one operation kind; the arguments of the "
        "operation (instants, index pairs, spans, steps, patterns, index sets) are enumerated exhaustively inside the case; "
        "all cases are non-trivial except size-0 tracks; tracks are distinct by (kind, instants, feature set-up)")
CHUNK = 60
BASE = 1600000000      # epoch second that the instant 0 of a case stands for
NAMES = ["tag", "w"]


# ------------------------------------------------------------------ specification side
def want(j, t, feat):
    """What observation number j with instant t must look like wherever it ends up."""
    return (100.0 + j, -1.0 * j, 0.5 * j, float(t), (1000 + j, j * j) if feat else ())


def default_ts(n):
    return [(i * 7) % 5 for i in range(n)]      # unsorted, with duplicates


# ------------------------------------------------------------------ case generation
def nondecreasing(values, n):
    return [list(c) for c in itertools.combinations_with_replacement(values, n)]


def cases(tier, seed):
    rnd = random.Random(seed)
    q = tier == "quick"
    # ---- index-based operations: exhaustive arguments on one track per size
    sizes = list(range(0, 10)) + [16, 17] if q else list(range(0, 21)) + [32, 33, 64]
    for n in sizes:
        for feat in (True, False):
            if n <= 33:
                yield dict(kind="extract", ts=default_ts(n), feat=feat)
            yield dict(kind="trim", ts=default_ts(n), feat=feat)
            yield dict(kind="mod", ts=default_ts(n), feat=feat, maxpat=3 if q else 5)
    nmax = 9 if q else 13
    for n in range(0, nmax + 1):
        total = 1 << n
        step = 512
        for lo in range(0, total, step):
            yield dict(kind="remove", ts=default_ts(n), feat=True, lo=lo, hi=min(total, lo + step))
        yield dict(kind="remove", ts=default_ts(n), feat=False, lo=0, hi=min(total, 64))
    nmax = 6 if q else 10
    for n1 in range(0, nmax + 1):
        for n2 in range(0, nmax + 1):
            for mode in ("same", "none", "diff", "emptyfeat"):
                yield dict(kind="add", n1=n1, n2=n2, mode=mode)
        yield dict(kind="add", n1=n1, n2=n1, mode="self")
    # ---- time-span extraction
    for alphabet, nmax in ([([0, 2, 4], 4)] if q else [([0, 2, 4], 6), ([0, 2, 4, 6], 5)]):
        for n in range(0, nmax + 1):
            for ts in itertools.product(alphabet, repeat=n):
                yield dict(kind="span", ts=list(ts), feat=(sum(ts) + n) % 3 != 0, top=alphabet[-1] + 1)
    # ---- sort
    for n in range(0, (6 if q else 8) + 1):
        for ts in itertools.product(range(4), repeat=n):
            yield dict(kind="sort", ts=list(ts), feat=True)
    if not q:
        for n in range(0, 7):
            for ts in itertools.product(range(n), repeat=n):
                if max(ts, default=0) >= 4:
                    yield dict(kind="sort", ts=list(ts), feat=n % 2 == 0)
    for n in range(0, 41 if q else 130):
        yield dict(kind="sort", ts=list(range(n)), feat=True)                       # already sorted
        yield dict(kind="sort", ts=list(range(n, 0, -1)), feat=True)                # reverse sorted
        yield dict(kind="sort", ts=[3] * n, feat=False)                             # one instant
        yield dict(kind="sort", ts=[i // 2 for i in range(n)][::-1], feat=True)     # reversed, pairs of duplicates
    for n in ([8, 16, 32, 64, 128] if q else [8, 16, 32, 64, 128, 256, 512]):
        for m in (n - 1, n, n + 1):
            for spread in (3, n // 2, 4 * n):
                yield dict(kind="sort", ts=[rnd.randrange(spread) for _ in range(m)], feat=True)
    for _ in range(0 if q else 3000):
        n = rnd.randrange(0, 201)
        spread = rnd.choice([2, 5, max(1, n // 2), max(1, n), 10 * n + 1])
        yield dict(kind="sort", ts=[rnd.randrange(spread) for _ in range(n)], feat=rnd.random() < 0.5)
    # ---- the float expression the deductive contract of __getInsertionIndex ASSUMES about (specs/C04.py, assume_stmt):
    #      2 ** (int(math.log(N) / math.log(2)) - 1) is an integer power of two, >= 1 and <= N / 2
    top = 1 << (17 if q else 22)
    for lo in range(2, top, 1 << 14):
        yield dict(kind="first_step", lo=lo, hi=min(top, lo + (1 << 14)))
    # (sizes below 2**47 only: from 2**48 - 1 observations on the float quotient rounds up; no track can be that long,
    #  and the deductive contract carries the same bound as a precondition)
    yield dict(kind="first_step", around=[(1 << e) + d for e in range(2, 48) for d in (-2, -1, 0, 1, 2) if 2 <= (1 << e) + d < (1 << 47)])
    # ---- chronological insertion (instants are even; odd instants fall strictly between)
    values = [0, 2, 4, 6] if q else [0, 2, 4, 6, 8, 10]
    for n in range(0, (9 if q else 11) + 1):
        for ts in nondecreasing(values, n):
            yield dict(kind="insert", ts=ts, feat=True, instants=list(range(-1, values[-1] + 2)))
    big = list(range(0, 71)) + [127, 128, 129, 255, 256, 257] if q else list(range(0, 201)) + [255, 256, 257, 511, 512, 513]
    for n in big:
        yield dict(kind="insert", ts=[2 * i for i in range(n)], feat=n % 2 == 0, instants=list(range(-1, 2 * n + 1)))
        yield dict(kind="insert", ts=[4] * n, feat=False, instants=[3, 4, 5])
        ts = sorted(2 * rnd.randrange(max(1, n // 3)) for _ in range(n))
        yield dict(kind="insert", ts=ts, feat=True, instants=list(range(-1, (ts[-1] if ts else 0) + 2)))
        ts = sorted(2 * rnd.randrange(3) for _ in range(n))                         # long runs of equal instants
        yield dict(kind="insert", ts=ts, feat=True, instants=list(range(-1, 6)))


def nontrivial(case):
    return len(case.get("ts", [1])) > 0


# ------------------------------------------------------------------ real side
class Lib:
    def __init__(self):
        from tracklib.core.obs import Obs
        from tracklib.core.obs_coords import ENUCoords
        from tracklib.core.obs_time import ObsTime
        from tracklib.core.track import Track
        self.Obs, self.ENUCoords, self.ObsTime, self.Track = Obs, ENUCoords, ObsTime, Track

    def time(self, t):
        return self.ObsTime.readUnixTime(BASE + t)

    def obs(self, j, t):
        return self.Obs(self.ENUCoords(100.0 + j, -1.0 * j, 0.5 * j), self.time(t))

    def track(self, ts, feat, off=0, names=NAMES):
        """Track whose observation number i is 'observation off+i'.  Features through the public API."""
        n = len(ts)
        tr = self.Track([self.obs(off + i, ts[i]) for i in range(n)])
        if feat and n > 0:
            tr.createAnalyticalFeature(names[0], [1000 + off + i for i in range(n)])
            tr.createAnalyticalFeature(names[1], [(off + i) * (off + i) for i in range(n)])
        return tr


def sig(o):
    p = o.position
    return (float(p.getX()), float(p.getY()), float(p.getZ()), round(o.timestamp.toAbsTime() - BASE, 3), tuple(o.features))


def sigs(track):
    return [sig(o) for o in track.getObsList()]


def snapshot(track):
    return ([id(o) for o in track.getObsList()], sigs(track), list(track.getListAnalyticalFeatures()))


def table_fail(res, names, exp):
    """The feature table of res must list `names` and give, per name, the values of the expected observations."""
    got = list(res.getListAnalyticalFeatures())
    if got != list(names):
        return "feature table %r, expected %r" % (got, list(names))
    for k, name in enumerate(names):
        try:
            col = list(res.getAnalyticalFeature(name))
        except Exception as e:      # noqa: BLE001
            return "feature %r unreadable: %s: %s" % (name, type(e).__name__, e)
        if col != [w[4][k] for w in exp]:
            return "feature %r = %r, expected %r" % (name, col, [w[4][k] for w in exp])
    return None


def brief(exp_or_got):
    """Readable rendering: observation numbers (x - 100) with their instants."""
    return [("#%g@%g" % (s[0] - 100, s[3])) for s in exp_or_got]


class Ctx:
    def __init__(self):
        self.fails = []
        self.n = 0

    def result(self, what, res, exp, names, src=None, before=None):
        """res (a Track) must hold exactly exp, in order, with the feature table; src must be as before."""
        self.n += 1
        if len(self.fails) > 4:
            return
        if res is None or not hasattr(res, "getObsList"):
            self.fails.append("%s returned %r" % (what, res))
            return
        got = sigs(res)
        if got != exp:
            self.fails.append("%s holds %s, expected %s%s" % (
                what, brief(got), brief(exp),
                "" if brief(got) != brief(exp) else " (same observations, other field values: %r vs %r)" % (got, exp)))
            return
        if names is not None:
            f = table_fail(res, names, exp)
            if f:
                self.fails.append("%s: %s" % (what, f))
        if src is not None and snapshot(src) != before:
            self.fails.append("%s modified its source track: now %s" % (what, brief(sigs(src))))

    def call(self, what, fn):
        try:
            return True, fn()
        except Exception as e:      # noqa: BLE001
            self.n += 1
            if len(self.fails) <= 4:
                self.fails.append("%s raised %s: %s" % (what, type(e).__name__, e))
            return False, None


def check_case(case):
    L = Lib()
    c = Ctx()
    kind = case["kind"]
    if kind == "add":
        check_add(L, c, case)
        return dict(failures=c.fails, evaluations=c.n, nontrivial=c.n if case["n1"] + case["n2"] else 0)
    if kind == "first_step":
        import math, inspect, ast as _ast
        # the expression is taken from the real source of Track.__getInsertionIndex on every run
        src = inspect.getsource(L.Track._Track__getInsertionIndex)
        rhs = [ln.split("=", 1)[1].strip() for ln in src.splitlines() if ln.strip().startswith("delta = 2 **")]
        if len(rhs) != 1:
            c.fails.append("the first-step statement `delta = 2 ** (...)` of __getInsertionIndex was not found: the assumption of the deductive contract has no counterpart")
            return dict(failures=c.fails, evaluations=1, nontrivial=1)
        code = compile(_ast.parse(rhs[0], mode="eval"), "<first-step>", "eval")
        for N in (case.get("around") or range(case["lo"], case["hi"])):
            c.n += 1
            delta = eval(code, {"math": math, "N": N, "int": int})
            if not (isinstance(delta, int) and delta >= 1 and delta & (delta - 1) == 0 and 2 * delta <= N):
                c.fails.append("first dichotomy step for N=%d is %r: not a power of two in [1, N/2]" % (N, delta))
        return dict(failures=c.fails, evaluations=c.n, nontrivial=c.n)
    ts, feat = case["ts"], case["feat"]
    n = len(ts)
    names = NAMES if (feat and n > 0) else []
    all_ = [want(j, ts[j], bool(names)) for j in range(n)]
    tag = "size %d instants %s" % (n, ts) if n <= 12 else "size %d" % n

    if kind == "sort":
        tr = L.track(ts, feat)
        ok, _ = c.call("sort() on %s" % tag, tr.sort)
        if ok:
            c.n += 1
            got = sigs(tr)
            if sorted(got) != sorted(all_):
                c.fails.append("sort() on %s: observations now %s, not a rearrangement of %s" % (tag, brief(got), brief(all_)))
            elif any(got[i][3] > got[i + 1][3] for i in range(n - 1)):
                c.fails.append("sort() on %s: instants after sorting %s are not non-decreasing" % (tag, [g[3] for g in got]))
            elif any(tr.getObs(i).timestamp > tr.getObs(i + 1).timestamp for i in range(n - 1)):
                c.fails.append("sort() on %s: timestamps compare as decreasing somewhere" % tag)
            else:
                f = table_fail(tr, names, got)
                if f:
                    c.fails.append("sort() on %s: %s" % (tag, f))

    elif kind == "insert":
        base_obs = [L.obs(j, ts[j]) for j in range(n)]
        if names:
            for j, o in enumerate(base_obs):
                o.features = [1000 + j, j * j]
        for t in case["instants"]:
            tr = L.Track(list(base_obs))       # observations carry their feature values; the list is fresh each time
            before = sigs(tr)
            new = L.obs(-1, t)
            new.features = [-1, -1] if names else []
            what = "insertObs(obs@%d) into %s" % (t, tag)
            ok, _ = c.call(what, lambda: tr.insertObs(new))
            if not ok:
                continue
            c.n += 1
            if len(c.fails) > 4:
                break
            lst = tr.getObsList()
            got = sigs(tr)
            pos = [i for i, o in enumerate(lst) if o is new]
            if len(lst) != n + 1 or len(pos) != 1:
                c.fails.append("%s: track now %s (new observation found %d times)" % (what, brief(got), len(pos)))
            elif got[:pos[0]] + got[pos[0] + 1:] != before:
                c.fails.append("%s: the other observations became %s, were %s" % (what, brief(got), brief(before)))
            elif any(got[i][3] > got[i + 1][3] for i in range(n)):
                c.fails.append("%s: track no longer sorted: instants %s" % (what, [g[3] for g in got][:40]))
            elif got[pos[0]] != want(-1, t, False)[:4] + ((-1, -1) if names else (),):
                c.fails.append("%s: inserted observation reads %r" % (what, got[pos[0]]))

    elif kind == "extract":
        tr = L.track(ts, feat)
        before = snapshot(tr)
        pairs = [(a, b) for a in range(0, n + 1) for b in range(-1, n) if (b >= 0 or a == 0) and (a < n or b == n - 1)]
        for a, b in pairs:
            what = "extract(%d, %d) on %s" % (a, b, tag)
            ok, res = c.call(what, lambda: tr.extract(a, b))
            if ok:
                c.result(what, res, [all_[i] for i in range(n) if a <= i <= b], names, tr, before)

    elif kind == "trim":
        tr = L.track(ts, feat)
        before = snapshot(tr)
        for k in range(0, n + 1):
            what = "(track > %d) on %s" % (k, tag)
            ok, res = c.call(what, lambda: tr > k)
            if ok:
                c.result(what, res, [all_[i] for i in range(n) if i >= k], names, tr, before)
            what = "(track < %d) on %s" % (k, tag)
            ok, res = c.call(what, lambda: tr < k)
            if ok:
                c.result(what, res, [all_[i] for i in range(n) if i < n - k], names, tr, before)

    elif kind == "mod":
        tr = L.track(ts, feat)
        before = snapshot(tr)
        for k in range(1, n + 2):
            what = "(track %% %d) on %s" % (k, tag)
            ok, res = c.call(what, lambda: tr % k)
            if ok:
                c.result(what, res, [all_[i] for i in range(n) if i % k == 0], names, tr, before)
        for m in range(1, case["maxpat"] + 1):
            for pat in itertools.product([False, True], repeat=m):
                for as_int in (False, True):
                    p = [int(v) for v in pat] if as_int else list(pat)
                    arg = list(p)
                    what = "(track %% %r) on %s" % (p, tag)
                    ok, res = c.call(what, lambda: tr % arg)
                    if ok:
                        c.result(what, res, [all_[i] for i in range(n) if pat[i % m]], names, tr, before)
                        if arg != p:
                            c.fails.append("%s changed the pattern list to %r" % (what, arg))

    elif kind == "remove":
        for mask in range(case["lo"], case["hi"]):
            idx = [i for i in range(n) if mask >> i & 1]
            orders = [idx, idx[::-1], idx[1::2] + idx[0::2]]
            for o, order in enumerate(orders):
                if o > 0 and len(idx) < 2:
                    continue
                tr = L.track(ts, feat)
                what = "removeObsList(%r) on %s" % (order, tag)
                ok, _ = c.call(what, lambda: tr.removeObsList(list(order)))
                if ok:
                    c.result(what, tr, [all_[i] for i in range(n) if i not in idx], names)
            if len(idx) == 1:
                tr = L.track(ts, feat)
                what = "removeObs(%d) on %s" % (idx[0], tag)
                ok, _ = c.call(what, lambda: tr.removeObs(idx[0]))
                if ok:
                    c.result(what, tr, [all_[i] for i in range(n) if i != idx[0]], names)

    elif kind == "span":
        tr = L.track(ts, feat)
        before = snapshot(tr)
        inst = list(range(-1, case["top"] + 1))
        for lo in inst:
            for hi in inst:
                a, b = min(lo, hi), max(lo, hi)
                exp = [all_[i] for i in range(n) if a <= ts[i] <= b]
                what = "extractSpanTime(%d, %d) on %s" % (lo, hi, tag)
                ok, res = c.call(what, lambda: tr.extractSpanTime(L.time(lo), L.time(hi)))
                if ok:
                    c.result(what, res, exp, names, tr, before)
                if (lo + 2 * hi) % 3 == 0:       # the span given as a track: from its first to its last timestamp
                    span = L.Track([L.obs(50, lo), L.obs(51, (lo + hi) // 2), L.obs(52, hi)])
                    what = "extractSpanTime(track from %d to %d) on %s" % (lo, hi, tag)
                    ok, res = c.call(what, lambda: tr.extractSpanTime(span))
                    if ok:
                        c.result(what, res, exp, names, tr, before)
    else:
        c.fails.append("unknown case kind %r" % kind)
    return dict(failures=c.fails, evaluations=c.n, nontrivial=c.n if n else 0)


def check_add(L, c, case):
    n1, n2, mode = case["n1"], case["n2"], case["mode"]
    ts1 = default_ts(n1)
    ts2 = [(i * 3 + 1) % 4 for i in range(n2)]
    f1 = n1 > 0 and mode != "none"
    t1 = L.track(ts1, f1)
    e1 = [want(j, ts1[j], f1) for j in range(n1)]
    if mode == "self":
        t2, e2 = t1, e1
    elif mode == "same":
        f2 = n2 > 0
        t2 = L.track(ts2, f2, off=20)
        e2 = [want(20 + j, ts2[j], f2) for j in range(n2)]
    elif mode == "none":
        t2 = L.track(ts2, False, off=20)
        e2 = [want(20 + j, ts2[j], False) for j in range(n2)]
    elif mode == "diff":       # same values under other feature names: the tables differ
        f2 = n2 > 0
        t2 = L.track(ts2, f2, off=20, names=["tag", "other"])
        e2 = [want(20 + j, ts2[j], f2) for j in range(n2)]
    else:                       # "emptyfeat": an empty operand that still has the feature table (as extract/%/> produce)
        f2 = n2 > 0
        t2 = L.track(ts2, f2, off=20)
        e2 = [want(20 + j, ts2[j], f2) for j in range(n2)]
        for t, n in ((t1, n1), (t2, n2)):
            if n == 0:
                t._Track__analyticalFeaturesDico = {NAMES[0]: 0, NAMES[1]: 1}
    names1 = list(t1.getListAnalyticalFeatures())
    names2 = list(t2.getListAnalyticalFeatures())
    # the table is demanded on the result when both operands have the same one (DESIGN 6/C04)
    names = names1 if names1 == names2 else None
    b1, b2 = snapshot(t1), snapshot(t2)
    what = "track(size %d, features %r) + track(size %d, features %r)" % (n1, names1, n2, names2)
    ok, res = c.call(what, lambda: t1 + t2)
    if ok:
        c.result(what, res, e1 + e2, names, t1, b1)
        if snapshot(t2) != b2:
            c.fails.append("%s modified its right operand" % what)
        if names is None and hasattr(res, "getListAnalyticalFeatures") and not c.fails:
            # different tables: whatever table the result shows must not attribute foreign values to an observation
            for name in res.getListAnalyticalFeatures():
                own = [(e[4][names1.index(name)] if name in names1 else "absent") for e in e1]
                own += [(e[4][names2.index(name)] if name in names2 else "absent") for e in e2]
                try:
                    col = list(res.getAnalyticalFeature(name))
                except Exception as e:      # noqa: BLE001
                    col = "%s: %s" % (type(e).__name__, e)
                if col != own:
                    c.fails.append("%s: result lists feature %r with values %r, the observations' own values are %r"
                                   % (what, name, col, own))
