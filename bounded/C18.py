"""C18 bounded stand-in: DTW / FDTW / discrete Frechet matching against enumeration of all monotone couplings.

Oracle = the statement written out: every coupling (lattice path from the first pair to the last pair advancing by
one step in either or both tracks) is enumerated by plain recursion, its accumulated cost (sum of d^p, or max d for
p = infinity) is computed from the coordinates, and the minimum is taken.  No dynamic programme in the oracle."""
import math
import random

ID = "C18"
INF = float("inf")
BOUND = {
    "quick": "unordered pairs of tracks, both orders run, p in {1,2,inf}: all pairs of sizes 1..4 on the 1-D lattice {0,1,2} "
             "(one of dim 1/2/3 per pair); all pairs of sizes 1..3 on {0,1}^2 (dim 2) + 3000 sampled pairs with a size-4 track; "
             "4000 sampled pairs of sizes 1..3 on {0,1,2}^2 (dim 2); 2000 sampled pairs of sizes 1..3 on {0,1}^3 (dim 3); "
             "1500 random pairs of sizes 1..7 (integer / half-integer / real coordinates, dim 1-3)",
    "thorough": "unordered pairs of tracks, both orders run, p in {1,2,inf}: all pairs of sizes 1..4 on the 1-D lattice {0,1,2} "
                "in each of dim 1, 2, 3; all pairs of sizes 1..4 on {0,1}^2 (dim 2); all pairs of sizes 1..3 on {0,1,2}^2 (dim 2); "
                "all pairs of sizes 1..3 on {0,1}^3 (dim 3, one p per pair); 20000 random pairs of sizes 1..8"}
RULE = ("lattice case = one track against every track of one size (only b >= a when sizes are equal); an evaluation = one "
        "(pair, p, dim): DTW and FDTW in both orders, (FRECHET mode and compare for p=inf) against the enumeration; ignored "
        "coordinates (E,N for dim 1, U for dim 2) carry junk; non-trivial = both tracks have >= 2 fixes")
CHUNK = 8
BUDGET_S = {"quick": 75, "thorough": 1500}
PS = [1, 2, "inf"]

LATTICES = {
    "1d3": [(0,), (1,), (2,)],
    "2d2": [(x, y) for x in range(2) for y in range(2)],
    "2d3": [(x, y) for x in range(3) for y in range(3)],
    "3d2": [(x, y, z) for x in range(2) for y in range(2) for z in range(2)],
}


def track_from_code(lat, size, code):
    pts = LATTICES[lat]
    out = []
    for _ in range(size):
        out.append(pts[code % len(pts)])
        code //= len(pts)
    return out


def embed(lat, pts, dim, salt):
    """lattice points -> (E, N, U) triples for the requested distance dimension; ignored components carry junk"""
    out = []
    for k, p in enumerate(pts):
        junk = float((7 * k + 3 * salt) % 11) - 5.0
        if lat == "1d3":
            v = float(p[0])
            if dim == 1:
                out.append((junk, -junk, v))
            elif dim == 2:
                out.append((v, 0.0, junk) if salt % 2 else (0.0, v, junk))
            else:
                out.append((v, 0.0, 0.0) if salt % 3 == 0 else ((0.0, 0.0, v) if salt % 3 == 1 else (v, v, v)))
        elif lat in ("2d2", "2d3"):
            out.append((float(p[0]), float(p[1]), junk))
        else:
            out.append((float(p[0]), float(p[1]), float(p[2])))
    return out


def cases(tier, seed):
    rnd = random.Random(seed)
    thorough = tier == "thorough"

    def lattice_cases(lat, smax, dims, ps):
        n_pts = len(LATTICES[lat])
        for n1 in range(1, smax + 1):
            for n2 in range(n1, smax + 1):
                for a in range(n_pts ** n1):
                    yield dict(kind="lat", lat=lat, n1=n1, n2=n2, a=a, dims=dims, ps=ps)

    # 1-D lattice, sizes 1..4
    for c in lattice_cases("1d3", 4, [1, 2, 3] if thorough else "rot", PS):
        yield c
    # {0,1}^2
    for c in lattice_cases("2d2", 4 if thorough else 3, [2], PS):
        yield c
    if not thorough:
        for _ in range(300):
            n1 = rnd.randint(1, 4)
            yield dict(kind="latpairs", lat="2d2", dim=2, ps=PS,
                       pairs=[[n1, rnd.randrange(4 ** n1), 4, rnd.randrange(256)] for _ in range(10)])
    # {0,1,2}^2, sizes 1..3
    if thorough:
        for c in lattice_cases("2d3", 3, [2], PS):
            yield c
    else:
        for _ in range(400):
            yield dict(kind="latpairs", lat="2d3", dim=2, ps=PS, pairs=[rand_pair(rnd, 9, 3) for _ in range(10)])
    # {0,1}^3, sizes 1..3
    if thorough:
        for c in lattice_cases("3d2", 3, [3], "rot"):
            yield c
    else:
        for _ in range(200):
            yield dict(kind="latpairs", lat="3d2", dim=3, ps=PS, pairs=[rand_pair(rnd, 8, 3) for _ in range(10)])
    # random
    nmax = 8 if thorough else 7
    for i in range(20000 if thorough else 1500):
        yield random_case(rnd, i, nmax)


def rand_pair(rnd, n_pts, smax):
    n1, n2 = rnd.randint(1, smax), rnd.randint(1, smax)
    if rnd.random() < 0.6:
        n1, n2 = smax, smax
    return [n1, rnd.randrange(n_pts ** n1), n2, rnd.randrange(n_pts ** n2)]


def random_case(rnd, i, nmax):
    if i % 10 == 0:
        n1, n2 = rnd.randint(nmax - 1, nmax), rnd.randint(nmax - 1, nmax)
    else:
        n1, n2 = rnd.randint(1, nmax - 1), rnd.randint(1, nmax - 1)
    flavour = i % 4
    if flavour == 0:
        c = lambda: float(rnd.randint(0, 3))                 # integer lattice: many ties
    elif flavour == 1:
        c = lambda: rnd.randint(-4, 4) / 2.0                 # half-integers
    elif flavour == 2:
        c = lambda: round(rnd.uniform(-10, 10), 2)
    else:
        c = lambda: rnd.uniform(-100, 100)
    dim = 1 + (i // 4) % 3
    mk = lambda n: [(c(), c(), c()) for _ in range(n)]
    if flavour == 0 and i % 8 == 0:
        # zig-zag tracks: the classical tie pattern (alternating 0/1)
        t1 = [(float(k % 2),) * 3 for k in range(n1)]
        t2 = [(float((k + 1) % 2),) * 3 for k in range(n2)]
    else:
        t1, t2 = mk(n1), mk(n2)
    return dict(kind="rand", t1=t1, t2=t2, dim=dim, p=PS[(i // 12) % 3])


# ----------------------------------------------------------------------------------------------
# oracle
# ----------------------------------------------------------------------------------------------
def dist(a, b, dim):
    if dim == 1:
        return abs(a[2] - b[2])
    if dim == 2:
        return math.sqrt((a[0] - b[0]) ** 2 + (a[1] - b[1]) ** 2)
    return math.sqrt((a[0] - b[0]) ** 2 + (a[1] - b[1]) ** 2 + (a[2] - b[2]) ** 2)


def accumulate(acc, d, p):
    return max(acc, d) if p == INF else acc + d ** p


def best_coupling_cost(t1, t2, p, dim):
    """minimum accumulated cost over ALL couplings, by exhaustive recursion (no memoisation, no pruning)"""
    n1, n2 = len(t1), len(t2)
    D = [[dist(t1[j], t2[i], dim) for i in range(n2)] for j in range(n1)]
    best = [None]

    def rec(j, i, acc):
        acc = accumulate(acc, D[j][i], p)
        if j == n1 - 1 and i == n2 - 1:
            if best[0] is None or acc < best[0]:
                best[0] = acc
            return
        if j + 1 < n1:
            rec(j + 1, i, acc)
        if i + 1 < n2:
            rec(j, i + 1, acc)
        if j + 1 < n1 and i + 1 < n2:
            rec(j + 1, i + 1, acc)
    rec(0, 0, 0.0)
    return best[0]


def close(a, b):
    return abs(a - b) <= 1e-9 * (1.0 + abs(a) + abs(b))


# ----------------------------------------------------------------------------------------------
# running the real code
# ----------------------------------------------------------------------------------------------
def make_track(pts):
    from tracklib.core.obs import Obs
    from tracklib.core.obs_time import ObsTime
    from tracklib import ENUCoords, Track
    t = Track()
    for k, (x, y, z) in enumerate(pts):
        t.addObs(Obs(ENUCoords(x, y, z), ObsTime.readUnixTime(float(k))))
    return t


def check_matching(m, a, b, p, dim, opt, what):
    """m = result of match(track(a), track(b)); a, b = coordinate lists -> failure strings"""
    fails = []
    n1, n2 = len(a), len(b)
    try:
        score = float(m.score)
        nb = m.nb_links
        pair = [list(m.getObsAnalyticalFeature("pair", j)) for j in range(n1)]
        size = m.size()
    except Exception as e:
        return ["%s: cannot read score / pair / nb_links: %s: %s" % (what, type(e).__name__, e)]
    if not close(score, opt):
        fails.append("%s: score %r, minimum over all couplings is %r" % (what, score, opt))
    if size != n1:
        fails.append("%s: matching has %d observations for a track of %d" % (what, size, n1))
    links = sorted((j, int(i)) for j in range(n1) for i in pair[j])
    n_links = sum(len(x) for x in pair)
    ok = True
    if any(len(x) == 0 for x in pair):
        fails.append("%s: an observation of the first track has no link: pair=%r" % (what, pair))
        ok = False
    if set(i for _, i in links) != set(range(n2)):
        fails.append("%s: observations %r of the second track are not linked (or unknown indices): pair=%r" % (
            what, sorted(set(range(n2)) ^ set(i for _, i in links)), pair))
        ok = False
    if ok:
        if links[0] != (0, 0) or links[-1] != (n1 - 1, n2 - 1):
            fails.append("%s: coupling does not start at the first pair and end at the last pair: pair=%r" % (what, pair))
            ok = False
        elif any((links[t + 1][0] - links[t][0], links[t + 1][1] - links[t][1]) not in ((1, 0), (0, 1), (1, 1))
                 for t in range(len(links) - 1)):
            fails.append("%s: links are not a monotone coupling advancing by single steps: pair=%r" % (what, pair))
            ok = False
    if nb != n_links:
        fails.append("%s: nb_links = %r but %d links are recorded in pair=%r" % (what, nb, n_links, pair))
    if ok:
        acc = 0.0
        for j, i in links:
            acc = accumulate(acc, dist(a[j], b[i], dim), p)
        if not close(acc, score):
            fails.append("%s: returned coupling %r accumulates %r, reported score is %r (optimum %r)" % (what, links, acc, score, opt))
    return fails


def check_pair(a, b, p, dim):
    """all clauses for one unordered pair of coordinate lists; p in (1, 2, inf)"""
    from tracklib.algo.comparison import (match, compare, MODE_MATCHING_DTW, MODE_MATCHING_FDTW, MODE_MATCHING_FRECHET,
                                          MODE_COMPARISON_FRECHET)
    fails = []
    opt = best_coupling_cost(a, b, p, dim)
    opt_rev = best_coupling_cost(b, a, p, dim)
    if not close(opt, opt_rev):
        fails.append("oracle: optimum differs when the tracks are swapped (%r / %r)" % (opt, opt_rev))
    pname = "inf" if p == INF else str(p)
    scores = {}
    for order, (x, y) in (("t1,t2", (a, b)), ("t2,t1", (b, a))):
        tx, ty = make_track(x), make_track(y)
        runs = [("DTW", MODE_MATCHING_DTW, p), ("FDTW", MODE_MATCHING_FDTW, p)]
        if p == INF:
            runs.append(("FRECHET", MODE_MATCHING_FRECHET, 1))
        for name, mode, pp in runs:
            what = "match(%s, %s, p=%s, dim=%d)" % (order, name, pname, dim)
            try:
                m = match(tx, ty, mode, p=pp, dim=dim, verbose=False)
            except Exception as e:
                fails.append("%s raised %s: %s" % (what, type(e).__name__, e))
                continue
            fails += check_matching(m, x, y, p, dim, opt, what)
            try:
                scores[(order, name)] = float(m.score)
            except Exception:
                pass
        if p == INF:
            what = "compare(%s, FRECHET, dim=%d)" % (order, dim)
            try:
                v = float(compare(tx, ty, MODE_COMPARISON_FRECHET, dim=dim, verbose=False))
                if not close(v, opt):
                    fails.append("%s = %r, discrete Frechet distance (min over couplings of the max distance) is %r" % (what, v, opt))
            except Exception as e:
                fails.append("%s raised %s: %s" % (what, type(e).__name__, e))
    for name in ("DTW", "FDTW", "FRECHET"):
        if ("t1,t2", name) in scores and ("t2,t1", name) in scores and not close(scores[("t1,t2", name)], scores[("t2,t1", name)]):
            fails.append("%s p=%s dim=%d: score %r, but %r with the tracks swapped" % (name, pname, dim, scores[("t1,t2", name)], scores[("t2,t1", name)]))
    if ("t1,t2", "DTW") in scores and ("t1,t2", "FDTW") in scores and not close(scores[("t1,t2", "DTW")], scores[("t1,t2", "FDTW")]):
        fails.append("p=%s dim=%d: FDTW score %r differs from DTW score %r" % (pname, dim, scores[("t1,t2", "FDTW")], scores[("t1,t2", "DTW")]))
    if fails:
        fails = ["%s | t1=%s t2=%s" % (f, a, b) for f in fails[:4]]
    return fails


def P(p):
    return INF if p == "inf" else p


def check_case(case):
    fails = []
    n_eval = n_nt = 0
    kind = case["kind"]
    if kind == "lat":
        lat, n1, n2, a = case["lat"], case["n1"], case["n2"], case["a"]
        ta = track_from_code(lat, n1, a)
        n_pts = len(LATTICES[lat])
        for b in range(a if n1 == n2 else 0, n_pts ** n2):
            tb = track_from_code(lat, n2, b)
            dims = case["dims"] if case["dims"] != "rot" else [1 + (a + b) % 3]
            ps = case["ps"] if case["ps"] != "rot" else [PS[(a + b) % 3]]
            for dim in dims:
                ea, eb = embed(lat, ta, dim, a + b), embed(lat, tb, dim, a + b + 1)
                for p in ps:
                    f = check_pair(ea, eb, P(p), dim)
                    n_eval += 1
                    n_nt += 1 if (n1 > 1 and n2 > 1) else 0
                    fails += f
            if len(fails) > 4:
                break
    elif kind == "latpairs":
        lat, dim = case["lat"], case["dim"]
        for n1, a, n2, b in case["pairs"]:
            ea = embed(lat, track_from_code(lat, n1, a), dim, a + b)
            eb = embed(lat, track_from_code(lat, n2, b), dim, a + b + 1)
            for p in case["ps"]:
                fails += check_pair(ea, eb, P(p), dim)
                n_eval += 1
                n_nt += 1 if (n1 > 1 and n2 > 1) else 0
    elif kind == "rand":
        a, b = [tuple(x) for x in case["t1"]], [tuple(x) for x in case["t2"]]
        fails = check_pair(a, b, P(case["p"]), case["dim"])
        n_eval, n_nt = 1, (1 if len(a) > 1 and len(b) > 1 else 0)
    return dict(failures=fails[:5], evaluations=n_eval, nontrivial=n_nt)
