"""C05 bounded stand-in: linear resampling (temporal and spatial) against the piecewise-linear interpolant.

Oracle = the property statement written out directly: for every requested instant t with
T[0] < t <= T[-1] the point a + (t-T[i-1])/(T[i]-T[i-1])*(b-a) on the bracketing pair of fixes
(found by a plain scan), stamped t to the millisecond; for the spatial mode the first fix followed
by the points of the 2-D polyline at abscissas ds, 2ds, ... <= L with height and time interpolated
with the same weight.  Times are handled by the harness as integer milliseconds since the epoch and
converted with `datetime`/`calendar` (never with tracklib's own conversions).

Float honesty: a case is flagged `exact` when every quantity the code manipulates is a small dyadic
rational (timestamps on multiples of 250 ms, steps multiples of 1/8, Pythagorean moves on a 1/4 grid)
so that the number of samples is unambiguous and demanded exactly -- this is where "step divides the
duration / the length" is tested strictly.  For the other cases (millisecond timestamps, decimal steps)
the count is demanded exactly unless extent/step is within float noise of an integer, where both
neighbouring counts are accepted; an exception is never accepted."""
import calendar
import datetime
import math
import random

ID = "C05"
BOUND = {
    "quick": "all 2-fix and 3-fix exact tracks on a small grid x all dyadic steps (960 temporal, 1119 spatial cases); "
             "3000 random temporal cases (2..8 fixes, step / list / reference track / npts / factor, 5 epochs incl. "
             "year and leap-day crossings); 2500 random spatial cases (2..8 fixes, repeated positions, exact and "
             "decimal geometry); about 400 straight/L-shaped tracks whose decimal length is a nominal multiple of one of 40 decimal ds (batched per ds)",
    "thorough": "same exhaustive part; 300000 random temporal and 250000 random spatial cases with 2..12 fixes; "
                "every decimal (L, ds) pair L = 0.01..30.00 (step 0.01 up to 3, then 0.1) x 40 decimal ds where ds "
                "nominally divides L (1952 straight / L-shaped tracks, batched per ds)",
}
RULE = ("case = one track (list of [x, y, z, t_ms]) + one request (numeric step / list of instants / reference "
        "track / npts / factor) + mode; seeded random.Random; non-trivial = at least one sample is expected in "
        "the output; distinct by the JSON of the case")
CHUNK = 60
EPOCH = datetime.datetime(1970, 1, 1)

# base instants (ms since epoch): 1970, leap day 2000, 2020, New Year 2025, end of Feb 2023 (non leap)
BASES = [1000_000, 951_782_390_000, 1_600_000_000_000, 1_735_689_590_000, 1_677_628_790_000]
EXACT_GAPS = [250, 500, 750, 1000, 1000, 1500, 2000, 3000, 5000, 10000]
EXACT_STEPS = [0.25, 0.5, 0.75, 1, 1.0, 1.25, 1.5, 2, 2.0, 2.5, 3, 4, 5, 7, 10]
DEC_STEPS = [0.05, 0.1, 0.2, 0.3, 0.4, 0.6, 0.7, 0.9, 1.1, 1.3, 2.3, 3.7, 0.15, 0.35, 1, 2, 3]
# exact spatial moves on a 1/4 grid (2-D length is an exact double), (0, 0) = repeated position
MOVES = [(3, 4), (4, 3), (-3, 4), (3, -4), (-4, -3), (5, 0), (0, 5), (-5, 0), (0, -5), (1, 0), (0, 2), (0, -1),
         (6, 8), (-8, 6), (5, 12), (-12, 5), (8, 15), (0, 0), (0, 0), (0.75, 1), (-1, 0.75), (1.5, 2), (0.25, 0)]
EXACT_DS = [0.25, 0.5, 0.75, 1, 1.0, 1.25, 2, 2.5, 3, 4, 5, 6.5, 7, 10, 13]
DEC_DS = [0.01, 0.02, 0.03, 0.05, 0.07, 0.1, 0.11, 0.13, 0.15, 0.17, 0.2, 0.21, 0.23, 0.25, 0.3, 0.33, 0.35, 0.37,
          0.4, 0.45, 0.5, 0.55, 0.6, 0.7, 0.75, 0.8, 0.9, 1.1, 1.2, 1.3, 1.4, 1.5, 1.7, 1.9, 2.1, 2.3, 2.7, 2.9,
          3.1, 3.3]


# ---------------------------------------------------------------------------------------------------------
# case generation
# ---------------------------------------------------------------------------------------------------------
def _coords(rnd, exact):
    if exact:
        return [rnd.randint(-40, 40) / 4.0 for _ in range(3)]
    return [round(rnd.uniform(-10, 10), 3) for _ in range(3)]


def _temporal_track(rnd, nmax, exact):
    n = rnd.choice([2, 2, 3, 3, 4, 5, 6, 8, nmax][:7 if nmax <= 8 else 9])
    n = min(n, nmax)
    t = rnd.choice(BASES)
    fixes = []
    prev = None
    for i in range(n):
        if prev is not None and rnd.random() < 0.25:
            p = list(prev)                                   # repeated position
        else:
            p = _coords(rnd, exact)
        fixes.append(p + [t])
        prev = p
        t += rnd.choice(EXACT_GAPS) if exact else rnd.randint(50, 5000)
    return fixes


def _instants(rnd, fixes, exact):
    t0, t1 = fixes[0][3], fixes[-1][3]
    q = 250 if exact else 1
    pool = [t0, t1, t0 - q, t0 + q, t1 - q, t1 + q, t0 - 3000, t1 + 3000]
    pool += [f[3] for f in fixes]
    out = []
    for _ in range(rnd.randint(0, 9)):
        r = rnd.random()
        if r < 0.45:
            out.append(rnd.choice(pool))
        else:
            out.append(t0 - 2000 + q * rnd.randrange(0, (t1 - t0 + 4000) // q + 1))
    if rnd.random() < 0.2 and out:
        out.append(rnd.choice(out))                         # duplicate request
    return sorted(out)


def _temporal_case(rnd, nmax):
    exact = rnd.random() < 0.5
    fixes = _temporal_track(rnd, nmax, exact)
    dur = (fixes[-1][3] - fixes[0][3]) / 1000.0
    r = rnd.random()
    if r < 0.40:
        step = rnd.choice(EXACT_STEPS) if exact else rnd.choice(DEC_STEPS)
        if rnd.random() < 0.15:
            step = dur if exact else round(dur / rnd.randint(1, 6), 3)   # divides the duration (nominally)
        if rnd.random() < 0.08:
            step = dur + rnd.choice([0.25, 1, 5])                          # no sample at all
        while dur / step > 150:
            step *= 2
        req = dict(type="step", step=step)
    elif r < 0.65:
        req = dict(type="list", ms=_instants(rnd, fixes, exact))
    elif r < 0.85:
        ms = sorted(set(_instants(rnd, fixes, exact))) or [fixes[0][3] + 250]
        req = dict(type="track", ms=ms)
    elif r < 0.93:
        req = dict(type="npts", npts=rnd.randint(1, 12))
    else:
        req = dict(type="factor", factor=rnd.randint(1, 3))
    return dict(kind="temporal", exact=exact, fixes=fixes, req=req,
                api=rnd.choice(["method", "method", "function"]))


def _spatial_track(rnd, nmax, exact):
    n = min(nmax, rnd.choice([2, 2, 3, 3, 4, 5, 6, 8, nmax]))
    t = rnd.choice(BASES)
    x, y, z = _coords(rnd, exact)
    fixes = [[x, y, z, t]]
    for i in range(1, n):
        if exact:
            dx, dy = rnd.choice(MOVES)
            k = rnd.choice([0.25, 0.5, 1, 1, 1, 2])
            x, y = x + k * dx, y + k * dy
            z = rnd.randint(-8, 8) / 4.0
        else:
            if rnd.random() < 0.2:
                pass                                        # repeated 2-D position (height may change)
            else:
                x, y = round(x + rnd.uniform(-5, 5), 3), round(y + rnd.uniform(-5, 5), 3)
            z = round(rnd.uniform(-3, 3), 3)
        t += rnd.choice(EXACT_GAPS) if exact else rnd.randint(50, 5000)
        fixes.append([x, y, z, t])
    if all(f[0] == fixes[0][0] and f[1] == fixes[0][1] for f in fixes):
        fixes[-1][0] += 5.0                                  # keep a positive length
    return fixes


def _len2d(fixes):
    return sum(math.hypot(b[0] - a[0], b[1] - a[1]) for a, b in zip(fixes, fixes[1:]))


def _spatial_case(rnd, nmax):
    exact = rnd.random() < 0.5
    fixes = _spatial_track(rnd, nmax, exact)
    L = _len2d(fixes)
    r = rnd.random()
    if r < 0.85:
        ds = rnd.choice(EXACT_DS) if exact else rnd.choice(DEC_DS + [round(rnd.uniform(0.05, 6), 3)])
        if rnd.random() < 0.15:
            ds = L / rnd.choice([1, 2, 4, 8]) if exact else round(L / rnd.randint(1, 7), 3)
        if rnd.random() < 0.06:
            ds = L + rnd.choice([0.25, 1, 5])
        while L / ds > 150:
            ds *= 2
        req = dict(type="step", step=ds)
    elif r < 0.94:
        req = dict(type="npts", npts=rnd.randint(1, 12))
    else:
        req = dict(type="factor", factor=rnd.randint(1, 3))
    return dict(kind="spatial", exact=exact, fixes=fixes, req=req,
                api=rnd.choice(["method", "method", "function"]))


def _exhaustive():
    t0 = BASES[2]
    # temporal: 2 and 3 fixes, every gap pattern from a small set, every dyadic step
    for gaps in [(g,) for g in (250, 1000, 1500, 3000)] + [(a, b) for a in (250, 1000, 1500, 3000) for b in (500, 1000, 2000, 2500)]:
        for pos in (0, 1, 2):
            pts = [[(0, 0, 0), (4, -2, 1), (1, 6, -3)], [(1, 1, 1), (1, 1, 1), (5, 3, 2)], [(-2, 0, 4), (6, 8, 0), (6, 8, 0)]][pos]
            fixes, t = [], t0
            for i in range(len(gaps) + 1):
                fixes.append(list(pts[i]) + [t])
                if i < len(gaps):
                    t += gaps[i]
            dur = (fixes[-1][3] - t0) / 1000.0
            for step in (0.25, 0.5, 0.75, 1, 1.25, 1.5, 2, 2.5, 3, 5):
                if dur / step <= 40:
                    yield dict(kind="temporal", exact=True, fixes=fixes, req=dict(type="step", step=step), api="method")
            grid = list(range(t0 - 500, fixes[-1][3] + 750, 250))
            yield dict(kind="temporal", exact=True, fixes=fixes, req=dict(type="list", ms=grid), api="method")
            yield dict(kind="temporal", exact=True, fixes=fixes, req=dict(type="track", ms=grid), api="method")
            for npts in (1, 2, 3, 5):
                yield dict(kind="temporal", exact=True, fixes=fixes, req=dict(type="npts", npts=npts), api="method")
    # spatial: 2 and 3 fixes from exact moves, every dyadic ds
    small = [(3, 4), (0, 5), (-4, 3), (1, 0), (0, 0), (6, 8), (0.75, 1), (0, -2)]
    shapes = [(m,) for m in small if m != (0, 0)] + [(a, b) for a in small for b in small if (a, b) != ((0, 0), (0, 0))]
    for shape in shapes:
        x, y, t = 1.0, -2.0, t0
        fixes = [[x, y, 0.5, t]]
        for i, (dx, dy) in enumerate(shape):
            x, y, t = x + dx, y + dy, t + (1500, 1000)[i]
            fixes.append([x, y, (2.0, -1.0)[i], t])
        L = _len2d(fixes)
        for ds in (0.25, 0.5, 1, 1.25, 2, 2.5, 3, 5, 10, L, L / 2, L / 4):
            if L / ds <= 60:
                yield dict(kind="spatial", exact=True, fixes=fixes, req=dict(type="step", step=ds), api="method")
        for npts in (1, 2, 3, 5):
            yield dict(kind="spatial", exact=True, fixes=fixes, req=dict(type="npts", npts=npts), api="method")


def _nominal_fixes(L, shape):
    t0 = BASES[2]
    if shape == 0:
        return [[0.0, 0.0, 0.0, t0], [L, 0.0, 1.0, t0 + 10000]]
    if shape == 1:
        return [[0.0, 0.0, 0.0, t0], [0.0, round(L / 2, 3), 1.0, t0 + 4000], [0.0, L, -1.0, t0 + 10000]]
    a = round(L / 4, 2)
    return [[1.0, 1.0, 0.0, t0], [1.0 + a, 1.0, 2.0, t0 + 3000], [1.0 + a, 1.0 + round(L - a, 2), 0.0, t0 + 10000]]


def _nominal_multiples(tier, rnd):
    """Straight / L-shaped tracks whose decimal length is (nominally) a multiple of the decimal ds:
    k*ds may exceed the cumulated abscissa of the last fix by one ulp.  One batch case per ds (so that this
    family yields at most len(DEC_DS) failing cases); every failure string names its own (track, ds)."""
    if tier == "quick":
        lens = sorted({rnd.randint(1, 3000) / 100.0 for _ in range(1200)})
    else:
        lens = [i / 100.0 for i in range(1, 301)] + [i / 10.0 for i in range(31, 301)]
    for ds in DEC_DS:
        sel = []
        for L in lens:
            m = round(L / ds)
            if 1 <= m <= 150 and abs(m * ds - L) <= 1e-9:
                sel.append(L)
        if tier == "quick":
            sel = sel[:12]
        if sel:
            yield dict(kind="spatial_nominal", ds=ds, lengths=sel)


def cases(tier, seed):
    rnd = random.Random(seed)
    for c in _exhaustive():
        yield c
    # three single, readable members of the "nominal multiple" family (the batches come last)
    for L, ds in ((0.63, 0.07), (7.7, 1.1), (2.6, 1.3)):
        yield dict(kind="spatial_nominal", ds=ds, lengths=[L])     # = straight track (0,0) -> (L,0), step ds
    nt, ns, nmax = (3000, 2500, 8) if tier == "quick" else (300000, 250000, 12)
    nominal = list(_nominal_multiples(tier, random.Random(seed + 1)))
    for i in range(max(nt, ns)):
        if i < nt:
            yield _temporal_case(rnd, nmax)
        if i < ns:
            yield _spatial_case(rnd, nmax)
    for c in nominal:
        yield c


# ---------------------------------------------------------------------------------------------------------
# oracle helpers (plain Python, integer milliseconds)
# ---------------------------------------------------------------------------------------------------------
def _fields(ms):
    d = EPOCH + datetime.timedelta(milliseconds=ms)
    return d.year, d.month, d.day, d.hour, d.minute, d.second, d.microsecond // 1000


def _ms_of(t):
    """integer ms since the epoch of a tracklib ObsTime, through the calendar module"""
    return calendar.timegm((t.year, t.month, t.day, t.hour, t.min, t.sec, 0, 0, 0)) * 1000 + t.ms


def _lerp(a, b, w):
    return a + w * (b - a)


def _temporal_expect(fixes, rel_s, terr):
    """point of the piecewise-linear interpolant at rel_s seconds after the first fix (0 < rel_s <= duration),
    and for each coordinate the largest |slope| over the segments that meet [rel_s - terr, rel_s + terr]"""
    T = [(f[3] - fixes[0][3]) / 1000.0 for f in fixes]
    pos, slope = None, [0.0, 0.0, 0.0]
    for i in range(1, len(fixes)):
        a, b = fixes[i - 1], fixes[i]
        if T[i - 1] < rel_s <= T[i]:
            w = (rel_s - T[i - 1]) / (T[i] - T[i - 1])
            pos = [_lerp(a[k], b[k], w) for k in range(3)]
        if T[i - 1] - terr <= rel_s <= T[i] + terr:
            slope = [max(slope[k], abs(b[k] - a[k]) / (T[i] - T[i - 1])) for k in range(3)]
    return pos, slope


def _count_options(extent, step, exact, slack):
    """admissible numbers of samples k*step, k >= 1, with k*step <= extent"""
    if exact:                                        # all values are small dyadic rationals: no rounding anywhere
        from fractions import Fraction
        return [int(Fraction(extent) // Fraction(step))]
    q = extent / step
    m = round(q)
    if abs(q - m) <= slack * max(1.0, q):            # float noise decides whether the m-th sample still fits
        return sorted({max(m - 1, 0), m})
    return [int(math.floor(q))]


def _spatial_candidates(fixes, s, eps):
    """everything the statement allows at abscissa s: (point [x, y, z, t_ms], dz/ds, dt/ds) for the lerp on
    every segment containing s (several when s falls on a vertex), and the pairs of fixes of zero-length
    segments located at s (repeated position: any height / time between the two fixes is on the polyline)"""
    S = [0.0]
    for a, b in zip(fixes, fixes[1:]):
        S.append(S[-1] + math.hypot(b[0] - a[0], b[1] - a[1]))
    pts, ranges = [], []
    for i in range(1, len(fixes)):
        a, b = fixes[i - 1], fixes[i]
        d = S[i] - S[i - 1]
        if d > 0:
            if S[i - 1] - eps <= s <= S[i] + eps:
                w = min(1.0, max(0.0, (s - S[i - 1]) / d))
                pts.append(([_lerp(a[k], b[k], w) for k in range(4)], abs(b[2] - a[2]) / d, abs(b[3] - a[3]) / d))
        elif abs(S[i] - s) <= eps:
            ranges.append((a, b))
    return pts, ranges, S


def _dist_to_polyline(fixes, x, y):
    best = float("inf")
    for a, b in zip(fixes, fixes[1:]):
        ux, uy = b[0] - a[0], b[1] - a[1]
        uu = ux * ux + uy * uy
        w = 0.0 if uu == 0 else min(1.0, max(0.0, ((x - a[0]) * ux + (y - a[1]) * uy) / uu))
        best = min(best, math.hypot(x - (a[0] + w * ux), y - (a[1] + w * uy)))
    return best


# ---------------------------------------------------------------------------------------------------------
# running the real code
# ---------------------------------------------------------------------------------------------------------
def _build(fixes):
    from tracklib.core.obs_time import ObsTime
    from tracklib.core import Obs, ENUCoords
    from tracklib.core.track import Track
    tr = Track()
    for x, y, z, ms in fixes:
        tr.addObs(Obs(ENUCoords(x, y, z), ObsTime(*_fields(ms))))
    return tr


def _run(case):
    from tracklib.core.obs_time import ObsTime
    import tracklib.algo.interpolation as itp
    fixes, req = case["fixes"], case["req"]
    mode = itp.MODE_TEMPORAL if case["kind"] == "temporal" else itp.MODE_SPATIAL
    tr = _build(fixes)
    tr.createAnalyticalFeature("mark", list(range(len(fixes))))
    if req["type"] == "step":
        arg = req["step"]
    elif req["type"] == "list":
        arg = [ObsTime(*_fields(ms)) for ms in req["ms"]]
    elif req["type"] == "track":
        arg = _build([[float(i), 0.0, 0.0, ms] for i, ms in enumerate(req["ms"])])
    else:
        arg = None
    if arg is None:
        if req["type"] == "npts":
            tr.resample(mode=mode, npts=req["npts"])
        else:
            tr.resample(mode=mode, factor=req["factor"])
    elif case["api"] == "function":
        itp.resample(tr, arg, itp.ALGO_LINEAR, mode)
    else:
        tr.resample(arg, mode=mode)
    out = [[o.position.getX(), o.position.getY(), o.position.getZ(), _ms_of(o.timestamp)] for o in tr]
    feats = [len(o.features) for o in tr]
    return out, feats, list(tr.getListAnalyticalFeatures()), len(tr)


def _describe(case):
    r = case["req"]
    what = {"step": "step %r" % r.get("step"), "list": "instants(ms-t0) %s" % [m - case["fixes"][0][3] for m in r.get("ms", [])],
            "track": "reference track(ms-t0) %s" % [m - case["fixes"][0][3] for m in r.get("ms", [])],
            "npts": "npts=%r" % r.get("npts"), "factor": "factor=%r" % r.get("factor")}[r["type"]]
    return "%s resample(%s) of %s" % (case["kind"], what, [[f[0], f[1], f[2], f[3] - case["fixes"][0][3]] for f in case["fixes"]])


def _ulp(x):
    return math.ulp(x)


def check_case(case):
    if case["kind"] == "spatial_nominal":
        fails, n_eval, bad = [], 0, 0
        for j, L in enumerate(case["lengths"]):
            sub = dict(kind="spatial", exact=False, fixes=_nominal_fixes(L, j % 3), req=dict(type="step", step=case["ds"]), api="method")
            r = check_case(sub)
            n_eval += r["evaluations"]
            if r["failures"]:
                bad += 1
                if len(fails) < 4:
                    fails += r["failures"][:1]
        if bad:
            fails.append("%d of %d tracks of nominal length k*%r failed" % (bad, len(case["lengths"]), case["ds"]))
        return dict(failures=fails, evaluations=n_eval, nontrivial=len(case["lengths"]))
    fixes, req = case["fixes"], case["req"]
    fails = []
    head = _describe(case)
    try:
        out, feats, afs, size = _run(case)
    except BaseException as e:                      # any escape (IndexError, ZeroDivisionError, SystemExit...)
        if isinstance(e, KeyboardInterrupt):
            raise
        tag = ""
        if isinstance(e, IndexError) and case["kind"] == "spatial" and req["type"] == "step":
            L = _len2d(fixes)
            m = round(L / req["step"])
            if m >= 1 and abs(m * req["step"] - L) <= 1e-9 * (1.0 + L):   # length is a multiple of ds up to float noise
                tag = " [abscissa-overshoot: %d*ds = %r vs 2-D length %r]" % (m, m * req["step"], L)
        return dict(failures=["%s raised %s: %s%s" % (head, type(e).__name__, e, tag)], evaluations=1, nontrivial=1)

    # feature table reset by the Track.resample front end (the module-level function is not the front end)
    if (afs and case["api"] == "method") or any(feats):
        fails.append("%s: analytical features after resampling = %s, per-obs feature lengths %s" % (head, afs, feats[:6]))
    if size != len(out):
        fails.append("%s: len(track)=%d but %d observations iterated" % (head, size, len(out)))

    t0 = fixes[0][3]
    dur = (fixes[-1][3] - t0) / 1000.0
    exact = bool(case.get("exact"))
    scale = 1.0 + max(abs(v) for f in fixes for v in f[:3])
    abs_ulp = _ulp(fixes[-1][3] / 1000.0)            # resolution of epoch seconds as a double

    if case["kind"] == "temporal":
        # ---- requested instants, in seconds after the first fix -----------------------------------
        loose = 0.0
        if req["type"] in ("list", "track"):
            want = [(ms - t0) / 1000.0 for ms in req["ms"] if t0 < ms <= fixes[-1][3]]
            options = [len(want)]
        else:
            if req["type"] == "step":
                step = float(req["step"])
                slack = 0.0 if exact else 4 * (dur / step + 2) * abs_ulp / step + 1e-12
            else:
                npts = req["npts"] if req["type"] == "npts" else len(fixes) * req["factor"]
                step = dur / npts                     # "resampled regularly with npts points"
                slack, exact, loose = 1e-7, False, dur * 2e-8
            options = _count_options(dur, step, exact, slack)
            want = [k * step for k in range(1, max(options) + 1)]
        if len(out) not in options:
            fails.append("%s returned %d observations, expected %s (instants in (first, last])" % (head, len(out), " or ".join(map(str, options))))
        n_eval = max(1, len(want))
        for k, (got, r) in enumerate(zip(out, want)):
            r = min(r, dur)
            terr = (k + 6) * abs_ulp + loose                   # error on the instant as seen by the code
            pos, slope = _temporal_expect(fixes, r, terr)
            if pos is None:
                continue
            if abs(got[3] - (t0 + r * 1000.0)) > 1.0 + 1e-3 + terr * 1000:
                fails.append("%s: observation %d is stamped %+d ms from the first fix, requested instant is %+.3f ms" % (head, k, got[3] - t0, r * 1000))
                break
            for c in range(3):
                tol = 1e-9 * scale + 2 * slope[c] * terr
                if not abs(got[c] - pos[c]) <= tol:
                    fails.append("%s: observation %d (t=%+.3f s) has %s=%r, linear interpolation gives %r" % (head, k, r, "xyz"[c], got[c], pos[c]))
                    break
            if fails:
                break
        for a, b in zip(out, out[1:]):
            if b[3] < a[3]:
                fails.append("%s: output timestamps decrease (%d ms then %d ms after the first fix)" % (head, a[3] - t0, b[3] - t0))
                break
        return dict(failures=fails, evaluations=n_eval, nontrivial=1 if want else 0)

    # ---- spatial -------------------------------------------------------------------------------------
    L = _len2d(fixes)
    loose = 0.0
    if req["type"] == "step":
        ds = float(req["step"])
        slack = 0.0 if exact else 1e-9
    else:
        npts = req["npts"] if req["type"] == "npts" else len(fixes) * req["factor"]
        L3 = sum(math.sqrt(sum((b[k] - a[k]) ** 2 for k in range(3))) for a, b in zip(fixes, fixes[1:]))
        ds = L3 / npts                                # total (3-D) length of the track over npts
        slack, exact, loose = 1e-7, False, 2e-8
    options = _count_options(L, ds, exact, slack)
    if len(out) - 1 not in options:
        fails.append("%s returned %d observations, expected first fix + %s samples (2-D length %r)" % (head, len(out), " or ".join(map(str, options)), L))
    if out:
        f0 = fixes[0]
        if any(abs(out[0][c] - f0[c]) > 1e-12 * scale for c in range(3)) or abs(out[0][3] - f0[3]) > 1:
            fails.append("%s: first observation is %s, the first fix is %s" % (head, out[0][:3] + [out[0][3] - t0], f0[:3] + [0]))
    n_eval = max(1, len(out) - 1)
    for k in range(1, len(out)):
        if fails:
            break
        got = out[k]
        s = min(k * ds, L)
        serr = 1e-11 * (1.0 + L) + loose * k * ds          # uncertainty on the abscissa of sample k
        pts, ranges, S = _spatial_candidates(fixes, s, serr)
        ptol = 1e-9 * scale + 2 * serr
        dist = _dist_to_polyline(fixes, got[0], got[1])
        if not dist <= ptol:
            fails.append("%s: observation %d (%r, %r) is %.3g away from the polyline" % (head, k, got[0], got[1], dist))
            break
        ok = False
        for p, dz, dt in pts:
            if (abs(got[0] - p[0]) <= ptol and abs(got[1] - p[1]) <= ptol and abs(got[2] - p[2]) <= ptol + 2 * dz * serr
                    and abs(got[3] - p[3]) <= 1.001 + 2 * dt * serr):
                ok = True
        for a, b in ranges:
            if (abs(got[0] - a[0]) <= ptol and abs(got[1] - a[1]) <= ptol
                    and min(a[2], b[2]) - ptol <= got[2] <= max(a[2], b[2]) + ptol
                    and min(a[3], b[3]) - 1.001 <= got[3] <= max(a[3], b[3]) + 1.001):
                ok = True
        if not ok:
            exp = pts[0][0] if pts else None
            fails.append("%s: observation %d = %s (t in ms after first fix) but the polyline point at abscissa %r is %s" % (
                head, k, got[:3] + [got[3] - t0], s, (exp[:3] + [round(exp[3] - t0, 3)]) if exp else "undefined"))
    for a, b in zip(out, out[1:]):
        if b[3] < a[3]:
            fails.append("%s: output timestamps decrease (%d ms then %d ms after the first fix)" % (head, a[3] - t0, b[3] - t0))
            break
    return dict(failures=fails, evaluations=n_eval, nontrivial=1 if len(out) > 1 or max(options) > 0 else 0)
