"""C14 bounded stand-in: coordinate conversions (geographic <-> ECEF <-> local ENU, Lambert-93, whole tracks).

Oracle = the WGS84 closed forms written out here (a, f, N = a/sqrt(1-e2 sin^2 phi)), the definition of the
east/north/up unit vectors of the geodetic normal frame, and the identity (round trip) itself.  Tolerances are
the ones of the statement: 1e-9 degree on angles, 1 mm on lengths."""
import math
import random

ID = "C14"
BOUND = {
    "quick": "lattice 13 lon (incl. +-180, 0) x 17 lat (incl. 0, +-89.9, +-89) x 5 heights (-1000..10000) x 8 bases "
             "+ 3000 seeded random (point, base) + 1500 local ENU vectors + 1200 Lambert-93 points + 250 tracks",
    "thorough": "lattice 49 lon (every 7.5 deg, incl. +-180) x 45 lat x 8 heights x 12 bases (= 2.1e5 point/base pairs) "
                "+ 100000 seeded random (point, base) + 30000 local ENU vectors + 30000 Lambert-93 points + 6000 tracks",
}
RULE = ("case = one latitude row x one base (lattice), or a batch of 50 seeded-random items; every point/base is "
        "in lon [-180,180], lat [-89.9,89.9], h [-1000,10000]; Lambert-93 points in lon [-6,10.5], lat [41,52]; "
        "tracks have 1..6 such points; all cases non-trivial")
CHUNK = 20

A = 6378137.0
F = 1.0 / 298.257223563
B = A * (1.0 - F)
E2 = 1.0 - (B * B) / (A * A)          # = f(2-f), written from the semi-axes

TOL_DEG = 1e-9
TOL_M = 1e-3
TOL_CF = 1e-6      # agreement with the closed form (floating-point noise is ~1e-9 m)
TOL_ZERO = 1e-9    # "the local coordinates of the base are (0,0,0)"


# ----------------------------------------------------------------------------------------------
# specification
# ----------------------------------------------------------------------------------------------
def spec_ecef(lon, lat, h):
    la, ph = math.radians(lon), math.radians(lat)
    n = A / math.sqrt(1.0 - E2 * math.sin(ph) ** 2)
    return ((n + h) * math.cos(ph) * math.cos(la), (n + h) * math.cos(ph) * math.sin(la),
            ((B * B) / (A * A) * n + h) * math.sin(ph))


def spec_enu(p, base):
    """ENU of geographic p in the geodetic normal frame at geographic base: dot products with the unit vectors."""
    P, Q = spec_ecef(*p), spec_ecef(*base)
    d = (P[0] - Q[0], P[1] - Q[1], P[2] - Q[2])
    la, ph = math.radians(base[0]), math.radians(base[1])
    east = (-math.sin(la), math.cos(la), 0.0)
    north = (-math.sin(ph) * math.cos(la), -math.sin(ph) * math.sin(la), math.cos(ph))
    up = (math.cos(ph) * math.cos(la), math.cos(ph) * math.sin(la), math.sin(ph))
    return tuple(sum(a * b for a, b in zip(v, d)) for v in (east, north, up))


def dlon(a, b):
    return abs((a - b + 180.0) % 360.0 - 180.0)


def geo_diff(g, p):
    """(angular error in degrees, height error in m) between a GeoCoords and a (lon, lat, h) triple."""
    return max(dlon(g.lon, p[0]), abs(g.lat - p[1])), abs(g.hgt - p[2])


def vec_diff(c, v):
    return max(abs(c.getX() - v[0]), abs(c.getY() - v[1]), abs(c.getZ() - v[2]))


# ----------------------------------------------------------------------------------------------
# cases
# ----------------------------------------------------------------------------------------------
def lattice(tier):
    if tier == "quick":
        lons = [-180.0, -179.999999, -135.0, -90.0, -45.0, -1e-7, 0.0, 1e-7, 45.0, 90.0, 135.0, 179.999999, 180.0]
        lats = [-89.9, -89.0, -75.0, -60.0, -45.0, -30.0, -15.0, -1e-7, 0.0, 1e-7, 15.0, 30.0, 45.0, 60.0, 75.0, 89.0, 89.9]
        hs = [-1000.0, 0.0, 123.456, 4807.0, 10000.0]
        bases = [(0.0, 0.0, 0.0), (2.35, 48.85, 35.0), (180.0, 0.0, 10000.0), (-180.0, -45.0, -1000.0),
                 (-70.5, -89.9, 0.0), (139.7, 89.9, 2800.0), (-122.4, 37.8, 12.5), (179.999999, 66.5, 100.0)]
    else:
        lons = [-180.0 + 7.5 * k for k in range(49)]
        lats = [-89.9, -89.5, -89.0, -88.0] + [-85.0 + 5.0 * k for k in range(17)] + [-1e-7, 1e-7] \
            + [5.0 * k for k in range(1, 18)] + [88.0, 89.0, 89.5, 89.9] + [-0.001]
        hs = [-1000.0, -0.001, 0.0, 0.001, 123.456, 4807.0, 8848.0, 10000.0]
        bases = [(0.0, 0.0, 0.0), (2.35, 48.85, 35.0), (180.0, 0.0, 10000.0), (-180.0, -45.0, -1000.0),
                 (-70.5, -89.9, 0.0), (139.7, 89.9, 2800.0), (-122.4, 37.8, 12.5), (179.999999, 66.5, 100.0),
                 (-179.999999, -66.5, 5000.0), (90.0, 0.0, 0.0), (-90.0, 23.4, 7777.7), (45.0, -45.0, -431.0)]
    return lons, lats, hs, bases


def rnd_geo(rnd):
    kind = rnd.random()
    if kind < 0.1:
        lon = rnd.choice([-180.0, 180.0]) + rnd.choice([0.0, 1e-9, 1e-6, 1e-3]) * rnd.choice([0, 1])
        lon = max(-180.0, min(180.0, lon if lon <= 180 else 360.0 - lon))
    else:
        lon = rnd.uniform(-180.0, 180.0)
    if kind > 0.9:
        lat = rnd.choice([-1, 1]) * rnd.uniform(89.0, 89.9)
    elif kind > 0.8:
        lat = rnd.uniform(-1e-3, 1e-3)
    else:
        lat = rnd.uniform(-89.9, 89.9)
    return (lon, lat, rnd.uniform(-1000.0, 10000.0))


def rnd_l93(rnd):
    return (rnd.uniform(-6.0, 10.5), rnd.uniform(41.0, 52.0), rnd.uniform(-1000.0, 10000.0))


def cases(tier, seed):
    rnd = random.Random(seed)
    lons, lats, hs, bases = lattice(tier)
    for lat in lats:
        for b in bases:
            yield dict(kind="row", lat=lat, lons=lons, hs=hs, base=list(b))
    n_pair, n_enu, n_l93, n_trk = (3000, 1500, 1200, 250) if tier == "quick" else (100000, 30000, 30000, 6000)
    for _ in range(n_pair // 50):
        yield dict(kind="pairs", items=[[list(rnd_geo(rnd)), list(rnd_geo(rnd))] for _ in range(50)])
    for _ in range(n_enu // 50):
        items = []
        for _ in range(50):
            s = rnd.choice([1.0, 100.0, 1e4, 1e5, 1e6])
            items.append([[rnd.uniform(-s, s), rnd.uniform(-s, s), rnd.uniform(-s, s) / 10], list(rnd_geo(rnd))])
        yield dict(kind="enu", items=items)
    yield dict(kind="l93", items=[[3.0, 46.5, 0.0], [3.0, 46.5, 250.0], [-6.0, 41.0, 0.0], [10.5, 52.0, 10000.0],
                                  [-6.0, 52.0, -1000.0], [10.5, 41.0, 0.0], [3.0, 41.0, 0.0], [3.0, 52.0, 0.0],
                                  [2.3488, 48.8534, 35.0]])
    for _ in range(n_l93 // 50):
        yield dict(kind="l93", items=[list(rnd_l93(rnd)) for _ in range(50)])
    for k in range(n_trk):
        n = rnd.choice([1, 2, 3, 4, 6])
        if k % 3 == 0:   # a local track (a few km around its first point, inside the Lambert-93 domain)
            o = rnd_l93(rnd)
            pts = [[min(10.5, max(-6.0, o[0] + rnd.uniform(-.05, .05))), min(52.0, max(41.0, o[1] + rnd.uniform(-.05, .05))),
                    min(10000.0, max(-1000.0, o[2] + rnd.uniform(-50, 50)))] for _ in range(n)]
            l93 = True
        else:
            pts = [list(rnd_geo(rnd)) for _ in range(n)]
            l93 = False
        yield dict(kind="track", pts=pts, base=list(rnd_geo(rnd)), base2=list(rnd_geo(rnd)), l93=l93,
                   base_in_track=bool(k % 4 == 0))


# ----------------------------------------------------------------------------------------------
# checks
# ----------------------------------------------------------------------------------------------
def check_point(p, b, fails):
    """All point-level clauses for geographic point p and geographic base b.  Returns #evaluations."""
    from tracklib.core.obs_coords import GeoCoords, ECEFCoords, ENUCoords
    tag = "p=%r base=%r: " % (tuple(p), tuple(b))
    g = GeoCoords(p[0], p[1], p[2])
    base = GeoCoords(b[0], b[1], b[2])
    # closed form
    x = g.toECEFCoords()
    want = spec_ecef(*p)
    if not isinstance(x, ECEFCoords) or vec_diff(x, want) > TOL_CF:
        fails.append(tag + "GeoCoords.toECEFCoords = (%r,%r,%r), WGS84 closed form %r" % (x.getX(), x.getY(), x.getZ(), want))
    if (g.lon, g.lat, g.hgt) != tuple(p):
        fails.append(tag + "toECEFCoords modified its receiver")
    # geographic -> ECEF -> geographic
    gg = x.toGeoCoords()
    da, dh = geo_diff(gg, p)
    if not isinstance(gg, GeoCoords) or da > TOL_DEG or dh > TOL_M:
        fails.append(tag + "Geo->ECEF->Geo = (%r,%r,%r): off by %.3g deg, %.3g m" % (gg.lon, gg.lat, gg.hgt, da, dh))
    # ECEF built from the closed form -> geographic (independent of the forward code)
    gg = ECEFCoords(*want).toGeoCoords()
    da, dh = geo_diff(gg, p)
    if da > TOL_DEG or dh > TOL_M:
        fails.append(tag + "ECEFCoords(closed form).toGeoCoords = (%r,%r,%r): off by %.3g deg, %.3g m" % (gg.lon, gg.lat, gg.hgt, da, dh))
    # geographic -> ENU(base): agrees with the definition of the east/north/up frame, and comes back
    for bname, bobj in (("geo base", base), ("ecef base", ECEFCoords(*spec_ecef(*b)))):
        e = g.toENUCoords(bobj)
        want_enu = spec_enu(p, b)
        if not isinstance(e, ENUCoords) or vec_diff(e, want_enu) > TOL_M:
            fails.append(tag + "Geo.toENUCoords(%s) = (%r,%r,%r), frame definition gives %r" % (bname, e.E, e.N, e.U, want_enu))
        gg = e.toGeoCoords(bobj)
        da, dh = geo_diff(gg, p)
        if not isinstance(gg, GeoCoords) or da > TOL_DEG or dh > TOL_M:
            fails.append(tag + "Geo->ENU->Geo (%s) = (%r,%r,%r): off by %.3g deg, %.3g m" % (bname, gg.lon, gg.lat, gg.hgt, da, dh))
        # ECEF -> ENU -> ECEF
        e2 = x.toENUCoords(bobj)
        if vec_diff(e2, want_enu) > TOL_M:
            fails.append(tag + "ECEF.toENUCoords(%s) = (%r,%r,%r), frame definition gives %r" % (bname, e2.E, e2.N, e2.U, want_enu))
        xx = e2.toECEFCoords(bobj)
        if not isinstance(xx, ECEFCoords) or vec_diff(xx, want) > TOL_M:
            fails.append(tag + "ECEF->ENU->ECEF (%s) = (%r,%r,%r), expected %r" % (bname, xx.X, xx.Y, xx.Z, want))
    # the base itself
    for who, z in (("Geo", base.toENUCoords(base)), ("ECEF", base.toECEFCoords().toENUCoords(base)),
                   ("ECEF/ecef base", base.toECEFCoords().toENUCoords(base.toECEFCoords()))):
        if vec_diff(z, (0.0, 0.0, 0.0)) > TOL_ZERO:
            fails.append("base=%r: local coordinates of the base itself (%s) = (%r,%r,%r), expected (0,0,0)" % (tuple(b), who, z.E, z.N, z.U))
    # a point on the normal through the base, dh higher, is straight up
    if b[2] + 25.0 <= 10000.0:
        z = GeoCoords(b[0], b[1], b[2] + 25.0).toENUCoords(base)
        if vec_diff(z, (0.0, 0.0, 25.0)) > TOL_M:
            fails.append("base=%r: the point 25 m above the base has ENU (%r,%r,%r), expected (0,0,25)" % (tuple(b), z.E, z.N, z.U))
    return 14


def check_enu(v, b, fails):
    from tracklib.core.obs_coords import GeoCoords, ECEFCoords, ENUCoords
    tag = "enu=%r base=%r: " % (tuple(v), tuple(b))
    for bname, bobj in (("geo base", GeoCoords(*b)), ("ecef base", ECEFCoords(*spec_ecef(*b)))):
        e = ENUCoords(v[0], v[1], v[2])
        x = e.toECEFCoords(bobj)
        # spec: base + E*east + N*north + U*up
        la, ph = math.radians(b[0]), math.radians(b[1])
        q = spec_ecef(*b)
        east = (-math.sin(la), math.cos(la), 0.0)
        north = (-math.sin(ph) * math.cos(la), -math.sin(ph) * math.sin(la), math.cos(ph))
        up = (math.cos(ph) * math.cos(la), math.cos(ph) * math.sin(la), math.sin(ph))
        want = tuple(q[i] + v[0] * east[i] + v[1] * north[i] + v[2] * up[i] for i in range(3))
        if not isinstance(x, ECEFCoords) or vec_diff(x, want) > TOL_M:
            fails.append(tag + "ENU.toECEFCoords(%s) = (%r,%r,%r), frame definition gives %r" % (bname, x.X, x.Y, x.Z, want))
        back = x.toENUCoords(bobj)
        if not isinstance(back, ENUCoords) or vec_diff(back, v) > TOL_M:
            fails.append(tag + "ENU->ECEF->ENU (%s) = (%r,%r,%r)" % (bname, back.E, back.N, back.U))
        if (e.E, e.N, e.U) != tuple(v):
            fails.append(tag + "toECEFCoords modified its receiver")
        # via geographic, only where the intermediate point stays in the stated domain
        g = e.toGeoCoords(bobj)
        if isinstance(g, GeoCoords) and abs(g.lat) <= 89.9 and -1000.0 <= g.hgt <= 10000.0:
            back = g.toENUCoords(bobj)
            if vec_diff(back, v) > TOL_M:
                fails.append(tag + "ENU->Geo->ENU (%s) = (%r,%r,%r) via (%r,%r,%r)" % (bname, back.E, back.N, back.U, g.lon, g.lat, g.hgt))
            w = spec_ecef(g.lon, g.lat, g.hgt)
            if vec_diff(x, w) > TOL_M:
                fails.append(tag + "ENU.toGeoCoords(%s) = (%r,%r,%r) is not the geographic position of the ECEF point %r" % (bname, g.lon, g.lat, g.hgt, want))
        elif not isinstance(g, GeoCoords):
            fails.append(tag + "ENU.toGeoCoords returned %r" % (type(g).__name__,))
    return 8


def check_l93(p, fails):
    from tracklib.core.obs_coords import GeoCoords, ENUCoords
    tag = "L93 p=%r: " % (tuple(p),)
    g = GeoCoords(p[0], p[1], p[2])
    e = g.toProjCoords(2154)
    e_bis = g.toENUCoords(2154)
    if not isinstance(e, ENUCoords) or not isinstance(e_bis, ENUCoords) or vec_diff(e_bis, (e.E, e.N, e.U)) > 0:
        fails.append(tag + "toENUCoords(2154) and toProjCoords(2154) differ")
        return 1
    if abs(e.U - p[2]) > TOL_M:
        fails.append(tag + "projection changed the height: %r" % (e.U,))
    if p[0] == 3.0 and p[1] == 46.5:   # definition of the projection: origin (3E, 46.5N) -> (700000, 6600000)
        if abs(e.E - 700000.0) > TOL_M or abs(e.N - 6600000.0) > TOL_M:
            fails.append(tag + "projection origin maps to (%r,%r), Lambert-93 defines (700000, 6600000)" % (e.E, e.N))
    if p[0] == 2.3488 and p[1] == 48.8534:   # Paris, loose plausibility (652 km, 6862 km)
        if abs(e.E - 652216.6) > 1.0 or abs(e.N - 6861681.5) > 1.0:
            fails.append(tag + "Paris maps to (%r,%r)" % (e.E, e.N))
    gg = e.toGeoCoords(2154)
    da, dh = geo_diff(gg, p)
    if not isinstance(gg, GeoCoords) or da > TOL_DEG or dh > TOL_M:
        fails.append(tag + "Geo->L93->Geo = (%r,%r,%r): off by %.3g deg, %.3g m" % (gg.lon, gg.lat, gg.hgt, da, dh))
    ee = gg.toProjCoords(2154)
    if vec_diff(ee, (e.E, e.N, e.U)) > TOL_M:
        fails.append(tag + "L93->Geo->L93 = (%r,%r,%r) from (%r,%r,%r)" % (ee.E, ee.N, ee.U, e.E, e.N, e.U))
    # meridian convergence sign: a point further east has a larger easting, further north a larger northing
    if p[0] + 0.01 <= 10.5 and GeoCoords(p[0] + 0.01, p[1], p[2]).toProjCoords(2154).E <= e.E:
        fails.append(tag + "easting does not grow eastwards")
    if p[1] + 0.01 <= 52.0 and GeoCoords(p[0], p[1] + 0.01, p[2]).toProjCoords(2154).N <= e.N:
        fails.append(tag + "northing does not grow northwards")
    return 5


def check_track(case, fails):
    from tracklib.core.obs_coords import GeoCoords, ECEFCoords, ENUCoords
    from tracklib.core.obs import Obs
    from tracklib.core.obs_time import ObsTime
    from tracklib.core.track import Track
    pts = [tuple(p) for p in case["pts"]]
    b = tuple(case["base"])
    if case["base_in_track"]:
        b = pts[len(pts) // 2]
    b2 = tuple(case["base2"])
    n = len(pts)
    times = [(2020, 1 + i % 12, 1 + i, 0, i, 2 * i) for i in range(n)]
    tag = "track %r base=%r: " % (pts, b)
    ev = [0]

    def make():
        t = Track()
        for p, tm in zip(pts, times):
            t.addObs(Obs(GeoCoords(*p), ObsTime(*tm)))
        return t

    def same_shape(t, cls, step):
        ev[0] += 1
        if t.size() != n:
            fails.append(tag + "%s: %d observations, expected %d" % (step, t.size(), n))
            return False
        for i in range(n):
            o = t.getObs(i)
            if not isinstance(o.position, cls):
                fails.append(tag + "%s: obs %d is a %s" % (step, i, type(o.position).__name__))
                return False
            ts = o.timestamp
            if (ts.year, ts.month, ts.day, ts.hour, ts.min, ts.sec) != times[i]:
                fails.append(tag + "%s: timestamp of obs %d changed" % (step, i))
                return False
        return True

    def is_geo(t, step, chain=False):
        if not same_shape(t, GeoCoords, step):
            return
        for i in range(n):
            da, dh = geo_diff(t.getObs(i).position, pts[i])
            if chain:   # several conversions in a row: longitude error counted as ground displacement
                g = t.getObs(i).position
                da = max(dlon(g.lon, pts[i][0]) * math.cos(math.radians(pts[i][1])), abs(g.lat - pts[i][1]))
            if da > TOL_DEG or dh > TOL_M:
                g = t.getObs(i).position
                fails.append(tag + "%s: obs %d = (%r,%r,%r): off by %.3g deg, %.3g m" % (step, i, g.lon, g.lat, g.hgt, da, dh))
                return

    def is_ecef(t, step):
        if not same_shape(t, ECEFCoords, step):
            return
        for i in range(n):
            if vec_diff(t.getObs(i).position, spec_ecef(*pts[i])) > TOL_M:
                fails.append(tag + "%s: obs %d = (%r,%r,%r), closed form %r" % (step, i, t.getX(i), t.getY(i), t.getZ(i), spec_ecef(*pts[i])))
                return

    def is_enu(t, base, step, exact=False):
        if not same_shape(t, ENUCoords, step):
            return
        for i in range(n):
            w = spec_enu(pts[i], base)
            if vec_diff(t.getObs(i).position, w) > TOL_M:
                fails.append(tag + "%s: obs %d = (%r,%r,%r), frame definition (base %r) gives %r" % (step, i, t.getX(i), t.getY(i), t.getZ(i), base, w))
                return
            if exact and pts[i] == base and vec_diff(t.getObs(i).position, (0, 0, 0)) > TOL_ZERO:
                fails.append(tag + "%s: obs %d is the base but has local coordinates (%r,%r,%r)" % (step, i, t.getX(i), t.getY(i), t.getZ(i)))

    def base_is(t, base, step):
        ev[0] += 1
        bb = t.base
        if not isinstance(bb, GeoCoords):
            fails.append(tag + "%s: Track.base is %r, expected the geographic base %r" % (step, bb, base))
            return
        da, dh = geo_diff(bb, base)
        if da > TOL_DEG or dh > TOL_M:
            fails.append(tag + "%s: Track.base = (%r,%r,%r), expected %r" % (step, bb.lon, bb.lat, bb.hgt, base))

    # Every numbered block is ONE round trip from a fresh geographic track (the statement's "and back").
    # 1. Geo -> ENU(base) -> Geo with the recorded base
    t = make()
    t.toENUCoords(GeoCoords(*b))
    is_enu(t, b, "Geo.toENUCoords(base)", exact=True)   # direct conversion: the base maps to (0,0,0)
    base_is(t, b, "Geo.toENUCoords(base)")
    t.toGeoCoords()
    is_geo(t, "Geo.toENUCoords(base) then toGeoCoords() with the recorded base")
    # 1b. same, explicit base on the way back
    t = make()
    t.toENUCoords(GeoCoords(*b))
    t.toGeoCoords(GeoCoords(*b))
    is_geo(t, "Geo.toENUCoords(base) then toGeoCoords(base)")
    # 2. Geo -> ECEF -> Geo
    t = make()
    t.toECEFCoords()
    is_ecef(t, "Geo.toECEFCoords()")
    t.toGeoCoords()
    is_geo(t, "Geo.toECEFCoords() then toGeoCoords()")
    # 3. default base = first observation; ENU -> ECEF with the recorded base
    t = make()
    t.toENUCoords()
    is_enu(t, pts[0], "Geo.toENUCoords() [first obs as base]")
    base_is(t, pts[0], "Geo.toENUCoords() [first obs as base]")
    if t.size() == n and vec_diff(t.getObs(0).position, (0, 0, 0)) > TOL_ZERO:
        fails.append(tag + "first observation used as base has local coordinates (%r,%r,%r)" % (t.getX(0), t.getY(0), t.getZ(0)))
    t.toECEFCoords()
    is_ecef(t, "Geo.toENUCoords() then toECEFCoords() with the recorded base")
    # 4. ECEF track -> ENU with an ECEF base object -> ECEF -> Geo
    t = make()
    t.toECEFCoords()
    t.toENUCoords(ECEFCoords(*spec_ecef(*b2)))
    is_enu(t, b2, "ECEF.toENUCoords(ecef base2)")
    base_is(t, b2, "ECEF.toENUCoords(ecef base2)")
    t.toECEFCoords()
    is_ecef(t, "ECEF.toENUCoords(ecef base2) then toECEFCoords()")
    # 5. change of base ENU(base2) -> ENU(base), then back to geographic (a chain: longitude measured on the ground)
    t = make()
    t.toENUCoords(GeoCoords(*b2))
    t.toENUCoords(GeoCoords(*b))
    is_enu(t, b, "ENU.toENUCoords(base) [rebase from base2]")
    base_is(t, b, "ENU.toENUCoords(base) [rebase from base2]")
    t.toGeoCoords()
    is_geo(t, "rebased ENU.toGeoCoords()", chain=True)
    # 5b. ENU -> ECEF with an explicit base on a track whose base attribute is unset
    t = make()
    t.toENUCoords(GeoCoords(*b2))
    t.base = None
    t.toECEFCoords(GeoCoords(*b2))
    is_ecef(t, "ENU.toECEFCoords(base2)")
    # 6. Lambert-93
    if case["l93"]:
        t = make()
        t.toProjCoords(2154)
        ev[0] += 1
        if t.base != 2154:
            fails.append(tag + "toProjCoords(2154): Track.base = %r, expected 2154" % (t.base,))
        if same_shape(t, ENUCoords, "toProjCoords(2154)"):
            for i in range(n):
                w = GeoCoords(*pts[i]).toProjCoords(2154)
                if not (-3e5 < t.getX(i) < 1.5e6 and 5.8e6 < t.getY(i) < 7.4e6) or vec_diff(t.getObs(i).position, (w.E, w.N, w.U)) > TOL_M:
                    fails.append(tag + "toProjCoords(2154): obs %d = (%r,%r,%r)" % (i, t.getX(i), t.getY(i), t.getZ(i)))
                    break
        t.toGeoCoords()
        is_geo(t, "L93.toGeoCoords() with the recorded SRID")
        t.toENUCoords(2154)
        ev[0] += 1
        if t.base != 2154:
            fails.append(tag + "toENUCoords(2154): Track.base = %r, expected 2154" % (t.base,))
        t.toGeoCoords(2154)
        is_geo(t, "L93.toGeoCoords(2154)")
    return ev[0]


def check_case(case):
    fails = []
    n = 0
    try:
        if case["kind"] == "row":
            for lon in case["lons"]:
                for h in case["hs"]:
                    n += check_point((lon, case["lat"], h), case["base"], fails)
                    if len(fails) > 6:
                        break
        elif case["kind"] == "pairs":
            for p, b in case["items"]:
                n += check_point(p, b, fails)
        elif case["kind"] == "enu":
            for v, b in case["items"]:
                n += check_enu(v, b, fails)
        elif case["kind"] == "l93":
            for p in case["items"]:
                n += check_l93(p, fails)
        elif case["kind"] == "track":
            n += check_track(case, fails)
    except SystemExit as e:
        fails.append("tracklib called exit(%r) on an in-scope conversion (%s case)" % (e.code, case["kind"]))
    except Exception as e:
        import traceback
        tb = traceback.extract_tb(e.__traceback__)[-1]
        fails.append("%s: %s at %s:%d (%s case)" % (type(e).__name__, e, tb.filename.split("/")[-1], tb.lineno, case["kind"]))
    return dict(failures=fails, evaluations=max(n, 1), nontrivial=max(n, 1))
