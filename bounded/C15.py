"""C15 bounded stand-in: kernel filtering (Operator.FILTER, filter_seq, Track.smooth, Kernel.toSlidingWindow).

Oracle = the statement written out: out[i] = sum_k w[k]*x[i+k] / sum_k w[k] over the offsets k = -D..D whose
sample i+k is inside the track and not NaN (brute force, plain Python floats); hence constants are unchanged
and min(window) <= out[i] <= max(window); without boundary filtering the first and last D values are the inputs.
The weights of a kernel object are taken from the *documented* kernel function sampled at the integer offsets
-D..D, D = floor(support), normalised to sum 1 (closed forms below, not Kernel.evaluate); the window returned by
Kernel.toSlidingWindow() is checked separately (odd, symmetric, non-negative, sums to 1, that shape).

Points where the statement is silent and what the harness accepts:
 * orientation of an asymmetric weight list (w[k] applied to x[i+k] or to x[i-k]): either, but the same for
   the whole signal;
 * boundary setting of a plain weight list (it has no setter): either "unchanged" or "filtered", but the same
   for all 2*D boundary indices;
 * windows in which no non-NaN sample has a positive weight are outside the quantifier (division 0/0): the
   generator never produces them (isolated NaN are dropped until every window has a usable sample)."""
import math
import random
from fractions import Fraction

ID = "C15"
BOUND = {
    "quick": "window checks: 7 kernel families x 27 widths in [1, 6]; exhaustive: all 27 weight triples over {1,2,5} x "
             "all signals of length 3 and 4 over {0, 1, 4, NaN}; 1500 random cases: odd weight lists of length 1..9 "
             "(symmetric and not) and every built-in non-negative kernel (Dirac, Uniform, Triangular, Gaussian, "
             "Exponential, Epanechnikov, Cubic, Spheric; widths 1..6; both boundary settings) on random / constant / "
             "monotone signals with isolated NaN of length N..N+8, through operate(FILTER) on a feature and on x/y/z, "
             "filter_seq on any subset of x, y, z and features, and Track.smooth",
    "thorough": "same window checks and exhaustive part extended to weight triples over {1,2,3,5} and signals of "
                "length 3..5; 30000 random cases",
}
RULE = ("case = one kernel + one set of signals (feature a, feature b, x, y, z) + one API; seeded random.Random; "
        "non-trivial = at least one index is really filtered (interior index or boundary filtering on) and the signal "
        "is not constant; distinct by the JSON of the case")
CHUNK = 40

FAMILIES = ["Uniform", "Triangular", "Gaussian", "Exponential", "Epanechnikov", "Cubic", "Spheric"]
SUPPORT_FACTOR = {"Uniform": Fraction(2), "Triangular": Fraction(3, 2), "Gaussian": Fraction(3), "Exponential": Fraction(3),
                  "Epanechnikov": Fraction(3, 2), "Cubic": Fraction(1), "Spheric": Fraction(1)}
WIDTHS = [1, 1.0, 1.1, 1.2, 1.25, 1.3, 1.5, 1.7, 1.75, 1.9, 2, 2.0, 2.2, 2.5, 2.75, 3, 3.0, 3.3, 3.5, 4, 4.0, 4.5, 4.7, 5, 5.5, 6, 6.0]


# ---------------------------------------------------------------------------------------------------------
# specification of the built-in kernels (formulas of the class documentation)
# ---------------------------------------------------------------------------------------------------------
def kernel_function(family, s, x):
    x = abs(x)
    if family == "Uniform":
        return 1.0 / (2 * s) if x <= s else 0.0
    if family == "Triangular":
        return (s - x) / (s * s) if x <= s else 0.0
    if family == "Gaussian":
        return math.exp(-0.5 * (x / s) ** 2) / (s * math.sqrt(2 * math.pi))
    if family == "Exponential":
        return math.exp(-x / s) / (2 * s)
    if family == "Epanechnikov":
        return 0.75 * (1 - (x / s) ** 2) / s if x <= s else 0.0
    r = x / s
    if family == "Cubic":
        return 1 - (7 * r ** 2 - 35.0 / 4 * r ** 3 + 7.0 / 2 * r ** 5 - 3.0 / 4 * r ** 7)
    if family == "Spheric":
        return 1 - (1.5 * r - 0.5 * r ** 3)
    raise ValueError(family)


def half_width(family, s):
    return int(math.floor(SUPPORT_FACTOR[family] * Fraction(str(s))))


def spec_window(kernel):
    """normalised weights w[0..2D] (offset k = index - D) the statement attaches to the kernel"""
    if kernel["type"] == "list":
        w = [float(v) for v in kernel["w"]]
    elif kernel["type"] == "Dirac":
        w = [0.0, 1.0, 0.0]
    else:
        s = kernel["width"]
        D = half_width(kernel["type"], s)
        support = float(SUPPORT_FACTOR[kernel["type"]] * Fraction(str(s)))
        w = [kernel_function(kernel["type"], s, k) if abs(k) <= support else 0.0 for k in range(-D, D + 1)]
        w = [max(v, 0.0) if abs(v) < 1e-15 else v for v in w]
    tot = sum(w)
    return [v / tot for v in w]


def _nan(v):
    return isinstance(v, float) and v != v


def weighted_mean(w, x, i, flip):
    D = len(w) // 2
    num = den = 0.0
    lo, hi = float("inf"), float("-inf")
    for k in range(-D, D + 1):
        j = i + k
        if j < 0 or j >= len(x) or _nan(x[j]):
            continue
        wk = w[D - k] if flip else w[D + k]
        num += wk * x[j]
        den += wk
        lo, hi = min(lo, x[j]), max(hi, x[j])
    return (num / den if den > 0 else None), den, lo, hi


def usable(w, x):
    """every window holds a non-NaN sample with a positive weight (both orientations)"""
    for flip in (False, True):
        for i in range(len(x)):
            if not weighted_mean(w, x, i, flip)[1] > 1e-9:
                return False
    return True


# ---------------------------------------------------------------------------------------------------------
# case generation
# ---------------------------------------------------------------------------------------------------------
def _enc(x):
    return ["nan" if _nan(v) else v for v in x]


def _dec(x):
    return [float("nan") if v == "nan" else v for v in x]


def _signal(rnd, n, w, allow_nan=True):
    kind = rnd.choice(["random", "random", "randint", "constant", "monotone", "step"])
    if kind == "random":
        x = [round(rnd.uniform(-50, 50), 3) for _ in range(n)]
    elif kind == "randint":
        x = [rnd.randint(-9, 9) for _ in range(n)]
    elif kind == "constant":
        c = rnd.choice([0, 1, -3, 7.5, 1234.567, -0.001])
        x = [c] * n
    elif kind == "monotone":
        x, v = [], rnd.uniform(-20, 20)
        sgn = rnd.choice([1, -1])
        for _ in range(n):
            x.append(round(v, 3))
            v += sgn * rnd.choice([0, 0.5, 1, 2.25, 10])
    else:
        cut = rnd.randrange(n + 1)
        x = [0.0] * cut + [1.0] * (n - cut)
    if allow_nan and rnd.random() < 0.45:
        x = list(x)
        pos = sorted(rnd.sample(range(n), rnd.randint(1, max(1, n // 4))))
        prev = -5
        for p in pos:
            if p - prev >= 2:                              # isolated
                x[p] = float("nan")
                prev = p
        idx = [i for i, v in enumerate(x) if _nan(v)]
        while idx and not usable(w, x):
            x[idx.pop(rnd.randrange(len(idx)))] = float(rnd.randint(-5, 5))
    return x


def _kernel(rnd):
    r = rnd.random()
    if r < 0.40:
        N = rnd.choice([1, 3, 3, 3, 5, 5, 7, 9])
        style = rnd.choice(["int", "float", "sym", "ones", "skew"])
        if style == "int":
            w = [rnd.randint(1, 6) for _ in range(N)]
        elif style == "float":
            w = [round(rnd.uniform(0.05, 4), 3) for _ in range(N)]
        elif style == "sym":
            h = [round(rnd.uniform(0.1, 3), 2) for _ in range(N // 2 + 1)]
            w = h[:-1] + [h[-1]] + h[:-1][::-1]
        elif style == "ones":
            w = [1] * N
        else:
            w = [10 ** (-i) for i in range(N)] if rnd.random() < 0.5 else [float(i + 1) for i in range(N)]
        return dict(type="list", w=w)
    if r < 0.46:
        return dict(type="Dirac", boundary=rnd.random() < 0.5)
    return dict(type=rnd.choice(FAMILIES), width=rnd.choice(WIDTHS), boundary=rnd.random() < 0.5)


def _random_case(rnd):
    kernel = _kernel(rnd)
    api = rnd.choice(["operate", "operate", "operate_xyz", "filter_seq", "filter_seq", "smooth"])
    if api == "smooth":
        kernel = dict(type="Gaussian", width=rnd.choice(WIDTHS), boundary=False)
    w = spec_window(kernel)
    N = len(w)
    n = max(N, 1) + rnd.choice([0, 0, 1, 2, 3, 5, 8])
    if N == 1 and api == "filter_seq":
        n = max(n, 2)
    no_nan = kernel["type"] == "Dirac" or N == 1
    sig = {name: _enc(_signal(rnd, n, w, allow_nan=not no_nan and (name in ("a", "b", "z") or rnd.random() < 0.3)))
           for name in ("a", "b", "x", "y", "z")}
    case = dict(kind="filter", api=api, kernel=kernel, n=n, signals=sig)
    if api == "operate":
        case["dims"] = [rnd.choice(["a", "b"])]
        case["out"] = rnd.choice(["out", "out", case["dims"][0]])        # in-place output allowed
    elif api == "operate_xyz":
        case["dims"] = [rnd.choice(["x", "y", "z"])]
        case["out"] = "out"
    elif api == "filter_seq":
        names = ["x", "y", "z", "a", "b"]
        dims = [d for d in names if rnd.random() < 0.5] or [rnd.choice(names)]
        case["dims"] = dims
        if rnd.random() < 0.15 and kernel["type"] == "list" and all(v == 1 for v in kernel["w"]) and N > 1:
            case["kernel_as_int"] = True                                # filter_seq(track, 3) == [1, 1, 1]
    else:
        case["dims"] = ["x", "y", "z"]
    return case


def _exhaustive(tier):
    ws = (1, 2, 5) if tier == "quick" else (1, 2, 3, 5)
    lens = (3, 4) if tier == "quick" else (3, 4, 5)
    for a in ws:
        for b in ws:
            for c in ws:
                for n in lens:
                    yield dict(kind="exhaustive", w=[a, b, c], n=n, values=[0, 1, 4, "nan"])


def cases(tier, seed):
    rnd = random.Random(seed)
    for fam in FAMILIES:
        yield dict(kind="window", family=fam, widths=WIDTHS)
    for c in _exhaustive(tier):
        yield c
    for _ in range(1500 if tier == "quick" else 30000):
        yield _random_case(rnd)


# ---------------------------------------------------------------------------------------------------------
# running the real code
# ---------------------------------------------------------------------------------------------------------
def _make_kernel(kernel):
    import tracklib.core.kernel as K
    if kernel["type"] == "list":
        return list(kernel["w"])                     # fresh list: the operator normalises it in place
    if kernel["type"] == "Dirac":
        k = K.DiracKernel()
    else:
        k = getattr(K, kernel["type"] + "Kernel")(kernel["width"])
    if kernel.get("boundary"):
        k.setFilterBoundary(True)
    return k


def _track(sig, n):
    from tracklib.core.obs_time import ObsTime
    from tracklib.core import Obs, ENUCoords
    from tracklib.core.track import Track
    tr = Track()
    for i in range(n):
        tr.addObs(Obs(ENUCoords(sig["x"][i], sig["y"][i], sig["z"][i]), ObsTime(2020, 1, 1, 0, i // 60, i % 60, 0)))
    tr.createAnalyticalFeature("a", list(sig["a"]))
    tr.createAnalyticalFeature("b", list(sig["b"]))
    return tr


def _same(u, v, tol):
    if _nan(u) or _nan(v):
        return _nan(u) and _nan(v)
    return abs(u - v) <= tol


def _check_signal(label, w, x, got, boundary, fails):
    """got = filtered x.  boundary: True / False / None (None = either, consistently)."""
    n, D = len(x), len(w) // 2
    if len(got) != n:
        fails.append("%s: %d outputs for %d inputs" % (label, len(got), n))
        return 0
    got = [float(v) for v in got]
    finite = [v for v in x if not _nan(v)]
    tol = 1e-9 * (1.0 + max([abs(v) for v in finite] or [0.0]))
    edge = [i for i in range(n) if i < D or i >= n - D]
    inner = [i for i in range(n) if not (i < D or i >= n - D)]
    sym = all(abs(w[k] - w[len(w) - 1 - k]) <= 1e-15 for k in range(len(w)))
    def verdict(flip, bnd):
        for i in range(n):
            if i in edge and not bnd:
                if not _same(got[i], float(x[i]), 0.0):
                    return "index %d is a boundary index (half-width %d) and must be returned unchanged: in %r, out %r" % (i, D, x[i], got[i])
                continue
            want, den, lo, hi = weighted_mean(w, x, i, flip)
            if want is None:
                continue
            if not _same(got[i], want, tol):
                return "index %d: out %r, renormalised weighted mean of the window is %r" % (i, got[i], want)
            if not (lo - tol <= got[i] <= hi + tol):
                return "index %d: out %r outside [min, max] = [%r, %r] of its window" % (i, got[i], lo, hi)
        return None

    verdicts = [verdict(flip, bnd) for flip in ([False] if sym else [False, True])
                for bnd in ([boundary] if boundary is not None else [False, True])]
    if all(m is not None for m in verdicts):
        fails.append("%s with weights %s on %s: %s" % (label, [round(v, 6) for v in w], _enc(x), verdicts[0]))
    elif finite and max(finite) == min(finite):
        for i in range(n):
            if not _nan(got[i]) and abs(got[i] - finite[0]) > tol:
                fails.append("%s: constant signal %r changed to %r at index %d" % (label, finite[0], got[i], i))
                break
    return len(inner) if boundary is False else n


def _check_window(case):
    import tracklib.core.kernel as K
    fails, n_eval = [], 0
    fam = case["family"]
    for s in case["widths"]:
        n_eval += 1
        k = getattr(K, fam + "Kernel")(s)
        try:
            win = [float(v) for v in k.toSlidingWindow()]
        except Exception as e:
            fails.append("%sKernel(%r).toSlidingWindow() raised %s: %s" % (fam, s, type(e).__name__, e))
            continue
        name = "%sKernel(%r).toSlidingWindow()" % (fam, s)
        D = half_width(fam, s)
        if len(win) % 2 != 1:
            fails.append("%s has even length %d" % (name, len(win)))
            continue
        if len(win) != 2 * D + 1:
            fails.append("%s has length %d, support %r gives 2*%d+1" % (name, len(win), float(SUPPORT_FACTOR[fam] * Fraction(str(s))), D))
        if any(abs(win[i] - win[len(win) - 1 - i]) > 1e-12 for i in range(len(win))):
            fails.append("%s is not symmetric: %s" % (name, win))
        if abs(sum(win) - 1.0) > 1e-12:
            fails.append("%s sums to %r" % (name, sum(win)))
        if any(not v >= -1e-15 for v in win):
            fails.append("%s has a negative weight: %s" % (name, win))
        if len(win) == 2 * D + 1:
            spec = spec_window(dict(type=fam, width=s))
            if any(abs(a - b) > 1e-12 for a, b in zip(win, spec)):
                fails.append("%s = %s, the documented kernel function sampled on -%d..%d and normalised gives %s" % (
                    name, [round(v, 9) for v in win], D, D, [round(v, 9) for v in spec]))
        if k.filterBoundary() is not False:
            fails.append("%s: a fresh kernel filters boundaries" % name)
    return dict(failures=fails, evaluations=n_eval, nontrivial=n_eval)


def _check_exhaustive(case):
    from tracklib.core.operators import Operator
    import itertools
    fails, n_eval = [], 0
    vals = _dec(case["values"])
    w = spec_window(dict(type="list", w=case["w"]))
    n = case["n"]
    zeros = [0.0] * n
    for x in itertools.product(vals, repeat=n):
        x = list(x)
        if not usable(w, x):
            continue
        tr = _track(dict(x=zeros, y=zeros, z=zeros, a=x, b=zeros), n)
        n_eval += 1
        try:
            ret = tr.operate(Operator.FILTER, "a", list(case["w"]), "out")
            got = list(tr["out"])
        except Exception as e:
            fails.append("operate(FILTER, %s) on %s raised %s: %s" % (case["w"], _enc(x), type(e).__name__, e))
            break
        _check_signal("operate(FILTER, list %s)" % case["w"], w, x, got, None, fails)
        if fails:
            break
    return dict(failures=fails, evaluations=n_eval, nontrivial=n_eval)


def check_case(case):
    if case["kind"] == "window":
        return _check_window(case)
    if case["kind"] == "exhaustive":
        return _check_exhaustive(case)
    from tracklib.core.operators import Operator
    from tracklib.algo.filtering import filter_seq
    fails = []
    kernel, n, api = case["kernel"], case["n"], case["api"]
    sig = {k: _dec(v) for k, v in case["signals"].items()}
    w = spec_window(kernel)
    D = len(w) // 2
    boundary = None if kernel["type"] == "list" else bool(kernel.get("boundary"))
    tr = _track(sig, n)
    kobj = _make_kernel(kernel)
    if case.get("kernel_as_int"):
        kobj = len(kernel["w"])
    label = "%s(%s%s)" % (api, {k: v for k, v in kernel.items()}, " dims=%s" % case["dims"] if api == "filter_seq" else "")
    try:
        if api in ("operate", "operate_xyz"):
            d, out = case["dims"][0], case["out"]
            ret = tr.operate(Operator.FILTER, d, kobj, out)
            got = {d: list(tr[out])}
            if ret is None or len(ret) != n or any(not _same(float(a), float(b), 0.0) for a, b in zip(ret, got[d])):
                fails.append("%s: returned list %s differs from the stored feature %s" % (label, ret, got[d]))
        elif api == "filter_seq":
            ret = filter_seq(tr, kobj, list(case["dims"]))
            if ret is not tr:
                fails.append("%s did not return the track it was given" % label)
        else:
            tr.smooth(kernel["width"])
        if api in ("filter_seq", "smooth"):
            got = {"x": tr.getX(), "y": tr.getY(), "z": tr.getZ(), "a": tr["a"], "b": tr["b"]}
    except Exception as e:
        return dict(failures=["%s on %s raised %s: %s" % (label, {d: case["signals"][d] for d in case["dims"]}, type(e).__name__, e)],
                    evaluations=1, nontrivial=1)
    n_eval = nontriv = 0
    if len(w) == 1 and api == "filter_seq":
        filtered = []                                       # one weight: identity
    else:
        filtered = case["dims"]
    for d in filtered:
        k = _check_signal("%s %s" % (label, d), w, sig[d], got[d], boundary, fails)
        n_eval += 1
        finite = [v for v in sig[d] if not _nan(v)]
        if k > 0 and finite and max(finite) > min(finite):
            nontriv += 1
    # everything that was not asked to be filtered is unchanged
    now = {"x": tr.getX(), "y": tr.getY(), "z": tr.getZ(), "a": tr["a"], "b": tr["b"]}
    written = set(filtered) if api in ("filter_seq", "smooth") else ({case["out"]} if case["out"] in now else set())
    for d in now:
        if d in written:
            continue
        if len(now[d]) != n or any(not _same(float(u), float(v), 0.0) for u, v in zip(now[d], sig[d])):
            fails.append("%s changed %s, which it was not asked to filter: %s -> %s" % (label, d, _enc(sig[d]), _enc([float(v) for v in now[d]])))
    return dict(failures=fails, evaluations=max(1, n_eval), nontrivial=nontriv)
