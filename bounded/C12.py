"""C12 bounded stand-in: optimalPartition / optimalSegmentation / optimalSimplification / findStopsGlobal
against enumeration of all 2^(n-2) partitions.

Oracle = the statement written out: every strictly increasing index list from the first (0) to the last (n-1)
break candidate is enumerated, its segment costs are summed, and the minimum (or maximum) is taken.
`optimalPartition(C)` works on n = C.shape[0]-1 candidates (the last row/column of C is not a candidate:
this is the calling convention of findStopsGlobal / optimalSegmentation, which pass a size x size matrix and
get a list ending at size-2)."""
import itertools
import math
import random

ID = "C12"
BOUND = {
    "quick": "optimalPartition, both directions: all symmetric {0,1,2}-valued matrices for n=2..5 candidates (59808) and all "
             "{0,1}-valued for n=6 (32768); 4000 random matrices n<=12 (reals, negatives, small integers with ties); "
             "1500 optimalSegmentation/optimalSimplification/simplify(FREE) runs with a table-driven cost function (n<=9); "
             "300 findStopsGlobal runs on random 2-D tracks of 5..9 fixes",
    "thorough": "optimalPartition, both directions: all symmetric {0,1,2}-valued matrices n=2..5 and {0,1}-valued n=6 and n=7; "
                "80000 random matrices n<=12; 20000 optimalSegmentation/optimalSimplification/simplify(FREE) runs (n<=10); "
                "5000 findStopsGlobal runs on random 2-D tracks of 5..10 fixes"}
RULE = ("exhaustive case = block of consecutive base-b codes of the strict upper triangle of the candidate matrix; the unused "
        "last row/column and the diagonal carry junk; random case = one seeded matrix / cost table / track; "
        "non-trivial = n >= 3 (more than one partition)")
CHUNK = 10
BUDGET_S = {"quick": 75, "thorough": 1500}
BLOCK = 2000


# ----------------------------------------------------------------------------------------------
# oracle
# ----------------------------------------------------------------------------------------------
def all_partitions(n):
    inner = list(range(1, n - 1))
    for r in range(len(inner) + 1):
        for mid in itertools.combinations(inner, r):
            yield (0,) + mid + (n - 1,)


def part_cost(W, part):
    return math.fsum(W[part[t]][part[t + 1]] for t in range(len(part) - 1))


def optimum(W, n, maximise):
    best = None
    for part in all_partitions(n):
        c = part_cost(W, part)
        if best is None or (c > best if maximise else c < best):
            best = c
    return best


def check_list(res, W, n, maximise, what):
    """res = value returned by the real code for n candidates with cost table W -> failure strings"""
    try:
        lst = [x for x in res]
    except TypeError:
        return ["%s returned %r, not a list of indices" % (what, res)]
    try:
        if any(int(x) != x for x in lst):
            raise ValueError
    except (TypeError, ValueError):
        return ["%s returned non-integer indices %r" % (what, lst)]
    lst = [int(x) for x in lst]
    if len(lst) < 2 or lst[0] != 0 or lst[-1] != n - 1:
        return ["%s returned %r, which does not run from candidate 0 to candidate %d" % (what, lst, n - 1)]
    if any(lst[t] >= lst[t + 1] for t in range(len(lst) - 1)):
        return ["%s returned %r, not strictly increasing" % (what, lst)]
    got = part_cost(W, lst)
    best = optimum(W, n, maximise)
    if abs(got - best) > 1e-9 * (1 + abs(best)):
        return ["%s returned %r with summed cost %r, the %s over all partitions is %r" % (
            what, lst, got, "maximum" if maximise else "minimum", best)]
    return []


# ----------------------------------------------------------------------------------------------
# case generation
# ----------------------------------------------------------------------------------------------
def tri_len(n):
    return n * (n - 1) // 2


def table_from_code(n, code, base):
    """symmetric n x n table from the base-`base` digits of code (strict upper triangle, row-major)"""
    W = [[0.0] * n for _ in range(n)]
    for i in range(n):
        for j in range(i + 1, n):
            v = float(code % base)
            code //= base
            W[i][j] = v
            W[j][i] = v
    return W


def random_table(rnd, n, flavour):
    if flavour == 0:
        draw = lambda: rnd.uniform(0.0, 10.0)
    elif flavour == 1:
        draw = lambda: rnd.uniform(-5.0, 5.0)
    elif flavour == 2:
        draw = lambda: float(rnd.randint(0, 3))                 # many ties
    elif flavour == 3:
        draw = lambda: float(rnd.randint(-2, 2))
    else:
        draw = None
    W = [[0.0] * n for _ in range(n)]
    for i in range(n):
        for j in range(i + 1, n):
            if draw is None:
                # segment-like: long segments cheap per piece but growing with length (simplification-like trade-off)
                v = round((j - i - 1) ** 2 * rnd.uniform(0.0, 1.0) + 1.0, 3)
            else:
                v = draw()
            W[i][j] = v
            W[j][i] = v
    return W


def mec_diameter(pts):
    """diameter of the minimum enclosing circle, brute force over circles defined by 2 or 3 of the points"""
    if len(pts) <= 1:
        return 0.0
    best = None
    cands = []
    for a, b in itertools.combinations(pts, 2):
        cands.append((((a[0] + b[0]) / 2, (a[1] + b[1]) / 2), math.dist(a, b) / 2))
    for a, b, c in itertools.combinations(pts, 3):
        d = 2 * (a[0] * (b[1] - c[1]) + b[0] * (c[1] - a[1]) + c[0] * (a[1] - b[1]))
        if abs(d) < 1e-12:
            continue
        ux = ((a[0] ** 2 + a[1] ** 2) * (b[1] - c[1]) + (b[0] ** 2 + b[1] ** 2) * (c[1] - a[1]) + (c[0] ** 2 + c[1] ** 2) * (a[1] - b[1])) / d
        uy = ((a[0] ** 2 + a[1] ** 2) * (c[0] - b[0]) + (b[0] ** 2 + b[1] ** 2) * (a[0] - c[0]) + (c[0] ** 2 + c[1] ** 2) * (b[0] - a[0])) / d
        cands.append(((ux, uy), math.dist((ux, uy), a)))
    for ctr, r in cands:
        if all(math.dist(ctr, p) <= r * (1 + 1e-9) + 1e-9 for p in pts):
            if best is None or r < best:
                best = r
    return 2 * best


def stop_reward_table(pts, times, diameter, duration):
    """documented criterion of findStopsGlobal on candidates 0..size-2:
    reward(i,j) = (j-i)^2 when fixes i..j-1 fit in a circle of diameter < `diameter` and last for more than `duration`, else 0.
    -> (table, margin) ; margin = distance of the closest comparison to its threshold"""
    n = len(pts) - 1
    W = [[0.0] * n for _ in range(n)]
    margin = float("inf")
    for i in range(n):
        for j in range(i + 1, n):
            seg = pts[i:j]
            dur = times[j - 1] - times[i]
            dia = mec_diameter(seg)
            margin = min(margin, abs(dia - diameter), abs(dur - duration))
            for a in seg:
                for b in seg:
                    margin = min(margin, abs(math.dist(a, b) - diameter))
            v = float((j - i) ** 2) if (dia < diameter and dur > duration) else 0.0
            W[i][j] = v
            W[j][i] = v
    return W, margin


def random_stop_track(rnd, size):
    while True:
        pts, times = [], []
        x, y, t = rnd.uniform(-50, 50), rnd.uniform(-50, 50), 0.0
        staying = rnd.random() < 0.6
        for k in range(size):
            if staying:
                x += rnd.uniform(-2.5, 2.5)
                y += rnd.uniform(-2.5, 2.5)
            else:
                x += rnd.uniform(-40, 40)
                y += rnd.uniform(-40, 40)
            t += rnd.choice([5.0, 10.0, 20.0, 35.0])
            pts.append((round(x, 3), round(y, 3)))
            times.append(t)
            if rnd.random() < 0.25:
                staying = not staying
        diameter = rnd.choice([6.0, 9.5, 14.0])
        duration = rnd.choice([12.5, 27.5, 42.5])
        W, margin = stop_reward_table(pts, times, diameter, duration)
        positive = sum(1 for i in range(size - 1) for j in range(i + 1, size - 1) if W[i][j] > 0)
        if positive < 3 and rnd.random() < 0.9:
            continue            # keep most cases with several competing stop candidates
        if margin > 1e-3 and len(set(pts)) == len(pts):
            return dict(pts=pts, times=times, diameter=diameter, duration=duration)


def cases(tier, seed):
    rnd = random.Random(seed)
    # 1. exhaustive small matrices, both directions
    for n, base in ((2, 3), (3, 3), (4, 3), (5, 3), (6, 2)) + (((7, 2),) if tier == "thorough" else ()):
        total = base ** tri_len(n)
        for start in range(0, total, BLOCK):
            yield dict(kind="exh", n=n, base=base, start=start, count=min(BLOCK, total - start))
    # 2. random matrices
    for i in range(4000 if tier == "quick" else 80000):
        n = 2 + i % 11 if i < 110 else rnd.randint(2, 12)
        yield dict(kind="rand", n=n, W=random_table(rnd, n, i % 5), junk=[rnd.uniform(-9, 9) for _ in range(2 * n + 2)],
                   maximise=bool(rnd.getrandbits(1)))
    # 3. the delegating functions with a table-driven cost function
    nmax = 9 if tier == "quick" else 10
    for i in range(1500 if tier == "quick" else 20000):
        n = rnd.randint(2, nmax)
        yield dict(kind="seg", n=n, W=random_table(rnd, n, rnd.choice([0, 1, 2, 3, 4, 4])), maximise=bool(i & 1),
                   api=["segmentation", "segmentation_param", "simplification", "simplification_param", "simplify_free"][(i // 2) % 5])
    # 4. stop detection
    smax = 9 if tier == "quick" else 10
    for i in range(300 if tier == "quick" else 5000):
        yield dict(kind="stops", **random_stop_track(rnd, rnd.randint(5, smax)))


# ----------------------------------------------------------------------------------------------
# running the real code
# ----------------------------------------------------------------------------------------------
def matrix_for(W, n, junk):
    """(n+1) x (n+1) symmetric numpy matrix: candidates 0..n-1 from W, junk on the diagonal and in the unused last row/column"""
    import numpy as np
    C = np.zeros((n + 1, n + 1))
    for i in range(n):
        for j in range(n):
            if i != j:
                C[i, j] = W[i][j]
    for i in range(n + 1):
        C[i, i] = junk[i % len(junk)]
    for i in range(n):
        C[i, n] = C[n, i] = junk[(n + 1 + i) % len(junk)]
    return C


def run_partition(W, n, junk, maximise):
    from tracklib.algo.segmentation import optimalPartition, MODE_SEGMENTATION_MINIMIZE, MODE_SEGMENTATION_MAXIMIZE
    mode = MODE_SEGMENTATION_MAXIMIZE if maximise else MODE_SEGMENTATION_MINIMIZE
    what = "optimalPartition(mode=%s)" % ("MAXIMIZE" if maximise else "MINIMIZE")
    try:
        res = optimalPartition(matrix_for(W, n, junk), mode, verbose=False)
    except Exception as e:
        return ["%s raised %s: %s" % (what, type(e).__name__, e)]
    return check_list(res, W, n, maximise, what)


def make_track(size, pts=None, times=None):
    from tracklib.core.obs import Obs
    from tracklib.core.obs_time import ObsTime
    from tracklib import ENUCoords, Track
    t = Track()
    for k in range(size):
        x, y = pts[k] if pts else (float(k), float((k * k) % 7))
        t.addObs(Obs(ENUCoords(x, y, 0.0), ObsTime.readUnixTime(times[k] if times else 10.0 * k)))
    return t


def run_delegate(case):
    from tracklib.algo.segmentation import optimalSegmentation, MODE_SEGMENTATION_MINIMIZE, MODE_SEGMENTATION_MAXIMIZE
    from tracklib.algo.simplification import (optimalSimplification, simplify, MODE_SIMPLIFY_FREE, MODE_SIMPLIFY_FREE_MAXIMIZE)
    n, W, maximise, api = case["n"], case["W"], case["maximise"], case["api"]
    mode = MODE_SEGMENTATION_MAXIMIZE if maximise else MODE_SEGMENTATION_MINIMIZE
    track = make_track(n + 1)          # n candidates <-> a track of n+1 fixes (candidates 0..size-2)
    PARAM = 2.5
    bad = []

    # cost(track, i, j) = cost of the segment of fixes i..j (both included) = W[i][j+1] between candidates i and j+1
    def cost3(t, i, j):
        if t is not track:
            bad.append("cost called on another track")
        if 0 <= i <= j and j + 1 <= n - 1:
            return W[i][j + 1]
        return 3.25          # degenerate call (empty segment i..i-1): value is irrelevant to every partition

    def cost4(t, i, j, param):
        if param != PARAM:
            bad.append("cost called with global parameter %r instead of %r" % (param, PARAM))
        return cost3(t, i, j)

    dirn = "MAXIMIZE" if maximise else "MINIMIZE"
    try:
        if api == "segmentation":
            what = "optimalSegmentation(cost, None, %s)" % dirn
            res = optimalSegmentation(track, cost3, None, mode, verbose=False)
        elif api == "segmentation_param":
            what = "optimalSegmentation(cost, param, %s)" % dirn
            res = optimalSegmentation(track, cost4, PARAM, mode, verbose=False)
        else:
            if api == "simplification":
                what = "optimalSimplification(cost, None, %s)" % dirn
                out = optimalSimplification(track, cost3, None, mode, verbose=False)
            elif api == "simplification_param":
                what = "optimalSimplification(cost, eps, %s)" % dirn
                out = optimalSimplification(track, cost4, PARAM, mode, verbose=False)
            else:
                what = "simplify(cost, %s)" % ("MODE_SIMPLIFY_FREE_MAXIMIZE" if maximise else "MODE_SIMPLIFY_FREE")
                out = simplify(track, cost3, MODE_SIMPLIFY_FREE_MAXIMIZE if maximise else MODE_SIMPLIFY_FREE, verbose=False)
            # the simplified track keeps exactly the selected fixes: identify them by their coordinates / timestamps
            res = []
            for k in range(out.size()):
                o = out.getObs(k)
                idx = [m for m in range(track.size()) if track.getObs(m).position.getX() == o.position.getX()
                       and track.getObs(m).position.getY() == o.position.getY()
                       and track.getObs(m).timestamp == o.timestamp]
                if len(idx) != 1:
                    return ["%s: fix %d of the result (%s) is not a fix of the input track" % (what, k, o)]
                res.append(idx[0])
    except Exception as e:
        return ["%s raised %s: %s" % (what, type(e).__name__, e)]
    f = check_list(res, W, n, maximise, what)
    if bad:
        f.append("%s: %s" % (what, bad[0]))
    return f


def run_stops(case):
    from tracklib.algo.segmentation import findStopsGlobal
    pts, times, diameter, duration = [tuple(p) for p in case["pts"]], case["times"], case["diameter"], case["duration"]
    size = len(pts)
    n = size - 1
    W, _ = stop_reward_table(pts, times, diameter, duration)
    best = optimum(W, n, True)
    track = make_track(size, pts, times)
    what = "findStopsGlobal(diameter=%r, duration=%r)" % (diameter, duration)
    try:
        stops = findStopsGlobal(track, diameter, duration, downsampling=1, verbose=False)
        segs = []
        for k in range(stops.size()):
            segs.append((int(stops.getObsAnalyticalFeature("id_ini", k)), int(stops.getObsAnalyticalFeature("id_end", k)),
                         int(stops.getObsAnalyticalFeature("nb_points", k))))
    except Exception as e:
        return ["%s raised %s: %s" % (what, type(e).__name__, e)]
    fails = []
    prev = -1
    total = 0.0
    for a, b, nb in segs:
        if not (prev < a <= b < size) or nb != b - a + 1:
            fails.append("%s reported stops %r: not disjoint increasing fix ranges with consistent nb_points" % (what, segs))
            break
        prev = b
        dia = mec_diameter(pts[a:b + 1])
        dur = times[b] - times[a]
        if not (dia < diameter and dur > duration):
            fails.append("%s reported fixes %d..%d as a stop: enclosing diameter %.4f, duration %.1f" % (what, a, b, dia, dur))
        total += float(nb * nb)
    if not fails and abs(total - best) > 1e-9:
        fails.append("%s reported stops %r with criterion value (sum of squared sizes) %r; the maximum of the documented "
                     "criterion over all partitions of candidates 0..%d is %r" % (what, segs, total, n - 1, best))
    return fails


def check_case(case):
    fails = []
    n_eval = n_nt = 0
    kind = case["kind"]
    if kind == "exh":
        n, base = case["n"], case["base"]
        for code in range(case["start"], case["start"] + case["count"]):
            W = table_from_code(n, code, base)
            junk = [float((code + 2 * k) % 3) if k % 2 else float(7 - (code + k) % 5) for k in range(2 * n + 2)]
            for maximise in (False, True):
                f = run_partition(W, n, junk, maximise)
                n_eval += 1
                n_nt += 1 if n >= 3 else 0
                if f:
                    fails += ["%s | n=%d upper triangle (row-major)=%s" % (
                        x, n, [int(W[i][j]) for i in range(n) for j in range(i + 1, n)]) for x in f]
            if len(fails) > 4:
                break
    elif kind == "rand":
        n = case["n"]
        fails = run_partition(case["W"], n, case["junk"], case["maximise"])
        n_eval, n_nt = 1, (1 if n >= 3 else 0)
    elif kind == "seg":
        fails = run_delegate(case)
        n_eval, n_nt = 1, (1 if case["n"] >= 3 else 0)
    elif kind == "stops":
        fails = run_stops(case)
        n_eval, n_nt = 1, 1
    return dict(failures=fails[:5], evaluations=n_eval, nontrivial=n_nt)
