"""C11 bounded stand-in: split() on a marker partitions the track; segmentation() markers reflect the thresholds.

Observation number j of a generated track is recognisable (x = 100 + j, y = -j, its own timestamp and
feature values).  Oracle for split: the pieces, concatenated in order, must read 0, 1, .., n-1; a marked
observation may only be the last one of its piece and every piece but the last must end at one; no marked
observation => empty collection.  Oracle for segmentation: marker_i = 1 iff any (AND mode) / every (OR
mode) non-NaN tested value of observation i is > its threshold, written with any()/all()."""
import itertools
import random

ID = "C11"
BOUND = {
    "quick": "split: all 2^n 0/1 marker vectors for every size 1..12 (integer markers; float markers and a second "
             "feature column before the marker for sizes 1..8); segmentation: 1, 2 and 3 tested features x both modes x "
             "one track holding every combination of {thr-1, thr-1e-9, thr, thr+1e-9, thr+1, NaN} per feature, all tracks of "
             "size 1..3 over those 6 values for one feature, 400 random tracks of size 1..12; each followed by split on the "
             "produced marker",
    "thorough": "split: all 2^n marker vectors for sizes 1..15 (float / extra-column variants up to 12); segmentation: as "
                "quick with 8 values per feature (adds +-inf), all tracks of size 1..2 over 2 features, 8000 random tracks "
                "of size 1..12 incl. integer values, scalar arguments, default mode and re-segmentation into the same marker",
}
RULE = ("split case = a block of up to 128 marker vectors of one size (each vector is one evaluation); segmentation case = "
        "one track (matrix of tested values), thresholds and mode; distinct by content; non-trivial = every evaluation")
CHUNK = 8
BASE = 1600000000
THR = [1.5, -2.0, 10.0]


def cases(tier, seed):
    rnd = random.Random(seed)
    q = tier == "quick"
    # ---------------- split on a marker: every 0/1 vector
    for n in range(1, (12 if q else 15) + 1):
        for lo in range(0, 1 << n, 128):
            yield dict(kind="split", n=n, lo=lo, hi=min(1 << n, lo + 128), variant="int")
            if n <= (8 if q else 12):
                yield dict(kind="split", n=n, lo=lo, hi=min(1 << n, lo + 128), variant="float")
                yield dict(kind="split", n=n, lo=lo, hi=min(1 << n, lo + 128), variant="second-column")
    # ---------------- segmentation markers
    rel = [-1.0, -1e-9, 0.0, 1e-9, 1.0, "nan"] + ([] if q else ["inf", "-inf"])

    def val(f, r):
        return r if isinstance(r, str) else THR[f] + r
    for k in (1, 2, 3):
        combos = [[val(f, r) for f, r in enumerate(c)] for c in itertools.product(rel, repeat=k)]
        for mode in ("and", "or", "default"):
            for rep in range(1 if q else 3):
                rows = list(combos)
                rnd.shuffle(rows)
                # cut into tracks of at most 36 observations so that failures stay readable
                for a in range(0, len(rows), 36):
                    yield dict(kind="seg", values=rows[a:a + 36], thr=THR[:k], mode=mode, scalar=False)
    for n in (1, 2, 3):
        for c in itertools.product(rel, repeat=n):
            for mode in ("and", "or"):
                yield dict(kind="seg", values=[[val(0, r)] for r in c], thr=THR[:1], mode=mode, scalar=(n % 2 == 1))
    if not q:
        for n in (1, 2):
            for c in itertools.product(itertools.product(rel[:6], repeat=2), repeat=n):
                for mode in ("and", "or"):
                    yield dict(kind="seg", values=[[val(f, r) for f, r in enumerate(row)] for row in c], thr=THR[:2],
                               mode=mode, scalar=False)
    for _ in range(400 if q else 8000):
        k = rnd.choice([1, 2, 3])
        n = rnd.randrange(1, 13)
        thr = [rnd.choice([0, 1.5, -2.0, 10.0, 3, 1e6, -1e-3]) for _ in range(k)]
        nanp = rnd.choice([0.0, 0.2, 0.6])

        def pick(t):
            u = rnd.random()
            if u < nanp:
                return "nan"
            if u < nanp + 0.25:
                return t                                   # equal to the threshold
            if rnd.random() < 0.3:
                return int(t) + rnd.choice([-1, 0, 1])     # integer valued feature
            return t + rnd.choice([-1, 1]) * rnd.choice([1e-9, 0.5, 1.0, 100.0]) * max(1.0, abs(t))
        values = [[pick(thr[f]) for f in range(k)] for _ in range(n)]
        mode = rnd.choice(["and", "or", "default"])
        c = dict(kind="seg", values=values, thr=thr, mode=mode, scalar=(k == 1 and rnd.random() < 0.5))
        if rnd.random() < 0.25:
            c["again"] = dict(thr=[rnd.choice([0, 1.5, -2.0, 10.0]) for _ in range(k)], mode=rnd.choice(["and", "or"]))
        yield c


# ------------------------------------------------------------------ specification
def dec(v):
    return float(v) if isinstance(v, str) else v


def spec_marker(row, thr, mode):
    exceeds = [v > t for v, t in zip(row, thr) if v == v]      # NaN values are ignored
    return int(any(exceeds)) if mode in ("and", "default") else int(all(exceeds))


def partition_fail(pieces, marks, exp):
    """pieces: list of lists of observation signatures; marks: 0/1 per observation; exp: all signatures in order."""
    n = len(marks)
    if not any(marks):
        if pieces:
            return "no marked observation but %d piece(s) returned" % len(pieces)
        return None
    flat = [s for p in pieces for s in p]
    ids = [[int(s[0] - 100) for s in p] for p in pieces]
    if [int(s[0] - 100) for s in flat] != list(range(n)):
        return "pieces %r do not cover 0..%d once each in order" % (ids, n - 1)
    if flat != exp:
        return "an observation changed inside a piece: %r, expected %r" % (flat, exp)
    for k, p in enumerate(ids):
        last = k == len(ids) - 1
        if not p:
            if not last:
                return "piece %d of %r is empty" % (k, ids)
            continue
        if any(marks[j] for j in p[:-1]):
            return "piece %d of %r runs over a marked observation" % (k, ids)
        if not last and not marks[p[-1]]:
            return "piece %d of %r does not end at a marked observation" % (k, ids)
    return None


# ------------------------------------------------------------------ real side
def sig(o):
    p = o.position
    return (float(p.getX()), float(p.getY()), float(p.getZ()), round(o.timestamp.toAbsTime() - BASE, 3),
            tuple("nan" if f != f else f for f in o.features))


def make_track(n):
    from tracklib.core.obs import Obs
    from tracklib.core.obs_coords import ENUCoords
    from tracklib.core.obs_time import ObsTime
    from tracklib.core.track import Track
    return Track([Obs(ENUCoords(100.0 + j, -1.0 * j, 0.5 * j), ObsTime.readUnixTime(BASE + 3 * j)) for j in range(n)])


def run_split(split, track, name, marks, what, fails):
    exp = [sig(o) for o in track.getObsList()]
    try:
        coll = split(track, name)
        pieces = [[sig(o) for o in t.getObsList()] for t in coll]
        if coll.size() != len(pieces):
            fails.append("%s: size() = %d but %d tracks iterate" % (what, coll.size(), len(pieces)))
    except Exception as e:      # noqa: BLE001
        fails.append("%s raised %s: %s" % (what, type(e).__name__, e))
        return
    f = partition_fail(pieces, marks, exp)
    if f:
        fails.append("%s: %s" % (what, f))


def check_case(case):
    import importlib
    S = importlib.import_module("tracklib.algo.segmentation")   # the package attribute of that name is the function
    fails = []
    n_eval = 0
    if case["kind"] == "split":
        n = case["n"]
        for mask in range(case["lo"], case["hi"]):
            marks = [mask >> i & 1 for i in range(n)]
            tr = make_track(n)
            if case["variant"] == "second-column":
                tr.createAnalyticalFeature("tag", [1000 + j for j in range(n)])
            tr.createAnalyticalFeature("m", [float(v) for v in marks] if case["variant"] == "float" else list(marks))
            if case["variant"] == "int":
                tr.createAnalyticalFeature("tag", [1000 + j for j in range(n)])
            run_split(S.split, tr, "m", marks, "split on marker %r" % (marks,), fails)
            n_eval += 1
            if len(fails) > 4:
                break
        return dict(failures=fails, evaluations=n_eval, nontrivial=n_eval)

    values = [[dec(v) for v in row] for row in case["values"]]
    n, k = len(values), len(values[0])
    names = ["f%d" % f for f in range(k)]
    tr = make_track(n)
    for f, name in enumerate(names):
        tr.createAnalyticalFeature(name, [row[f] for row in values])
    rounds = [dict(thr=case["thr"], mode=case["mode"])] + ([case["again"]] if case.get("again") else [])
    for r in rounds:
        thr, mode = list(r["thr"]), r["mode"]
        want = [spec_marker(row, thr, mode) for row in values]
        what = "segmentation(%s, thresholds %r, mode %s) on values %r" % (names if not case["scalar"] else names[0], thr, mode,
                                                                          case["values"])
        a_in = names[0] if case["scalar"] else list(names)
        a_thr = thr[0] if case["scalar"] else list(thr)
        try:
            if mode == "default":
                S.segmentation(tr, a_in, "mark", a_thr)
            else:
                S.segmentation(tr, a_in, "mark", a_thr, S.MODE_COMPARAISON_AND if mode == "and" else S.MODE_COMPARAISON_OR)
            got = list(tr.getAnalyticalFeature("mark"))
        except Exception as e:      # noqa: BLE001
            fails.append("%s raised %s: %s" % (what, type(e).__name__, e))
            n_eval += 1
            continue
        n_eval += 1
        if got != want or any(not isinstance(g, (int, float)) for g in got):
            bad = [i for i in range(n) if i >= len(got) or got[i] != want[i]]
            fails.append("%s: marker %r, expected %r (first difference at observation %d: values %r)" % (
                what, got, want, bad[0] if bad else -1, case["values"][bad[0]] if bad else None))
            continue
        run_split(S.split, tr, "mark", want, "split on the marker of %s" % what, fails)
        n_eval += 1
    return dict(failures=fails, evaluations=n_eval, nontrivial=n_eval)
