"""C07 bounded stand-in: a returned shortest path is a real, optimal, geometrically continuous route.

Oracle (written from the property statement, nothing taken from the router):
  * true distances by Floyd-Warshall on arc(u, v, w) ("edge a->b permits a->b when two-way or direct,
    b->a when two-way or reverse");
  * a returned path is accepted iff there is a choice of one edge per consecutive node pair such that
    every chosen edge may be traversed in that direction, the chosen weights sum to the true shortest
    distance, and the returned coordinates are exactly: source position, then each chosen edge's
    polyline oriented along the direction of travel with its first (junction) vertex left out.
    (Parallel edges make the choice non-unique, hence the existential search; edges carry distinct
    interior vertices so the geometry usually pins the edge down.)
  * unreachable target  =>  None.

case = one network:  dict(n=<nodes>, edges=[[a, b, weight, orientation, interior_vertices], ...],
                          ids="int"|"str", fresh=<bool: new Node objects per edge end>, exact=<bool: dyadic weights>)
Node i sits at (10 i, i*i mod 7, 0); interior vertex j of edge k at (1000 + 10 k + j, -5 - k, 1 + j).
"""
import itertools
import random

ID = "C07"
BOUND = {
    "quick": "every network with 1..3 nodes and 0..3 edges over weights {0,1,2} x orientations {-1,0,1} "
             "(self-loops, parallel edges; 3-edge networks as multisets in a seeded insertion order, <=2 edges in "
             "every order; 0..3 interior vertices per edge, seeded) + 2500 seeded random multigraphs with 2..12 "
             "nodes, 0..40 edges; every ordered pair source != target",
    "thorough": "every network with 1..3 nodes and 0..3 edges over weights {0,1,2} x orientations {-1,0,1} in every "
                "insertion order (578 k networks; 0..3 interior vertices per edge, seeded) + 60 000 seeded random "
                "multigraphs with 2..12 nodes, 0..40 edges; every ordered pair source != target",
}
RULE = ("case = one network; shortest_path is called on every ordered pair of distinct nodes (by id and by Node "
        "object alternately); evaluation = one pair; non-trivial = the target is reachable (a path must be returned "
        "and is checked hop by hop); distinct by (n, edge list with geometry sizes, id style)")
CHUNK = 300
BUDGET_S = {"quick": 70, "thorough": 1100}
INF = float("inf")
W_SMALL = (0, 1, 2)
ORIENT = (-1, 0, 1)
INTERIOR = (0, 1, 1, 2, 3)


# ----------------------------------------------------------------------------- case generation
def small_alphabet(n):
    return [[a, b, w, o] for a in range(n) for b in range(n) for w in W_SMALL for o in ORIENT]


def random_graph(rnd):
    n = rnd.randint(2, 12)
    m = rnd.choice([rnd.randint(0, 6), rnd.randint(0, 40), rnd.randint(n, 40), rnd.randint(25, 40)])
    flavour = rnd.choice(["small", "small", "dyadic", "dyadic", "big", "float"])
    p_zero = rnd.choice([0.0, 0.15, 0.4, 0.8])
    p_loop = rnd.choice([0.0, 0.1, 0.3])
    omix = rnd.choice([(1, 1, 1), (1, 1, 1), (3, 1, 3), (1, 0, 1), (0, 1, 0), (1, 0, 0), (0, 0, 1), (4, 1, 0)])
    shape = rnd.choice(["any", "any", "fewpairs", "clusters", "chain", "chain"])
    pairs = None
    if shape == "fewpairs":        # many parallel edges of different weight on a handful of node pairs
        pairs = [(rnd.randrange(n), rnd.randrange(n)) for _ in range(rnd.randint(1, max(1, n)))]
    split = rnd.randint(1, n - 1)

    def weight():
        if rnd.random() < p_zero:
            return 0
        if flavour == "small":
            return rnd.choice([1, 1, 2, 3])
        if flavour == "dyadic":
            return rnd.randint(1, 80) / 8.0
        if flavour == "big":
            return rnd.choice([1, 7, 250, 1000, rnd.randint(1, 1000)])
        return rnd.uniform(0.0, 10.0)

    edges = []
    for _ in range(m):
        if rnd.random() < p_loop:
            a = b = rnd.randrange(n)
        elif shape == "fewpairs":
            a, b = rnd.choice(pairs)
        elif shape == "clusters":
            part = rnd.random() < 0.5
            lo, hi = (0, split) if part else (split, n)
            a, b = rnd.randrange(lo, hi), rnd.randrange(lo, hi)
        elif shape == "chain":      # long routes: many hops between far-apart nodes
            a = rnd.randrange(n)
            b = min(n - 1, max(0, a + rnd.choice([-2, -1, 1, 1, 2])))
        else:
            a, b = rnd.randrange(n), rnd.randrange(n)
        o = rnd.choices(ORIENT, weights=omix)[0]
        edges.append([a, b, weight(), o, rnd.choice(INTERIOR)])
    if shape == "clusters" and edges and rnd.random() < 0.5:
        edges.append([rnd.randrange(0, split), rnd.randrange(split, n), weight(), rnd.choice(ORIENT), rnd.choice(INTERIOR)])
        rnd.shuffle(edges)
    return dict(n=n, edges=edges, ids=rnd.choice(["int", "str"]), fresh=rnd.random() < 0.5,
                exact=flavour != "float")


def cases(tier, seed):
    rnd = random.Random(seed)
    k = 0
    for n in (1, 2, 3):
        alpha = small_alphabet(n)
        for m in (0, 1, 2, 3):
            if tier == "thorough" or m <= 2:
                it = itertools.product(alpha, repeat=m)
            else:
                it = itertools.combinations_with_replacement(alpha, m)
            for es in it:
                es = [list(e) + [rnd.choice(INTERIOR)] for e in es]
                if tier != "thorough" and m == 3:
                    rnd.shuffle(es)
                k += 1
                yield dict(n=n, edges=es, ids="int" if k % 5 else "str", fresh=bool(k % 2), exact=True)
    for _ in range(2500 if tier == "quick" else 60000):
        yield random_graph(rnd)


# ----------------------------------------------------------------------------- specification (oracle)
def node_xyz(i):
    return (10.0 * i, float((i * i) % 7), 0.0)


def edge_polyline(case, k):
    """Stored geometry of edge k: source position, its own interior vertices, target position."""
    a, b, _w, _o, q = case["edges"][k]
    return [node_xyz(a)] + [(1000.0 + 10 * k + j, -5.0 - k, 1.0 + j) for j in range(q)] + [node_xyz(b)]


def traversals(case, u, v):
    """All ways of going from node u to node v along one edge: (edge index, weight, polyline oriented u -> v)."""
    out = []
    for k, (a, b, w, o, _q) in enumerate(case["edges"]):
        if a == u and b == v and o in (0, 1):       # two-way or direct, travelled as stored
            out.append((k, w, edge_polyline(case, k)))
        if b == u and a == v and o in (0, -1):      # two-way or reverse, travelled against the stored direction
            out.append((k, w, edge_polyline(case, k)[::-1]))
    return out


def true_distances(case):
    n = case["n"]
    D = [[INF] * n for _ in range(n)]
    for i in range(n):
        D[i][i] = 0
    for u in range(n):
        for v in range(n):
            for _k, w, _g in traversals(case, u, v):
                if w < D[u][v]:
                    D[u][v] = w
    for k in range(n):
        for i in range(n):
            dik = D[i][k]
            if dik == INF:
                continue
            for j in range(n):
                if dik + D[k][j] < D[i][j]:
                    D[i][j] = dik + D[k][j]
    return D


def close(a, b, exact):
    if exact:
        return a == b
    return abs(a - b) <= 1e-9 * max(1.0, abs(a), abs(b))


def explain(case, nodes, xyz, dist):
    """nodes: node indices of the returned path; xyz: returned coordinates; dist: true shortest distance.
    Returns None when some choice of edges satisfies every clause, else the first clause that fails."""
    hops = [(nodes[i], nodes[i + 1]) for i in range(len(nodes) - 1)]
    options = [traversals(case, u, v) for u, v in hops]
    for (u, v), opt in zip(hops, options):
        if not opt:
            return "consecutive nodes %d -> %d are joined by no edge traversable in that direction" % (u, v)
    exact = case["exact"]
    # weights alone
    sums = {0}
    for opt in options:
        sums = {s + w for s in sums for w in {w for _k, w, _g in opt}}
        if len(sums) > 5000:
            break
    else:
        if not any(close(s, dist, exact) for s in sums):
            return ("no choice of edges along the node path sums to the shortest distance %r (cheapest choice %r)"
                    % (dist, min(sums)))
    # geometry alone, then geometry and weights together (dynamic programme over the position in xyz;
    # weights are >= 0, so partial sums above the distance are dropped)
    slack = 0 if exact else 1e-9 * max(1.0, dist)
    found = {"geom": False, "both": False}
    if xyz[:1] == [node_xyz(nodes[0])]:
        reach = {1}                 # positions in xyz reachable by chaining admissible polylines
        sums_at = {1: {0}}          # position -> partial weight sums (<= dist) of such chains
        for opt in options:
            nreach, nsums = set(), {}
            pieces = {}
            for _k, w, g in opt:
                pieces.setdefault(tuple(g[1:]), set()).add(w)
            for piece, ws in pieces.items():
                piece = list(piece)
                for pos in reach:
                    if xyz[pos:pos + len(piece)] == piece:
                        nreach.add(pos + len(piece))
                        for acc in sums_at.get(pos, ()):
                            for w in ws:
                                if acc + w <= dist + slack:
                                    nsums.setdefault(pos + len(piece), set()).add(acc + w)
            reach, sums_at = nreach, nsums
        found["geom"] = len(xyz) in reach
        found["both"] = any(close(acc, dist, exact) for acc in sums_at.get(len(xyz), ()))
    if found["both"]:
        return None
    if not found["geom"]:
        want = [node_xyz(nodes[0])]
        for opt in options:       # one admissible chain, for the message
            want += min(opt, key=lambda t: t[1])[2][1:]
        return ("geometry is not the used edges' polylines chained along the direction of travel without repeated "
                "junctions: got %d vertices %r, e.g. expected %r" % (len(xyz), xyz[:12], want[:12]))
    return "the edges whose polylines make up the geometry do not sum to the shortest distance %r" % (dist,)


# ----------------------------------------------------------------------------- real code driver
def node_id(case, i):
    return i if case["ids"] == "int" else "N%02d" % i


def build(case):
    from tracklib.core.network import Network, Node, Edge
    from tracklib.core.track import Track
    from tracklib.core.obs import Obs
    from tracklib.core.obs_coords import ENUCoords

    net = Network()
    shared = [Node(node_id(case, i), ENUCoords(*node_xyz(i))) for i in range(case["n"])]

    def node(i):
        return Node(node_id(case, i), ENUCoords(*node_xyz(i))) if case["fresh"] else shared[i]
    for k, (a, b, w, o, _q) in enumerate(case["edges"]):
        geom = Track([Obs(ENUCoords(*p)) for p in edge_polyline(case, k)])
        e = Edge(k if case["ids"] == "int" else "E%02d" % k, geom)
        e.weight = w
        e.orientation = o
        net.addEdge(e, node(a), node(b))
    for i in range(case["n"]):
        net.addNode(node(i))
    return net


def check_case(case):
    fails = []
    n = case["n"]
    D = true_distances(case)
    ids = [node_id(case, i) for i in range(n)]
    net = build(case)
    ev = nt = 0
    for s in range(n):
        for t in range(n):
            if s == t:
                continue          # the statement speaks of targets other than the source
            ev += 1
            by_obj = (s + t) % 2 == 1
            call = "shortest_path(%r,%r)" % (ids[s], ids[t])
            try:
                if by_obj:
                    p = net.shortest_path(net.getNode(ids[s]), net.getNode(ids[t]))
                else:
                    p = net.shortest_path(ids[s], ids[t])
            except Exception as ex:              # noqa: BLE001
                fails.append("%s raised %s: %s" % (call, type(ex).__name__, ex))
                continue
            if D[s][t] == INF:
                if p is not None:
                    fails.append("%s returned a path %r although the target is unreachable"
                                 % (call, getattr(p, "path", None)))
                continue
            nt += 1
            if p is None:
                fails.append("%s returned None, the target is reachable at distance %r" % (call, D[s][t]))
                continue
            try:
                path = list(p.path)
                xyz = [(p.getX(i), p.getY(i), p.getZ(i)) for i in range(p.size())]
            except Exception as ex:              # noqa: BLE001
                fails.append("%s: cannot read .path / coordinates of the result: %s: %s" % (call, type(ex).__name__, ex))
                continue
            if len(path) < 2 or path[0] != ids[s] or path[-1] != ids[t] or any(x not in ids for x in path):
                fails.append("%s.path = %r does not list nodes from the source to the target" % (call, path))
                continue
            if not xyz or xyz[0] != node_xyz(s) or xyz[-1] != node_xyz(t):
                fails.append("%s geometry runs from %r to %r, source is at %r and target at %r (path %r)"
                             % (call, xyz[0] if xyz else None, xyz[-1] if xyz else None, node_xyz(s), node_xyz(t), path))
                continue
            why = explain(case, [ids.index(x) for x in path], xyz, D[s][t])
            if why is not None:
                fails.append("%s.path = %r: %s" % (call, path, why))
        if len(fails) > 4:
            break
    return dict(failures=fails[:6], evaluations=ev, nontrivial=nt)
