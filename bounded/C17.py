"""C17 bounded stand-in: 'abs_curv' and 'speed' features against their geometric definitions.

Oracle (from the statement, on the case's own numbers): leg_k = hypot(x_k - x_{k-1}, y_k - y_{k-1});
abs_curv_0 = 0, abs_curv_i - abs_curv_{i-1} = leg_i, abs_curv_{n-1} = fsum(legs), never decreasing;
speed_i = hypot(p_hi - p_lo) / (t_hi - t_lo) with (lo, hi) = (i-1, i+1) inside, (0, 1) and (n-2, n-1) at
the ends, NaN iff t_hi == t_lo.  Times are whole milliseconds, so t_hi - t_lo is known exactly.

Tolerances: abscissa 8 n eps * length (error of a running float sum of n non-negative terms; 0 when the
length is 0); speed: relative 4 ulp(T) / dt + 16 eps, where T is the epoch time of the fix - tracklib keeps
time as float epoch seconds, so an elapsed time carries up to ~ulp(T) of representation error (1.5e-11 s
for dates on 1970-01-01, 2.4e-7 s for 2020)."""
import itertools
import math
import random

ID = "C17"
BOUND = {
    "quick": "all position sequences over {A, B, C, far} x all gap sequences over {0, 1 s, 2.5 s} for 2..4 fixes (and over "
             "{A, B} x {0, 1 ms} for 5..6 fixes), 2 date regimes, 1-2 call orders each (rotating through 8); 4000 random ENU tracks of 2..12 fixes "
             "(legs 1e-9 m .. 1e7 m, repeated positions and timestamps, gaps 1 ms .. 1 day), random call order with "
             "repetition",
    "thorough": "as quick with exhaustive part up to 5 fixes (7 over {A, B}), every call order of the list, and 150000 "
                "random tracks of 2..40 fixes",
}
RULE = ("case = one ENU track (x, y, z in metres, whole-millisecond instants, date regime) and the order in which "
        "computeAbsCurv ('a') and estimate_speed ('s') are called, possibly repeatedly; non-trivial = all (n >= 2)")
CHUNK = 150
EPS = 2.220446049250313e-16
ORDERS = ["as", "sa", "aass", "ssaa", "asas", "saas", "a", "s"]
PTS = {"A": (0.0, 0.0, 0.0), "B": (3.0, 4.0, 7.0), "C": (-5.0, 12.0, -1.0), "F": (3.0e6, -4.0e6, 120.0)}


def cases(tier, seed):
    rnd = random.Random(seed)
    q = tier == "quick"
    k = 0
    for n in range(2, (4 if q else 5) + 1):
        for seq in itertools.product("ABCF", repeat=n):
            for gaps in itertools.product([0, 1000, 2500], repeat=n - 1):
                t = [0]
                for g in gaps:
                    t.append(t[-1] + g)
                for regime in ("1970", "2020"):
                    orders = ORDERS if not q else [ORDERS[k % 3], ORDERS[3 + k % 5]]
                    for order in orders if (not q or n <= 3) else orders[:1]:
                        k += 1
                        yield dict(x=[PTS[c][0] for c in seq], y=[PTS[c][1] for c in seq], z=[PTS[c][2] for c in seq],
                                   t=t, regime=regime, order=order, extra=k % 2 == 0)
    for n in range(5, (6 if q else 7) + 1):
        for seq in itertools.product("AB", repeat=n):
            for gaps in itertools.product([0, 1], repeat=n - 1):
                t = [0]
                for g in gaps:
                    t.append(t[-1] + g)
                k += 1
                yield dict(x=[PTS[c][0] for c in seq], y=[PTS[c][1] for c in seq], z=[PTS[c][2] for c in seq],
                           t=t, regime="2020" if k % 2 else "1970", order=ORDERS[k % 6], extra=k % 3 == 0)
    for _ in range(4000 if q else 150000):
        n = rnd.randrange(2, 13 if q or rnd.random() < 0.7 else 41)
        regime = rnd.choice(["1970", "2020"])
        style = rnd.choice(["mixed", "short", "long", "walk", "line"])
        x, y, z = [rnd.uniform(-1e5, 1e5)], [rnd.uniform(-1e5, 1e5)], [rnd.uniform(0, 500)]
        t = [rnd.choice([0, rnd.randrange(0, 3600000)])]
        p_same_pos = rnd.choice([0.0, 0.2, 0.5])
        p_same_t = rnd.choice([0.0, 0.2, 0.5])
        heading = rnd.uniform(0, 2 * math.pi)
        for i in range(1, n):
            if rnd.random() < p_same_pos:
                x.append(x[-1]); y.append(y[-1]); z.append(rnd.choice([z[-1], z[-1] + 50.0]))
            elif rnd.random() < 0.1 and i >= 2:
                x.append(x[i - 2]); y.append(y[i - 2]); z.append(z[i - 2])            # back to the fix before
            else:
                e = dict(mixed=rnd.uniform(-9, 7), short=rnd.uniform(-9, -3), long=rnd.uniform(3, 7),
                         walk=rnd.uniform(-1, 2), line=rnd.uniform(0, 2))[style]
                leg = 10.0 ** e
                if style != "line":
                    heading = rnd.uniform(0, 2 * math.pi)
                x.append(x[-1] + leg * math.cos(heading)); y.append(y[-1] + leg * math.sin(heading))
                z.append(z[-1] + rnd.uniform(-1, 1) * leg)
            if rnd.random() < p_same_t:
                t.append(t[-1])
            else:
                t.append(t[-1] + rnd.choice([1, 2, 10, 500, 1000, 1000, 1000, 2500, 60000, 3600000, 86400000 // n]))
        if regime == "1970" and t[-1] >= 86400000:          # keep the 1970 regime inside its first day
            t = [v * 86399999 // t[-1] for v in t]
        order = "".join(rnd.choice("as") for _ in range(rnd.randrange(1, 6)))
        yield dict(x=x, y=y, z=z, t=t, regime=regime, order=order, extra=rnd.random() < 0.4)


# ------------------------------------------------------------------ specification
def spec(case):
    x, y, t = case["x"], case["y"], case["t"]
    n = len(x)
    legs = [math.hypot(x[i] - x[i - 1], y[i] - y[i - 1]) for i in range(1, n)]
    speed, dts = [], []
    for i in range(n):
        lo, hi = (0, 1) if i == 0 else ((n - 2, n - 1) if i == n - 1 else (i - 1, i + 1))
        dt_ms = t[hi] - t[lo]
        dts.append(dt_ms / 1000.0)
        speed.append(float("nan") if dt_ms == 0 else math.hypot(x[hi] - x[lo], y[hi] - y[lo]) / (dt_ms / 1000.0))
    return legs, speed, dts


# ------------------------------------------------------------------ real side
def obstime(ObsTime, regime, ms):
    d, r = divmod(ms, 86400000)
    h, r = divmod(r, 3600000)
    mi, r = divmod(r, 60000)
    s, ms = divmod(r, 1000)
    return ObsTime(int(regime), 1, 1 + d, h, mi, s, ms)


def nan_eq(a, b):
    return (a != a and b != b) or a == b


def check_case(case):
    from tracklib.core.obs import Obs
    from tracklib.core.obs_coords import ENUCoords
    from tracklib.core.obs_time import ObsTime
    from tracklib.core.track import Track
    from tracklib.algo.cinematics import computeAbsCurv

    x, y, z, t = case["x"], case["y"], case["z"], case["t"]
    n = len(x)
    fails = []
    stamps = [obstime(ObsTime, case["regime"], v) for v in t]
    fields = [(s.year, s.month, s.day, s.hour, s.min, s.sec, s.ms) for s in stamps]
    track = Track([Obs(ENUCoords(x[i], y[i], z[i]), stamps[i]) for i in range(n)])
    if case["extra"]:
        track.createAnalyticalFeature("tag", [1000 + i for i in range(n)])
    legs, want_speed, dts = spec(case)
    total = math.fsum(legs)
    tol_a = 8 * n * EPS * total
    t_epoch = 86400.0 * 2 if case["regime"] == "1970" else 1.58e9
    first = {}
    n_eval = 0

    def frame(after):
        for i, o in enumerate(track.getObsList()):
            p, s = o.position, o.timestamp
            if (p.getX(), p.getY(), p.getZ()) != (x[i], y[i], z[i]):
                return "%s moved fix %d to %r" % (after, i, (p.getX(), p.getY(), p.getZ()))
            if (s.year, s.month, s.day, s.hour, s.min, s.sec, s.ms) != fields[i]:
                return "%s changed the timestamp of fix %d to %s" % (after, i, s)
        if track.size() != n:
            return "%s changed the number of fixes to %d" % (after, track.size())
        return None

    def check_abs(a, where):
        a = list(a)
        if len(a) != n:
            return "%s has %d values for %d fixes" % (where, len(a), n)
        if a[0] != 0:
            return "%s starts at %r, not 0" % (where, a[0])
        for i in range(1, n):
            if not a[i] >= a[i - 1]:
                return "%s decreases at fix %d: %r -> %r" % (where, i, a[i - 1], a[i])
            if not abs((a[i] - a[i - 1]) - legs[i - 1]) <= tol_a:
                return "%s grows by %r from fix %d to %d, their planimetric distance is %r" % (
                    where, a[i] - a[i - 1], i - 1, i, legs[i - 1])
        if not abs(a[-1] - total) <= tol_a:
            return "%s ends at %r, planimetric length is %r" % (where, a[-1], total)
        return None

    def check_speed(v, where):
        v = list(v)
        if len(v) != n:
            return "%s has %d values for %d fixes" % (where, len(v), n)
        for i in range(n):
            w = want_speed[i]
            if w != w:
                if v[i] == v[i]:
                    return "%s[%d] = %r, expected NaN (elapsed time 0)" % (where, i, v[i])
            else:
                tol = w * (4 * math.ulp(t_epoch) / dts[i] + 16 * EPS)
                if not (isinstance(v[i], (int, float)) and abs(v[i] - w) <= tol):
                    return "%s[%d] = %r, expected %r (distance between neighbours over %r s)" % (where, i, v[i], w, dts[i])
        return None

    for step, op in enumerate(case["order"]):
        name = "abs_curv" if op == "a" else "speed"
        call = "call %d (%s)" % (step + 1, "computeAbsCurv" if op == "a" else "estimate_speed")
        try:
            ret = computeAbsCurv(track) if op == "a" else track.estimate_speed()
            stored = track.getAnalyticalFeature(name)
            via_index = track[name]
        except Exception as e:      # noqa: BLE001
            fails.append("%s raised %s: %s" % (call, type(e).__name__, e))
            n_eval += 1
            break
        n_eval += 1
        f = (check_abs if op == "a" else check_speed)(ret, "%s: returned %s" % (call, name))
        f = f or (check_abs if op == "a" else check_speed)(stored, "%s: track feature %s" % (call, name))
        if not f and not all(nan_eq(p, r) for p, r in zip(via_index, stored)):
            f = "%s: track[%r] = %r differs from the stored feature %r" % (call, name, list(via_index), list(stored))
        if not f and name in first and not all(nan_eq(p, r) for p, r in zip(first[name], ret)):
            f = "%s: repeated computation gives %r, first gave %r" % (call, list(ret), first[name])
        first.setdefault(name, list(ret))
        f = f or frame(call)
        # the feature computed earlier must still read the same after this computation
        other = "speed" if op == "a" else "abs_curv"
        if not f and other in first:
            try:
                now = list(track.getAnalyticalFeature(other))
                if len(now) != n or not all(nan_eq(p, r) for p, r in zip(now, first[other])):
                    f = "%s: feature %s now reads %r, was %r" % (call, other, now, first[other])
            except Exception as e:      # noqa: BLE001
                f = "%s: feature %s no longer readable: %s: %s" % (call, other, type(e).__name__, e)
        if f:
            fails.append(f)
            break
    return dict(failures=fails, evaluations=n_eval, nontrivial=n_eval)
