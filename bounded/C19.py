"""C19 bounded stand-in: summarize() of a small collection on a regular grid.

Oracle (from the property statement only):
  * every observation carries a unique power of two in the feature 'id'; the grid 'id#co_sum' therefore
    tells, cell by cell, exactly which observations were put there.  Every observation must show up in
    exactly one cell, and the footprint of that cell
        [xmin + col*rx, xmin + (col+1)*rx] x [ymin + (nrow-1-row)*ry, ymin + (nrow-row)*ry]      (row 0 = top)
    computed from the raster's origin and resolution must contain its position (closed, float slack);
    Raster.getCell(position) must name the same cell;
  * counts summed over all cells = number of observations (for NaN-free features and for 'uid');
  * for each feature in {id, f (with NaN), g, uid} and each operator in {count, sum, min, max, avg, median}
    the cell value = the aggregate, written here as a plain fold, of the non-NaN feature values of the
    observations of that cell; empty set -> 0 for count and sum, NO_DATA_VALUE otherwise."""
import itertools
import math
import random

ID = "C19"
BOUND = {
    "quick": "exhaustive: collections made of two opposite bbox corners of a 2x2 square + 1 or 2 further fixes on the 5x5 "
             "half-step lattice (350 collections) x 7 resolutions (square, non-square, finer / coarser than the box, "
             "non-dividing) x 3 margins (0, 0.25, 0.05); then 2500 seeded-random collections of 1..4 tracks x 1..6 fixes "
             "(fixes on cell borders, grid corners, outer border, one ulp beside borders, cell centres, anywhere), 10 "
             "resolutions, 8 margins, 4 origins incl. large ENU offsets; all 6 operators x 4 features each.  Precondition: the "
             "collection's bounding box has positive width and height",
    "thorough": "same exhaustive part with 3 further fixes sampled (6000 extra collections) x 7 resolutions x 3 margins; "
                "60000 seeded-random collections of 1..4 tracks x 1..8 fixes.  Precondition: bounding box of positive width and height",
}
RULE = ("precondition: the bounding box of the collection has positive width and height (every generated collection "
        "contains fixes realising both ends of both axes); case = one collection + resolution + margin, summarised once "
        "with 24 (feature, operator) maps; non-trivial = the collection has a fix on a cell border / outer border or a "
        "cell holding >= 2 fixes; random cases drawn from random.Random(seed)")
CHUNK = 40
BUDGET_S = {"quick": 75, "thorough": 1500}

OPS = ["co_count", "co_sum", "co_min", "co_max", "co_avg", "co_median"]
FEATS = ["id", "f", "g", "uid"]
FVALS = [-3.0, -0.25, 0.0, 0.5, 1.0, 1.0, 2.75, 10.0, "nan", "nan"]
RES_SMALL = [[1, 1], [2, 1], [1, 2], [0.5, 0.5], [0.75, 1.5], [3, 3], [0.4, 0.7]]
MARGINS_SMALL = [0.0, 0.25, 0.05]


# ----------------------------------------------------------------------------------------------
# case generation
# ----------------------------------------------------------------------------------------------
def values_for(rnd, tracks, all_nan=False):
    f, g = [], []
    for tr in tracks:
        f.append(["nan" if all_nan else rnd.choice(FVALS) for _ in tr])
        g.append([rnd.randrange(-20, 21) * 0.25 for _ in tr])
    return f, g


def small_cases(tier, rnd):
    lattice = [[0.5 * i, 0.5 * j] for i in range(5) for j in range(5)]
    free = [[p] for p in lattice] + [[p, q] for p, q in itertools.combinations_with_replacement(lattice, 2)]
    if tier == "thorough":
        free += [[rnd.choice(lattice) for _ in range(3)] for _ in range(6000)]
    for n, extra in enumerate(free):
        corners = [[0, 0], [2, 2]] if n % 2 == 0 else [[0, 2], [2, 0]]
        pts = [corners[0]] + [list(p) for p in extra] + [corners[1]]
        # one track, or the same fixes split over two tracks
        tracks = [pts] if n % 3 else [pts[:len(pts) // 2], pts[len(pts) // 2:]]
        for res in RES_SMALL:
            for m in MARGINS_SMALL:
                f, g = values_for(rnd, tracks)
                yield dict(kind="lattice", tracks=tracks, f=f, g=g, res=res, margin=m)


def coordinate_pool(rnd, lo, span, r, m):
    """Candidate coordinates in [lo, lo+span] for a grid whose origin is lo - m*span and whose step is r."""
    hi = lo + span
    o = lo - m * span
    pool = [lo, hi, lo, hi]
    k0 = math.ceil((lo - o) / r)
    borders = []
    k = k0
    while o + k * r <= hi and len(borders) < 40:
        if o + k * r >= lo:
            borders.append(o + k * r)
        k += 1
    for b in borders:
        pool += [b, b]
        for nb in (math.nextafter(b, -math.inf), math.nextafter(b, math.inf)):
            if lo <= nb <= hi:
                pool.append(nb)
        c = b + 0.5 * r
        if lo <= c <= hi:
            pool.append(c)
    pool += [lo + rnd.random() * span for _ in range(6)]
    return [min(max(v, lo), hi) for v in pool]


def random_case(rnd, maxfix):
    r0 = rnd.choice([1, 2, 2.5, 0.1, 0.3, 7, 10, 60, 100, 1 / 3])
    if rnd.random() < 0.5:
        res = [r0, r0]
    else:
        res = [r0, rnd.choice([1, 2, 2.5, 0.1, 0.3, 7, 10, 60, 100, 1 / 3])]
    m = rnd.choice([0.0, 0.0, 0.05, 0.1, 0.25, 0.5, 1.0, rnd.random() * 0.3])
    lo = list(rnd.choice([[0, 0], [-7.5, 3], [651234.5, 6861234.25], [-1000, -1000]]))
    # extent of the data such that the margin-extended box spans cx (cy) cells, whole or not
    cx, cy = (rnd.choice([0.5, 1, 1, 2, 2, 3, 3.7, 4, 5.2]) for _ in range(2))
    span = [cx * res[0] / (1 + 2 * m), cy * res[1] / (1 + 2 * m)]
    px = coordinate_pool(rnd, lo[0], span[0], res[0], m)
    py = coordinate_pool(rnd, lo[1], span[1], res[1], m)
    hi = [lo[0] + span[0], lo[1] + span[1]]
    nt = rnd.randint(1, 4)
    tracks = [[[rnd.choice(px), rnd.choice(py)] for _ in range(rnd.randint(1, maxfix))] for _ in range(nt)]
    # make the collection realise the intended bounding box
    how = rnd.random()
    if how < 0.4:
        forced = [[lo[0], lo[1]], [hi[0], hi[1]]]
    elif how < 0.6:
        forced = [[lo[0], hi[1]], [hi[0], lo[1]]]
    elif how < 0.8:
        forced = [[lo[0], rnd.choice(py)], [hi[0], rnd.choice(py)], [rnd.choice(px), lo[1]], [rnd.choice(px), hi[1]]]
    else:
        forced = [[lo[0], lo[1]], [hi[0], hi[1]], [lo[0], hi[1]], [hi[0], lo[1]]]
    for p in forced:
        tr = rnd.choice(tracks)
        tr.insert(rnd.randint(0, len(tr)), p)
    f, g = values_for(rnd, tracks, all_nan=rnd.random() < 0.03)
    return dict(kind="random", tracks=tracks, f=f, g=g, res=res, margin=m)


def cases(tier, seed):
    rnd = random.Random(seed)
    for c in small_cases(tier, rnd):
        yield c
    for _ in range(2500 if tier == "quick" else 60000):
        yield random_case(rnd, 6 if tier == "quick" else 8)


# ----------------------------------------------------------------------------------------------
# oracle
# ----------------------------------------------------------------------------------------------
def spec_aggregate(op, values, nodata):
    v = [x for x in values if x == x]                   # the non-NaN values
    if op == "co_count":
        return len(v)
    if op == "co_sum":
        return math.fsum(v) if v else 0
    if not v:
        return nodata
    if op == "co_min":
        return min(v)
    if op == "co_max":
        return max(v)
    if op == "co_avg":
        return math.fsum(v) / len(v)
    if op == "co_median":
        s = sorted(v)
        k = len(s)
        return s[k // 2] if k % 2 else 0.5 * (s[k // 2 - 1] + s[k // 2])
    raise ValueError(op)


def is_number(x):
    return isinstance(x, (int, float)) and not isinstance(x, bool) and x == x


def check_case(case):
    import tracklib
    from tracklib import Obs, ENUCoords, ObsTime, Track, TrackCollection, summarize, NO_DATA_VALUE
    ops = {name: getattr(tracklib, name) for name in OPS}
    rx, ry = case["res"]
    margin = case["margin"]
    fails = []
    obs = []                                            # (k, x, y, {feature: value})
    tracks = []
    for u, pts in enumerate(case["tracks"]):
        tr = Track([Obs(ENUCoords(p[0], p[1], 0), ObsTime(2020, 1, 1, 0, u, i)) for i, p in enumerate(pts)], u + 1)
        ids, fv, gv = [], [], []
        for i, p in enumerate(pts):
            k = len(obs)
            f = case["f"][u][i]
            f = float("nan") if f == "nan" else float(f)
            g = float(case["g"][u][i])
            obs.append((k, p[0], p[1], dict(id=float(2 ** k), f=f, g=g, uid=u + 1)))
            ids.append(float(2 ** k)); fv.append(f); gv.append(g)
        tr.createAnalyticalFeature("id", ids)
        tr.createAnalyticalFeature("f", fv)
        tr.createAnalyticalFeature("g", gv)
        tracks.append(tr)
    n = len(obs)
    xs, ys = [o[1] for o in obs], [o[2] for o in obs]
    tag = ""
    if max(xs) == min(xs) or max(ys) == min(ys):        # precondition of the property: a box with an inside
        return dict(failures=[], evaluations=0, nontrivial=0)
    what = "summarize(tracks=%s, res=%s, margin=%r)" % (case["tracks"], case["res"], margin)
    pairs = [(ft, op) for ft in FEATS for op in OPS]
    try:
        raster = summarize(TrackCollection(tracks), [ft for ft, _ in pairs], [ops[op] for _, op in pairs],
                           (rx, ry), margin)
        ncol, nrow, xmin, ymin = raster.ncol, raster.nrow, raster.xmin, raster.ymin
        grids = {(ft, op): raster.getAFMap(ft + "#" + op).grid for ft, op in pairs}
    except Exception as e:
        return dict(failures=["%s%s raised %s: %s" % (tag, what, type(e).__name__, e)], evaluations=1, nontrivial=1)

    # --- shape of every map
    for key, gr in grids.items():
        if not (isinstance(gr, list) and len(gr) == nrow and all(isinstance(r, list) and len(r) == ncol for r in gr)):
            fails.append("%s%s: map %s#%s is not a %dx%d (rows x cols) grid" % (tag, what, key[0], key[1], nrow, ncol))
    if fails or nrow <= 0 or ncol <= 0:
        if not fails:
            fails.append("%s%s: grid has %d rows x %d columns, no cell can hold the %d observations" % (tag, what, nrow, ncol, n))
        return dict(failures=fails, evaluations=1, nontrivial=1)

    # --- which observations sit in which cell, read off the 'id#co_sum' map (sum of distinct powers of two)
    members = {}
    where = {}
    decode_ok = True
    for r in range(nrow):
        for c in range(ncol):
            v = grids[("id", "co_sum")][r][c]
            if not is_number(v) or v < 0 or v != int(v) or v >= 2 ** n:
                fails.append("%s%s: id#co_sum[%d][%d] = %r is not a sum of observation ids" % (tag, what, r, c, v))
                decode_ok = False
                continue
            ks = [k for k in range(n) if (int(v) >> k) & 1]
            members[(r, c)] = ks
            for k in ks:
                where.setdefault(k, []).append((r, c))
    slack_x = 1e-9 * rx + 8 * math.ulp(max(abs(min(xs)), abs(max(xs)), abs(xmin)))
    slack_y = 1e-9 * ry + 8 * math.ulp(max(abs(min(ys)), abs(max(ys)), abs(ymin)))
    border = False
    if decode_ok:
        for k, x, y, _ in obs:
            cells = where.get(k, [])
            if len(cells) != 1:
                fails.append("%s%s: observation %d at (%r, %r) is in %d cells %s, expected exactly one"
                             % (tag, what, k, x, y, len(cells), cells))
                continue
            r, c = cells[0]
            x0, x1 = xmin + c * rx, xmin + (c + 1) * rx
            y0, y1 = ymin + (nrow - 1 - r) * ry, ymin + (nrow - r) * ry
            if not (x0 - slack_x <= x <= x1 + slack_x and y0 - slack_y <= y <= y1 + slack_y):
                fails.append("%s%s: observation %d at (%r, %r) was put in cell row %d col %d whose footprint is "
                             "[%r, %r] x [%r, %r] (origin (%r, %r), %d rows)" % (tag, what, k, x, y, r, c, x0, x1, y0, y1, xmin, ymin, nrow))
            if min(abs(x - x0), abs(x - x1)) <= slack_x or min(abs(y - y0), abs(y - y1)) <= slack_y:
                border = True
            try:
                cell = raster.getCell(ENUCoords(x, y, 0))
            except Exception as e:
                fails.append("%s%s: getCell((%r, %r)) raised %s: %s" % (tag, what, x, y, type(e).__name__, e))
                continue
            if cell is None or tuple(cell) != (c, r):
                fails.append("%s%s: getCell((%r, %r)) = %r (col, row) but the observation was aggregated in row %d col %d"
                             % (tag, what, x, y, cell, r, c))
    if not decode_ok or len(fails) > 0:
        return dict(failures=fails[:6], evaluations=len(pairs), nontrivial=len(pairs))

    # --- conservation
    for ft in ("id", "g", "uid"):
        tot = sum(grids[(ft, "co_count")][r][c] for r in range(nrow) for c in range(ncol)
                  if is_number(grids[(ft, "co_count")][r][c]))
        if tot != n:
            fails.append("%s%s: %s#co_count sums to %r over the grid, there are %d observations" % (tag, what, ft, tot, n))
    state = getattr(raster, "collectionValuesGrid", None)
    if isinstance(state, dict):
        for ft in FEATS:
            if ft in state:
                tot = sum(len(state[ft][r][c]) for r in range(nrow) for c in range(ncol))
                if tot != n:
                    fails.append("%s%s: collectionValuesGrid[%s] holds %d values, there are %d observations" % (tag, what, ft, tot, n))

    # --- per-cell aggregates
    crowded = False
    for (ft, op), gr in grids.items():
        for r in range(nrow):
            for c in range(ncol):
                ks = members.get((r, c), [])
                if len(ks) >= 2:
                    crowded = True
                vals = [obs[k][3][ft] for k in ks]
                want = spec_aggregate(op, vals, NO_DATA_VALUE)
                got = gr[r][c]
                tol = 1e-9 * (1.0 + sum(abs(v) for v in vals if v == v))
                if not is_number(got) or abs(got - want) > tol:
                    shown = ["nan" if v != v else v for v in vals]
                    fails.append("%s%s: %s#%s[row %d][col %d] = %r, the cell holds observations %s with %s values %s -> expected %r"
                                 % (tag, what, ft, op, r, c, got, ks, ft, shown, want))
                    if len(fails) > 5:
                        return dict(failures=fails, evaluations=len(pairs), nontrivial=len(pairs))
    return dict(failures=fails, evaluations=len(pairs), nontrivial=len(pairs) if (border or crowded) else 0)
