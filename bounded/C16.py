"""C16 bounded stand-in: Douglas-Peucker / Visvalingam simplification on small ENU tracks.

Oracle (from the property statement, nothing of the implementation):
  * the returned observations map to strictly increasing indices of the input (every fix carries a
    unique timestamp, positions are compared with the coordinates the case was built from),
  * index 0 and index n-1 are present,
  * no exception, whatever the repetitions / coincidences / closed loops,
  * Douglas-Peucker only: every input position is within the tolerance of the returned polyline, the
    distance being the plain Euclidean point-to-polyline distance (parameter clamped to [0,1], a
    degenerate segment is a point)."""
import itertools
import math
import random

ID = "C16"
BOUND = {
    "quick": "every track of 2..4 fixes on the 3x3 integer grid and every track of 5 fixes on it that starts at (0,0), (1,0) or "
             "(1,1) (one start cell per symmetry class; 27054 tracks in all) + 4000 seeded-random tracks of 2..12 fixes "
             "(integer / float / large-offset / tiny coordinates; duplicates, collinear runs, back-tracking, revisits, "
             "closed loops, all-coincident); each x 10 fixed tolerances 1e-6..1e3 x extent + 2 random ones, x {DP, Visvalingam}",
    "thorough": "every track of 2..5 fixes on the 3x3 grid, of 4 fixes on the 4x4 grid, and of 6 fixes on the 3x3 grid starting at "
                "(0,0), (1,0) or (1,1) (309103 tracks) + 200000 seeded-random tracks of 2..14 fixes; same tolerances, both modes",
}
RULE = ("case = one track (list of [x,y]) evaluated under every tolerance and both modes; grid tracks are enumerated "
        "exhaustively, random tracks are built from a skeleton by duplicate / collinear / back-track / revisit / close edits; "
        "non-trivial = evaluation on a track of >= 3 fixes")
CHUNK = 200
BUDGET_S = {"quick": 75, "thorough": 1500}

FACTORS = [1e-6, 1e-3, 1e-2, 0.1, 0.25, 0.5, 1.0, 2.0, 10.0, 1e3]


# ----------------------------------------------------------------------------------------------
# case generation
# ----------------------------------------------------------------------------------------------
REPRESENTATIVE_STARTS = [[0, 0], [1, 0], [1, 1]]      # one start cell per class of the 3x3 grid under its 8 symmetries


def grid_tracks(w, h, n, starts=None):
    cells = [[x, y] for x in range(w) for y in range(h)]
    for first in (starts or cells):
        for combo in itertools.product(cells, repeat=n - 1):
            yield [list(first)] + [list(p) for p in combo]


def lerp(a, b, t):
    return [a[0] + t * (b[0] - a[0]), a[1] + t * (b[1] - a[1])]


def random_track(rnd, nmax):
    mode = rnd.choice(["int", "int", "float", "offset", "tiny"])
    if mode == "int":
        g = rnd.choice([2, 3, 4, 6, 10])
        pt = lambda: [rnd.randrange(g), rnd.randrange(g)]
    elif mode == "float":
        pt = lambda: [rnd.uniform(-50, 50), rnd.uniform(-50, 50)]
    elif mode == "offset":
        pt = lambda: [651234.5 + rnd.uniform(0, 100), 6861234.25 + rnd.uniform(0, 100)]
    else:
        pt = lambda: [rnd.uniform(0, 1e-3), rnd.uniform(0, 1e-3)]
    n = rnd.randint(2, nmax)
    shape = rnd.random()
    tags = [mode]
    if shape < 0.04:                                   # every fix at the same position
        p = pt()
        return [list(p) for _ in range(n)], tags + ["all-coincident"]
    if shape < 0.08:                                   # A,B,A,B,...
        a, b = pt(), pt()
        return [list(a if i % 2 == 0 else b) for i in range(n)], tags + ["alternating"]
    if shape < 0.14:                                   # one straight run, equally spaced (exactly collinear on integers)
        a = pt()
        d = [rnd.choice([-2, -1, 0, 1, 2]), rnd.choice([-2, -1, 0, 1, 2])]
        steps = [rnd.choice([0, 1, 1, 2, -1]) for _ in range(n)]
        pts, k = [], 0
        for s in steps:
            pts.append([a[0] + k * d[0], a[1] + k * d[1]])
            k += s
        return pts, tags + ["straight"]
    k = rnd.randint(1, max(1, min(n, 6)))
    pts = [pt() for _ in range(k)]
    guard = 0
    while len(pts) < n and guard < 100:
        guard += 1
        op = rnd.choice(["dup", "col", "back", "revisit", "new", "run"])
        m = len(pts)
        if op == "dup":
            i = rnd.randrange(m)
            pts.insert(i + 1, list(pts[i]))
        elif op == "col" and m >= 2:
            i = rnd.randrange(m - 1)
            pts.insert(i + 1, lerp(pts[i], pts[i + 1], rnd.choice([0.5, 0.25, 0.75, rnd.random()])))
        elif op == "back" and m >= 2:                  # ... A, B, (point between A and B), ...
            i = rnd.randrange(m - 1)
            pts.insert(i + 2, lerp(pts[i], pts[i + 1], rnd.choice([0.5, 0.0, 1.5, -0.5])))
        elif op == "revisit":
            pts.insert(rnd.randint(1, m), list(pts[rnd.randrange(m)]))
        elif op == "run" and m >= 2:                   # prolong the last leg by the same step
            pts.append([2 * pts[-1][0] - pts[-2][0], 2 * pts[-1][1] - pts[-2][1]])
        else:
            pts.insert(rnd.randint(0, m), pt())
        tags.append(op)
    pts = pts[:n]
    if len(pts) < 2:
        pts.append(pt())
    c = rnd.random()
    if c < 0.30 and len(pts) >= 2:                     # closed loop: last position = first position
        if len(pts) >= 3 and rnd.random() < 0.5:
            pts[-1] = list(pts[0])
        else:
            pts.append(list(pts[0]))
        tags.append("closed")
    elif c < 0.36 and len(pts) >= 3:                   # loop walked twice
        pts = (pts + pts)[:nmax]
        tags.append("twice")
    return pts, tags


def cases(tier, seed):
    rnd = random.Random(seed)
    R = REPRESENTATIVE_STARTS
    spaces = [(3, 3, 2, None), (3, 3, 3, None), (3, 3, 4, None)]
    spaces += [(3, 3, 5, R)] if tier == "quick" else [(3, 3, 5, None), (4, 4, 4, None), (3, 3, 6, R)]
    for w, h, n, starts in spaces:
        for pts in grid_tracks(w, h, n, starts):
            yield dict(kind="grid", pts=pts, extra=[], af=False, z=False)
    nmax = 12 if tier == "quick" else 14
    for _ in range(4000 if tier == "quick" else 200000):
        pts, tags = random_track(rnd, nmax)
        yield dict(kind="rnd", pts=pts, tags=tags,
                   extra=[10 ** rnd.uniform(-3, 3), 10 ** rnd.uniform(-1, 0.5)],
                   af=rnd.random() < 0.25, z=rnd.random() < 0.3)


# ----------------------------------------------------------------------------------------------
# oracle
# ----------------------------------------------------------------------------------------------
def dist_point_segment(p, a, b):
    """Euclidean distance from p to the closed segment [a,b] (a == b allowed)."""
    ux, uy = b[0] - a[0], b[1] - a[1]
    wx, wy = p[0] - a[0], p[1] - a[1]
    uu = ux * ux + uy * uy
    if uu == 0:
        return math.hypot(wx, wy)
    t = (wx * ux + wy * uy) / uu
    t = 0.0 if t < 0 else (1.0 if t > 1 else t)
    return math.hypot(wx - t * ux, wy - t * uy)


def dist_point_polyline(p, poly):
    if len(poly) == 1:
        return math.hypot(p[0] - poly[0][0], p[1] - poly[0][1])
    return min(dist_point_segment(p, poly[i], poly[i + 1]) for i in range(len(poly) - 1))


def tolerances(case):
    pts = case["pts"]
    ext = max(max(p[0] for p in pts) - min(p[0] for p in pts), max(p[1] for p in pts) - min(p[1] for p in pts))
    unit = ext if ext > 0 else 1.0
    return ext, [f * unit for f in FACTORS + list(case.get("extra") or [])]


def check_case(case):
    import tracklib
    from tracklib import Obs, ENUCoords, ObsTime
    from tracklib.algo.simplification import (simplify, MODE_SIMPLIFY_DOUGLAS_PEUCKER,
                                              MODE_SIMPLIFY_VISVALINGAM)
    pts = case["pts"]
    n = len(pts)
    zs = [1.5 * i if case.get("z") else 0.0 for i in range(n)]
    ext, tols = tolerances(case)
    maxabs = max(max(abs(p[0]), abs(p[1])) for p in pts)
    fails = []
    n_eval = 0

    def build():
        tr = tracklib.Track([Obs(ENUCoords(pts[i][0], pts[i][1], zs[i]), ObsTime(2020, 1, 1, 0, i // 60, i % 60))
                             for i in range(n)], 7, 3)
        if case.get("af"):
            tr.createAnalyticalFeature("k", [float(i) for i in range(n)])
        return tr

    for eps in tols:
        for mode, name in ((MODE_SIMPLIFY_DOUGLAS_PEUCKER, "douglas_peucker"), (MODE_SIMPLIFY_VISVALINGAM, "visvalingam")):
            n_eval += 1
            what = "simplify(%s, tol=%r, %s)" % (pts, eps, name)
            track = build()
            try:
                out = simplify(track, eps, mode)
                m = out.size()
                got = []
                for j in range(m):
                    o = out.getObs(j)
                    got.append((o.timestamp.min * 60 + o.timestamp.sec,
                                o.position.getX(), o.position.getY(), o.position.getZ()))
            except Exception as e:  # any exception on an in-scope track is a failure
                fails.append("%s raised %s: %s" % (what, type(e).__name__, e))
                continue
            idx = [g[0] for g in got]
            bad = [g for g in got if not (0 <= g[0] < n) or (g[1], g[2], g[3]) != (pts[g[0]][0], pts[g[0]][1], zs[g[0]])]
            if bad:
                fails.append("%s returns a fix that is not an input fix: (k,x,y,z)=%s" % (what, bad[0]))
                continue
            if any(idx[j] >= idx[j + 1] for j in range(m - 1)):
                fails.append("%s returns input indices %s: not a subsequence in the original order" % (what, idx))
                continue
            if m == 0 or idx[0] != 0:
                fails.append("%s lost the first fix: returned indices %s" % (what, idx))
            if m == 0 or idx[-1] != n - 1:
                fails.append("%s lost the last fix: returned indices %s" % (what, idx))
            if mode == MODE_SIMPLIFY_DOUGLAS_PEUCKER and m > 0:
                poly = [pts[k] for k in idx]
                slack = 1e-9 * eps + 1e-12 * ext + 16 * math.ulp(maxabs)
                for i in range(n):
                    d = dist_point_polyline(pts[i], poly)
                    if d > eps + slack:
                        fails.append("%s keeps indices %s; input fix %d %s is %r away from that polyline (> tolerance)"
                                     % (what, idx, i, pts[i], d))
                        break
            if len(fails) > 4:
                break
        if len(fails) > 4:
            break
    return dict(failures=fails, evaluations=n_eval, nontrivial=n_eval if n >= 3 else 0)
