"""C05 — linear resampling returns the piecewise-linear interpolant of the track.

interpolation.__resampleTemporal: the resampling loop (from `interp_points = []` up to `track.setObsList(...)`) is a
REGION contract cut from the real function on every run.  Inputs: the track, its epoch-second list T (strictly
increasing), the requested instants REF (non-decreasing).  Ghost lists record, per produced observation, the index
of the requested instant (OK_) and the bracketing fix (RID_).
Proved: exactly the requested instants t with T[0] < t <= T[last] produce an observation, in order, one each;
observation j lies at the linear interpolation between fixes RID_[j]-1 and RID_[j], which bracket its instant
(T[r-1] < t <= T[r]); its timestamp is readUnixTime(t) (well-formed, within 1 ms: contract of C03)."""
import z3
from pyvc.kinds import *
from pyvc.values import *
from pyvc.symexec import Spec, LoopSpec
from specs import track_model

Q = "tracklib.algo.interpolation:"
DEPENDS = []


def register(reg):
    track_model.register(reg)
    n = "npts(track)"
    INRANGE = "(tini < REF[%s] and REF[%s] <= tfin)"
    # linear interpolation with the two barycentric weights (t1 - t)/(t1 - t0) and (t - t0)/(t1 - t0), t0 < t <= t1 the bracket
    LERP = ("interp_points[%(j)s].position.%(f)s == fdiv(T[%(r)s] - REF[OK_[%(j)s]], T[%(r)s] - T[%(r)s - 1]) * %(F)s(track, %(r)s - 1) + "
            "fdiv(REF[OK_[%(j)s]] - T[%(r)s - 1], T[%(r)s] - T[%(r)s - 1]) * %(F)s(track, %(r)s)")
    lerp = lambda j, f, F: LERP % dict(j=j, r="RID_[%s]" % j, f=f, F=F)
    PRODUCED = [
        "len(OK_) == len(interp_points) and len(RID_) == len(interp_points)",
        "all(0 <= OK_[j] and OK_[j] < k and %s for j in range(0, len(OK_)))" % (INRANGE % ("OK_[j]", "OK_[j]")),
        "all(implies(j >= 1, OK_[j - 1] < OK_[j]) for j in range(0, len(OK_)))",
        # every requested instant in range seen so far has its observation
        "all(implies(%s, any(OK_[j] == q for j in range(0, len(OK_)))) for q in range(0, k))" % (INRANGE % ("q", "q")),
        # bracketing fixes and interpolated position, for an ARBITRARY produced observation J0 (ghost input)
        "implies(0 <= J0 and J0 < len(OK_), 1 <= RID_[J0] and RID_[J0] < %s and T[RID_[J0] - 1] < REF[OK_[J0]] and REF[OK_[J0]] <= T[RID_[J0]])" % n,
        "all(isnew(interp_points[j]) and isnew(interp_points[j].position) and isnew(interp_points[j].timestamp) for j in range(0, len(OK_)))",
        "implies(0 <= J0 and J0 < len(OK_), not isnan(interp_points[J0].position.N) and %s)" % lerp("J0", "N", "Y"),
        "implies(0 <= J0 and J0 < len(OK_), not isnan(interp_points[J0].position.U) and %s)" % lerp("J0", "U", "Z"),
        "implies(0 <= J0 and J0 < len(OK_), not isnan(interp_points[J0].position.E) and %s)" % lerp("J0", "E", "X"),
        "implies(0 <= J0 and J0 < len(OK_), wf(interp_points[J0].timestamp) and abstime(interp_points[J0].timestamp) <= REF[OK_[J0]] and "
        "REF[OK_[J0]] < abstime(interp_points[J0].timestamp) + 0.001)"]
    LERPS = [lerp("len(OK_) - 1", f, F) for f, F in (("E", "X"), ("N", "Y"), ("U", "Z"))]
    SORTED_T = "all(implies(a < b, T[a] < T[b]) for a in range(0, len(T)) for b in range(0, len(T)))"
    SORTED_REF = "all(implies(a <= b, REF[a] <= REF[b]) for a in range(0, len(REF)) for b in range(0, len(REF)))"
    reg.add(Spec(Q + "__resampleTemporal", dict(track="Track", T="list[real]", REF="list[real]"), "none", ghost=dict(J0="int"),
                 region=("interp_points = []", "track.setObsList(interp_points)"),
                 let=dict(tini="T[0]", tfin="T[len(T) - 1]"),
                 requires=["twf(track)", n + " >= 2", "len(T) == " + n, SORTED_T, SORTED_REF, "all(REF[a] >= 0 for a in range(0, len(REF)))",
                           "all(not isnan(X(track, r)) and not isnan(Y(track, r)) and not isnan(Z(track, r)) for r in range(0, %s))" % n],
                 fresh=["Obs", "ENUCoords", "ObsTime"],
                 locals=dict(interp_points="list[Obs]", OK_="list[int]", RID_="list[int]"),
                 at={"running_id = 0": ["ghost OK_ = []", "ghost RID_ = []"],
                     "interp_points.append(pi)": ["ghost OK_ = OK_ + [k]", "ghost RID_ = RID_ + [running_id]",
                                                  ("appended-entry", "RID_[len(OK_) - 1] == running_id and OK_[len(OK_) - 1] == k and T[running_id] == tfwd and "
                                                   "T[running_id - 1] == tbwd and REF[k] == t and interp_points[len(OK_) - 1].position.E == X and "
                                                   "interp_points[len(OK_) - 1].position.N == Y and interp_points[len(OK_) - 1].position.U == Z"),
                                                  ("appended-lerp-x", LERPS[0]), ("appended-lerp-y", LERPS[1]), ("appended-lerp-z", LERPS[2])]},
                 loops={"2": LoopSpec(inv=PRODUCED + [
                            "0 <= running_id and running_id < " + n,
                            "running_id == 0 or all(implies(REF[q] > tini, T[running_id - 1] < REF[q]) for q in range(k, len(REF)))",
                            "unchanged_old_class('Obs') and unchanged_old_class('ENUCoords') and unchanged_old_class('ObsTime')"]),
                        "2.1": LoopSpec(inv=["0 <= running_id and running_id < " + n, "running_id == 0 or T[running_id - 1] < t"],
                                        decreases=n + " - running_id")},
                 ensures=[("one-observation-per-requested-instant-in-range", " and ".join(PRODUCED[:3]).replace("OK_[j] < k", "OK_[j] < len(REF)")),
                          ("no-requested-instant-in-range-is-dropped",
                           "all(implies(%s, any(OK_[j] == q for j in range(0, len(OK_)))) for q in range(0, len(REF)))" % (INRANGE % ("q", "q"))),
                          ("bracketing-fixes", PRODUCED[4]),
                          ("linear-interpolation-y", PRODUCED[6]), ("linear-interpolation-z", PRODUCED[7]), ("linear-interpolation-x", PRODUCED[8]),
                          ("stamped-with-the-instant-to-the-millisecond", PRODUCED[9])]))


FUNCTIONS = [Q + "__resampleTemporal"]
USES_LIB = True
ASSUMPTIONS = ["__resampleTemporal: the loop is under contract (region); building T, prepareTimeSampling and setObsList are bounded only",
               "timestamps strictly increasing, requested instants non-decreasing and >= 0 (epoch seconds)",
               "spatial resampling (__resampleSpatial) and Track.resample's front end are bounded only"]
