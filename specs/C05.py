"""C05 — linear resampling returns the piecewise-linear interpolant of the track.

interpolation.__resampleTemporal: the resampling loop (from `interp_points = []` up to `track.setObsList(...)`) is a
REGION contract cut from the real function on every run.  Inputs: the track, its epoch-second list T (strictly
increasing), the requested instants REF (non-decreasing).  Ghost lists record, per produced observation, the index
of the requested instant (OK_) and the bracketing fix (RID_).
Proved: exactly the requested instants t with T[0] < t <= T[last] produce an observation, in order, one each;
observation j lies at the linear interpolation between fixes RID_[j]-1 and RID_[j], which bracket its instant
(T[r-1] < t <= T[r]); its timestamp is readUnixTime(t) (well-formed, within 1 ms: contract of C03)."""
import z3
from pyvc.kinds import *
from pyvc.values import *
from pyvc.symexec import Spec, LoopSpec
from specs import track_model

Q = "tracklib.algo.interpolation:"
DEPENDS = []


def register(reg):
    track_model.register(reg)
    n = "npts(track)"
    INRANGE = "(tini < REF[%s] and REF[%s] <= tfin)"
    # linear interpolation with the two barycentric weights (t1 - t)/(t1 - t0) and (t - t0)/(t1 - t0), t0 < t <= t1 the bracket
    LERP = ("interp_points[%(j)s].position.%(f)s == fdiv(T[%(r)s] - REF[OK_[%(j)s]], T[%(r)s] - T[%(r)s - 1]) * %(F)s(track, %(r)s - 1) + "
            "fdiv(REF[OK_[%(j)s]] - T[%(r)s - 1], T[%(r)s] - T[%(r)s - 1]) * %(F)s(track, %(r)s)")
    lerp = lambda j, f, F: LERP % dict(j=j, r="RID_[%s]" % j, f=f, F=F)
    PRODUCED = [
        "len(OK_) == len(interp_points) and len(RID_) == len(interp_points)",
        "all(0 <= OK_[j] and OK_[j] < k and %s for j in range(0, len(OK_)))" % (INRANGE % ("OK_[j]", "OK_[j]")),
        "all(implies(j >= 1, OK_[j - 1] < OK_[j]) for j in range(0, len(OK_)))",
        # every requested instant in range seen so far has its observation
        "all(implies(%s, any(OK_[j] == q for j in range(0, len(OK_)))) for q in range(0, k))" % (INRANGE % ("q", "q")),
        # bracketing fixes and interpolated position, for an ARBITRARY produced observation J0 (ghost input)
        "implies(0 <= J0 and J0 < len(OK_), 1 <= RID_[J0] and RID_[J0] < %s and T[RID_[J0] - 1] < REF[OK_[J0]] and REF[OK_[J0]] <= T[RID_[J0]])" % n,
        "all(isnew(interp_points[j]) and isnew(interp_points[j].position) and isnew(interp_points[j].timestamp) for j in range(0, len(OK_)))",
        "implies(0 <= J0 and J0 < len(OK_), not isnan(interp_points[J0].position.N) and %s)" % lerp("J0", "N", "Y"),
        "implies(0 <= J0 and J0 < len(OK_), not isnan(interp_points[J0].position.U) and %s)" % lerp("J0", "U", "Z"),
        "implies(0 <= J0 and J0 < len(OK_), not isnan(interp_points[J0].position.E) and %s)" % lerp("J0", "E", "X"),
        "implies(0 <= J0 and J0 < len(OK_), wf(interp_points[J0].timestamp) and abstime(interp_points[J0].timestamp) <= REF[OK_[J0]] and "
        "REF[OK_[J0]] < abstime(interp_points[J0].timestamp) + 0.001)"]
    LERPS = [lerp("len(OK_) - 1", f, F) for f, F in (("E", "X"), ("N", "Y"), ("U", "Z"))]
    SORTED_T = "all(implies(a < b, T[a] < T[b]) for a in range(0, len(T)) for b in range(0, len(T)))"
    SORTED_REF = "all(implies(a <= b, REF[a] <= REF[b]) for a in range(0, len(REF)) for b in range(0, len(REF)))"
    reg.add(Spec(Q + "__resampleTemporal", dict(track="Track", T="list[real]", REF="list[real]"), "none", ghost=dict(J0="int"),
                 region=("interp_points = []", "track.setObsList(interp_points)"),
                 let=dict(tini="T[0]", tfin="T[len(T) - 1]"),
                 requires=["twf(track)", n + " >= 2", "len(T) == " + n, SORTED_T, SORTED_REF, "all(REF[a] >= 0 for a in range(0, len(REF)))",
                           "all(not isnan(X(track, r)) and not isnan(Y(track, r)) and not isnan(Z(track, r)) for r in range(0, %s))" % n],
                 fresh=["Obs", "ENUCoords", "ObsTime"],
                 locals=dict(interp_points="list[Obs]", OK_="list[int]", RID_="list[int]"),
                 at={"running_id = 0": ["ghost OK_ = []", "ghost RID_ = []"],
                     "pi = Obs(ENUCoords(X, Y, Z), ObsTime.readUnixTime(T))": [
                         ("stamped-to-the-millisecond", "abstime(pi.timestamp) <= T and T < abstime(pi.timestamp) + 0.001")],
                     "interp_points.append(pi)": ["ghost OK_ = OK_ + [k]", "ghost RID_ = RID_ + [running_id]",
                                                  ("appended-entry", "RID_[len(OK_) - 1] == running_id and OK_[len(OK_) - 1] == k and T[running_id] == tfwd and "
                                                   "T[running_id - 1] == tbwd and REF[k] == t and interp_points[len(OK_) - 1].position.E == X and "
                                                   "interp_points[len(OK_) - 1].position.N == Y and interp_points[len(OK_) - 1].position.U == Z"),
                                                  ("appended-lerp-x", LERPS[0]), ("appended-lerp-y", LERPS[1]), ("appended-lerp-z", LERPS[2])]},
                 loops={"2": LoopSpec(inv=PRODUCED + [
                            "0 <= running_id and running_id < " + n,
                            "running_id == 0 or all(implies(REF[q] > tini, T[running_id - 1] < REF[q]) for q in range(k, len(REF)))",
                            "unchanged_old_class('Obs') and unchanged_old_class('ENUCoords') and unchanged_old_class('ObsTime')"]),
                        "2.1": LoopSpec(inv=["0 <= running_id and running_id < " + n, "running_id == 0 or T[running_id - 1] < t"],
                                        decreases=n + " - running_id")},
                 ensures=[("one-observation-per-requested-instant-in-range", " and ".join(PRODUCED[:3]).replace("OK_[j] < k", "OK_[j] < len(REF)")),
                          ("no-requested-instant-in-range-is-dropped",
                           "all(implies(%s, any(OK_[j] == q for j in range(0, len(OK_)))) for q in range(0, len(REF)))" % (INRANGE % ("q", "q"))),
                          ("bracketing-fixes", PRODUCED[4]),
                          ("linear-interpolation-y", PRODUCED[6]), ("linear-interpolation-z", PRODUCED[7]), ("linear-interpolation-x", PRODUCED[8]),
                          ("stamped-with-the-instant-to-the-millisecond", PRODUCED[9])]))

    # ---------------------------------------------------------------- spatial resampling (region: the sampling loop)
    # Inputs: the track, its cumulated 2-D length list S (non-decreasing, S[0] = sini), the step ds > 0 and the number of
    # samples N with sini + N ds <= S[last] (N = floor((sfin - sini) / ds) in the code before the region).
    AB = "(%s * ds + sini)"                          # abscissa of sample number %s
    W0 = "fdiv(S[%(r)s] - %(s)s, S[%(r)s] - S[%(r)s - 1])"
    W1 = "fdiv(%(s)s - S[%(r)s - 1], S[%(r)s] - S[%(r)s - 1])"

    def comb(j, field, F):
        d = dict(r="RID_[%s]" % j, s=AB % j)
        return "interp_points[%s].position.%s == %s * %s(track, RID_[%s] - 1) + %s * %s(track, RID_[%s])" % (
            j, field, W0 % d, F, j, W1 % d, F, j)
    TSV = "(%s * abstime(tstamp(track, RID_[%%(j)s] - 1)) + %s * abstime(tstamp(track, RID_[%%(j)s])))" % (W0, W1)
    tsv = lambda j: TSV % dict(r="RID_[%s]" % j, s=AB % j, j=j)
    SP = [
        "len(RID_) == len(interp_points)",
        "all(isnew(interp_points[j]) and isnew(interp_points[j].position) and isnew(interp_points[j].timestamp) for j in range(0, len(interp_points)))",
        # for an ARBITRARY produced sample J0 (ghost input): the segment it lies on, its weights, its coordinates, its time
        "implies(1 <= J0 and J0 < len(RID_), 1 <= RID_[J0] and RID_[J0] < %s and S[RID_[J0] - 1] < %s and %s <= S[RID_[J0]])" % (n, AB % "J0", AB % "J0"),
        "implies(1 <= J0 and J0 < len(RID_), 0 <= %s and %s <= 1 and %s + %s == 1)" % (
            W1 % dict(r="RID_[J0]", s=AB % "J0"), W1 % dict(r="RID_[J0]", s=AB % "J0"),
            W0 % dict(r="RID_[J0]", s=AB % "J0"), W1 % dict(r="RID_[J0]", s=AB % "J0")),
        "implies(1 <= J0 and J0 < len(RID_), not isnan(interp_points[J0].position.E) and %s)" % comb("J0", "E", "X"),
        "implies(1 <= J0 and J0 < len(RID_), not isnan(interp_points[J0].position.N) and %s)" % comb("J0", "N", "Y"),
        "implies(1 <= J0 and J0 < len(RID_), not isnan(interp_points[J0].position.U) and %s)" % comb("J0", "U", "Z"),
        "implies(1 <= J0 and J0 < len(RID_), wf(interp_points[J0].timestamp) and abstime(interp_points[J0].timestamp) <= %s and "
        "%s < abstime(interp_points[J0].timestamp) + 0.001)" % (tsv("J0"), tsv("J0")),
        # the first sample is (a copy of) the first fix
        "len(interp_points) >= 1 and same(interp_points[0].position.E, X(track, 0)) and same(interp_points[0].position.N, Y(track, 0)) and "
        "same(interp_points[0].position.U, Z(track, 0)) and samefields(interp_points[0].timestamp, tstamp(track, 0))"]
    TA = "abstime(tstamp(track, %s))"
    SORTED_S = "all(implies(a <= b, S[a] <= S[b]) for a in range(0, len(S)) for b in range(0, len(S)))"
    LAST = "len(RID_) - 1"
    STAMP = "abstime(interp_points[J0].timestamp) <= TS_[J0] and TS_[J0] < abstime(interp_points[J0].timestamp) + 0.001"
    reg.add(Spec("tracklib.core.obs:Obs.copy", dict(self="Obs"), "Obs", trusted=True, fresh=["Obs", "ENUCoords", "ObsTime"],
                 ensures=["isnew(result) and isnew(result.position) and isnew(result.timestamp)",
                          "same(result.position.E, self.position.E) and same(result.position.N, self.position.N) and same(result.position.U, self.position.U)",
                          "samefields(result.timestamp, self.timestamp)"]))
    reg.add(Spec(Q + "__resampleSpatial", dict(track="Track", S="list[real]", ds="float", N="int", sini="real"), "none", ghost=dict(J0="int"),
                 region=("interp_points = [track.getFirstObs().copy()]", "track.setObsList(interp_points)"),
                 requires=["twf(track)", n + " >= 2", "len(S) == " + n, "sini == S[0]", SORTED_S, "not isnan(ds) and ds > 0", "N >= 0",
                           "N * ds + sini <= S[len(S) - 1]",
                           "all(not isnan(X(track, r)) and not isnan(Y(track, r)) and not isnan(Z(track, r)) for r in range(0, %s))" % n,
                           "all(wf(tstamp(track, r)) and abstime(tstamp(track, r)) >= 0 for r in range(0, %s))" % n,
                           "all(implies(a <= b, %s <= %s) for a in range(0, %s) for b in range(0, %s))" % (TA % "a", TA % "b", n, n)],
                 fresh=["Obs", "ENUCoords", "ObsTime"],
                 locals=dict(interp_points="list[Obs]", RID_="list[int]", TS_="list[real]"),
                 at={"running_id = 0": ["ghost RID_ = [0]", "ghost TS_ = [%s]" % (TA % "0"), "ghost LW = 0.0"],
                     "T = wbwd * pt_bwd.timestamp.toAbsTime() + wfwd * pt_fwd.timestamp.toAbsTime()": [
                         ("time-ends", "abstime(tstamp(track, (running_id - 1))) <= abstime(tstamp(track, running_id))"),
                         ("time-as-a-step-from-the-segment-start", "T == abstime(tstamp(track, (running_id - 1))) + wfwd * (abstime(tstamp(track, running_id)) - abstime(tstamp(track, (running_id - 1))))",
                          ["use distrib(1, wfwd, abstime(tstamp(track, (running_id - 1))))", "use distrib(abstime(tstamp(track, running_id)), abstime(tstamp(track, (running_id - 1))), wfwd)"]),
                         ("time-within-the-segment", "abstime(tstamp(track, (running_id - 1))) <= T and T <= abstime(tstamp(track, running_id))",
                          ["use mul_nonneg(wfwd, abstime(tstamp(track, running_id)) - abstime(tstamp(track, (running_id - 1))))", "use mul_nonneg(1 - wfwd, abstime(tstamp(track, running_id)) - abstime(tstamp(track, (running_id - 1))))", "use distrib(1, wfwd, abstime(tstamp(track, running_id)) - abstime(tstamp(track, (running_id - 1))))"]),
                         ("weight-does-not-decrease-within-a-segment", "implies(k >= 2 and running_id == R0, LW <= wfwd)",
                          ["use div_bounds(LW, 1, wfwd, sfwd - sbwd)"]),
                         ("time-does-not-decrease", "TS_[len(TS_) - 1] <= T",
                          ["use mul_nonneg(wfwd - LW, abstime(tstamp(track, running_id)) - abstime(tstamp(track, (running_id - 1))))", "use distrib(wfwd, LW, abstime(tstamp(track, running_id)) - abstime(tstamp(track, (running_id - 1))))"])],
                     "s = k * ds + sini": ["use mul_nonneg(k, ds)", "use mul_mono(k, N, ds)", "use distrib(k, 1, ds)", "ghost R0 = running_id"],
                     "wfwd = (s - sbwd) / (sfwd - sbwd)": [
                         "use div_bounds(0, 1, wfwd, sfwd - sbwd)", "use div_bounds(0, 1, wbwd, sfwd - sbwd)",
                         "use distrib(wbwd, 0 - wfwd, sfwd - sbwd)", "use distrib(wbwd, wfwd, sfwd - sbwd)",
                         "use mul_cancel(sfwd - sbwd, wbwd + wfwd, 1)",
                         ("weights", "0 <= wfwd and wfwd <= 1 and 0 <= wbwd and wbwd <= 1 and wbwd + wfwd == 1")],
                     "interp_points.append(pi)": ["ghost RID_ = RID_ + [running_id]", "ghost TS_ = TS_ + [T]", "ghost LW = wfwd",
                                                  ("appended-entry", "RID_[%s] == running_id and S[running_id] == sfwd and S[running_id - 1] == sbwd and "
                                                   "%s == s and interp_points[%s].position.E == X and interp_points[%s].position.N == Y and "
                                                   "interp_points[%s].position.U == Z" % (LAST, AB % ("(%s)" % LAST), LAST, LAST, LAST)),
                                                  ("appended-x", comb("(%s)" % LAST, "E", "X")), ("appended-y", comb("(%s)" % LAST, "N", "Y")),
                                                  ("appended-z", comb("(%s)" % LAST, "U", "Z")),
                                                  ]},
                 loops={"2": LoopSpec(inv=SP + [
                            "len(interp_points) == k", "len(TS_) == k", "implies(k >= 2, RID_[k - 1] == running_id and running_id >= 1)",
                            "implies(k == 1, running_id == 0)",
                            "TS_[k - 1] <= %s" % (TA % "running_id"),
                            "implies(k >= 2, TS_[k - 1] == %s + LW * (%s - %s) and LW * (S[running_id] - S[running_id - 1]) == %s - S[running_id - 1])"
                            % (TA % "(running_id - 1)", TA % "running_id", TA % "(running_id - 1)", AB % "(k - 1)"),
                            "TS_[0] == %s" % (TA % "0"),
                            "all(implies(j + 1 < k, TS_[j] <= TS_[j + 1]) for j in range(0, k))",
                            "implies(1 <= J0 and J0 < k, %s)" % STAMP,
                            "0 <= running_id and running_id < " + n,
                            "running_id == 0 or S[running_id - 1] < %s" % (AB % "k"),
                            "unchanged_old_class('Obs') and unchanged_old_class('ENUCoords') and unchanged_old_class('ObsTime')"]),
                        "2.1": LoopSpec(inv=["0 <= running_id and running_id < " + n, "running_id == 0 or S[running_id - 1] < s", "R0 <= running_id"],
                                        decreases=n + " - running_id")},
                 ensures=[("first-fix-then-one-sample-per-step", "len(interp_points) == N + 1 and " + SP[8]),
                          ("each-sample-on-a-segment-at-its-abscissa", SP[2]),
                          ("weights-between-0-and-1", SP[3]),
                          ("on-the-polyline-x", SP[4]), ("on-the-polyline-y", SP[5]), ("interpolated-height", SP[6]),
                          ("interpolated-time-to-the-millisecond", SP[7])],
                 ensures_local=[("interpolated-times-never-decrease", "len(TS_) == N + 1 and all(implies(j + 1 < len(TS_), TS_[j] <= TS_[j + 1]) for j in range(0, len(TS_)))"),
                                ("each-sample-is-stamped-with-its-time-to-the-millisecond", "TS_[0] == %s and implies(1 <= J0 and J0 < len(TS_), %s)" % (TA % "0", STAMP))]))


FUNCTIONS = [Q + "__resampleTemporal", Q + "__resampleSpatial"]
USES_LIB = True
ASSUMPTIONS = ["__resampleTemporal: the loop is under contract (region); building T, prepareTimeSampling and setObsList are bounded only",
               "timestamps strictly increasing, requested instants non-decreasing and >= 0 (epoch seconds)",
               "__resampleSpatial: the sampling loop is under contract (region); inputs of the region: S non-decreasing with S[0] = sini, ds > 0, "
               "N >= 0 with sini + N ds <= S[last] (real arithmetic: the code's while-guard against a rounding overshoot is never taken), "
               "well-formed input timestamps with non-negative epoch seconds; Obs.copy is a trusted deepcopy contract",
               "spatial mode: input times non-decreasing; 'timestamps never decrease' is proved for the interpolated real times TS_ (ghost "
               "list), each sample being stamped within 1 ms below its time; Track.resample's front end is bounded only"]
