"""C13 — tracks and networks written to file are read back unchanged.

Almost all of C13 is about decimal text of IEEE doubles and file I/O, which no contract within reach decides: it is
carried by the bounded stand-in (round trips through the real writers and readers).  Deductive part: the column
placement of TrackWriter.writeToFile -- the "data order" slice (from `O = [(fmt.id_E, 0), (fmt.id_N, 1)]` up to
`f = open(path, 'w')`) as a REGION contract: for every admissible assignment of column indices (the ids of the
fields present form a permutation of 0..k-1) the sorted order list O has in position c the pair (c, d) where d is
the index, in the data list D = [E, N, (U), (T)] that __printInOrder builds, of the field whose column id is c --
so the reader, which takes fields[id_*], finds each datum in its own column.  list.sort is trusted."""
import z3
from pyvc.kinds import *
from pyvc.values import *
from pyvc.symexec import Spec, LoopSpec

W = "tracklib.io.track_writer:TrackWriter."
DEPENDS = []


def register(reg):
    for f in ("id_E", "id_N", "id_U", "id_T"):
        reg.field("TrackFormat", f, "int")
    reg.field("TrackFormat", "separator", "str")
    reg.auto_inline |= {W + "_TrackWriter__takeFirst"}
    HASU, HAST = "fmt.id_U != -1", "fmt.id_T != -1"
    K = "(2 + (1 if %s else 0) + (1 if %s else 0))" % (HASU, HAST)
    PERM = ["0 <= fmt.id_E and fmt.id_E < %s and 0 <= fmt.id_N and fmt.id_N < %s and fmt.id_E != fmt.id_N" % (K, K),
            "implies(%s, 0 <= fmt.id_U and fmt.id_U < %s and fmt.id_U != fmt.id_E and fmt.id_U != fmt.id_N)" % (HASU, K),
            "implies(%s, 0 <= fmt.id_T and fmt.id_T < %s and fmt.id_T != fmt.id_E and fmt.id_T != fmt.id_N and implies(%s, fmt.id_T != fmt.id_U))" % (HAST, K, HASU)]
    reg.add(Spec(W + "writeToFile", dict(fmt="TrackFormat"), "none",
                 region=("O = [(fmt.id_E, 0), (fmt.id_N, 1)]", "f = open(path, 'w')"), let=dict(af_names="[]"),
                 locals=dict(af_names="list[str]"),
                 requires=PERM,
                 ensures=[("one-entry-per-field", "len(O) == %s" % K),
                          ("columns-in-order", "all(O[c][0] == c for c in range(0, %s))" % K),
                          ("E-in-its-column", "O[fmt.id_E] == (fmt.id_E, 0)"),
                          ("N-in-its-column", "O[fmt.id_N] == (fmt.id_N, 1)"),
                          ("U-in-its-column", "implies(%s, O[fmt.id_U] == (fmt.id_U, 2))" % HASU),
                          ("T-in-its-column-at-its-place-in-the-data-list", "implies(%s, O[fmt.id_T] == (fmt.id_T, 3 if %s else 2))" % (HAST, HASU))]))


FUNCTIONS = [W + "writeToFile"]
ASSUMPTIONS = ["writeToFile: only the column-order slice is under contract; list.sort is TRUSTED (a permutation, non-decreasing in the key)",
               "no analytical-feature columns (af_names empty) in the deductive part",
               "everything else of C13 (decimal text of floats, timestamps layout, GPX / WKT / network files, readers) is bounded only"]
