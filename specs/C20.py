"""C20 — projecting a point on a segment / polyline returns the nearest point.

Spec = closed-form nearest point of a segment: N = A + clamp(t, 0, 1) (B - A), t = (P-A).(B-A)/|B-A|^2.
Lemma `nearest-is-minimal` (pure real arithmetic) shows N minimises the distance over the whole segment,
so "result == N and d^2 == |P-N|^2" carries every clause of the property for one segment; the polyline
loop invariant lifts it to the minimum over the non-skipped segments.

Known finding: vertical segments (x1 == x2).  The contracts are case-split so that the vertical case has
its own obligations (post:*[vertical]); all other cases are proved and still alarm."""
import z3
from pyvc.kinds import *
from pyvc.values import *
from pyvc.symexec import Spec, LoopSpec
from pyvc import mathlib

G = "tracklib.util.geometry:"


def _r(v):
    return to_float(v)[1]


def z_t(x1, y1, x2, y2, x, y):
    return ((x - x1) * (x2 - x1) + (y - y1) * (y2 - y1)) / ((x2 - x1) * (x2 - x1) + (y2 - y1) * (y2 - y1))


def z_clamp(t):
    return z3.If(t < 0, z3.RealVal(0), z3.If(t > 1, z3.RealVal(1), t))


def z_nearest(x1, y1, x2, y2, x, y):
    tc = z_clamp(z_t(x1, y1, x2, y2, x, y))
    return x1 + tc * (x2 - x1), y1 + tc * (y2 - y1)


def z_d2(x1, y1, x2, y2, x, y):
    nx, ny = z_nearest(x1, y1, x2, y2, x, y)
    return (x - nx) * (x - nx) + (y - ny) * (y - ny)


R6 = [z3.RealSort()] * 7
NEARX = z3.Function("nearx", *R6)
NEARY = z3.Function("neary", *R6)
D2SEG = z3.Function("d2seg", *R6)


def _opaque(ex, name):
    top = ex.ctx.top_spec
    return top is None or name not in top.reveal


def sf_nearx(ex, st, *a):
    a = [_r(v) for v in a]
    return vfloat(NEARX(*a) if _opaque(ex, "nearest") else z_nearest(*a)[0])


def sf_neary(ex, st, *a):
    a = [_r(v) for v in a]
    return vfloat(NEARY(*a) if _opaque(ex, "nearest") else z_nearest(*a)[1])


def sf_d2seg(ex, st, *a):
    a = [_r(v) for v in a]
    return vfloat(D2SEG(*a) if _opaque(ex, "nearest") else z_d2(*a))


def sf_tparam(ex, st, *a):
    return vfloat(z_t(*[_r(v) for v in a]))


def seg(l, k):
    return "%s[%s]" % (l, k)


def register(reg):
    reg.specfuncs.update(nearx=sf_nearx, neary=sf_neary, d2seg=sf_d2seg, tparam=sf_tparam)
    S4 = "segment[0], segment[1], segment[2], segment[3]"
    NN = ["all(not isnan(segment[k]) for k in range(0, 4))", "len(segment) == 4"]

    reg.add(Spec(G + "cartesienne", dict(segment="list[float]"), "list[float]", requires=NN,
                 locals=dict(parametres="list[float]"),
                 ensures=[("three-coefficients", "len(result) == 3 and not isnan(result[0]) and not isnan(result[1]) and not isnan(result[2])"),
                          ("normal-vector", "result[0] == segment[3] - segment[1] and result[1] == -(segment[2] - segment[0])"),
                          ("first-end-on-line", "result[0] * segment[0] + result[1] * segment[1] + result[2] == 0"),
                          ("second-end-on-line", "result[0] * segment[2] + result[1] * segment[3] + result[2] == 0")]))

    reg.add(Spec(G + "projection_droite", dict(param="list[float]", x="float", y="float"), "tuple[float,float]",
                 requires=["len(param) == 3", "all(not isnan(param[k]) for k in range(0, 3))", "not isnan(x)", "not isnan(y)",
                           "param[0] != 0 or param[1] != 0"],
                 cases=dict(nonvertical="param[1] != 0", vertical="param[1] == 0"),
                 ensures=[("not-nan", "not isnan(result[0]) and not isnan(result[1])"),
                          ("closed-form-x", "result[0] * (param[0] * param[0] + param[1] * param[1]) == "
                           "param[1] * param[1] * x - param[0] * param[1] * y - param[0] * param[2]"),
                          ("closed-form-y", "result[1] * (param[0] * param[0] + param[1] * param[1]) == "
                           "param[0] * param[0] * y - param[0] * param[1] * x - param[1] * param[2]"),
                          ("foot-on-line", "param[0] * result[0] + param[1] * result[1] + param[2] == 0"),
                          ("perpendicular", "(x - result[0]) * (-param[1]) + (y - result[1]) * param[0] == 0")]))

    reg.add(Spec(G + "proj_segment", dict(segment="list[float]", x="float", y="float"), "tuple[float,float,float]",
                 requires=NN + ["not isnan(x)", "not isnan(y)", "segment[0] != segment[2] or segment[1] != segment[3]"],
                 cases=dict(nonvertical="segment[0] != segment[2]", vertical="segment[0] == segment[2]"),
                 reveal=["nearest"],
                 at={
                     "y2 = segment[3]": [
                         ("coefficients", "a == y2 - y1 and b == -(x2 - x1) and c == -(a * x1 + b * y1)"),
                         ("n2-is-L2", "a * a + b * b == ((x2 - x1) * (x2 - x1) + (y2 - y1) * (y2 - y1))"),
                         ("foot-poly-x", "implies(x1 != x2, (xproj - x1) * ((x2 - x1) * (x2 - x1) + (y2 - y1) * (y2 - y1)) == ((x - x1) * (x2 - x1) + (y - y1) * (y2 - y1)) * (x2 - x1))"),
                         ("foot-poly-y", "implies(x1 != x2, (yproj - y1) * ((x2 - x1) * (x2 - x1) + (y2 - y1) * (y2 - y1)) == ((x - x1) * (x2 - x1) + (y - y1) * (y2 - y1)) * (y2 - y1))"),
                         "use div_cancel(xproj - x1, ((x2 - x1) * (x2 - x1) + (y2 - y1) * (y2 - y1)), ((x - x1) * (x2 - x1) + (y - y1) * (y2 - y1)), x2 - x1)",
                         "use div_cancel(yproj - y1, ((x2 - x1) * (x2 - x1) + (y2 - y1) * (y2 - y1)), ((x - x1) * (x2 - x1) + (y - y1) * (y2 - y1)), y2 - y1)",
                         ("foot-param-x", "implies(x1 != x2, xproj == x1 + tparam(x1, y1, x2, y2, x, y) * (x2 - x1))"),
                         ("foot-param-y", "implies(x1 != x2, yproj == y1 + tparam(x1, y1, x2, y2, x, y) * (y2 - y1))")],
                     "bool_include = boolx and booly": [
                         ("include-iff-inside", "implies(x1 != x2, bool_include == (0 <= tparam(x1, y1, x2, y2, x, y) and tparam(x1, y1, x2, y2, x, y) <= 1))")],
                     "yproj = yb + BH * yv / norm": [
                         ("refoot-closed-x", "implies(x1 != x2, xproj * (a * a + b * b) == b * b * x - a * b * y - a * c)"),
                         ("refoot-closed-y", "implies(x1 != x2, yproj * (a * a + b * b) == a * a * y - a * b * x - b * c)"),
                         ("refoot-poly-x", "implies(x1 != x2, (xproj - x1) * ((x2 - x1) * (x2 - x1) + (y2 - y1) * (y2 - y1)) == ((x - x1) * (x2 - x1) + (y - y1) * (y2 - y1)) * (x2 - x1))"),
                         ("refoot-poly-y", "implies(x1 != x2, (yproj - y1) * ((x2 - x1) * (x2 - x1) + (y2 - y1) * (y2 - y1)) == ((x - x1) * (x2 - x1) + (y - y1) * (y2 - y1)) * (y2 - y1))"),
                         "use div_cancel(xproj - x1, ((x2 - x1) * (x2 - x1) + (y2 - y1) * (y2 - y1)), ((x - x1) * (x2 - x1) + (y - y1) * (y2 - y1)), x2 - x1)",
                         "use div_cancel(yproj - y1, ((x2 - x1) * (x2 - x1) + (y2 - y1) * (y2 - y1)), ((x - x1) * (x2 - x1) + (y - y1) * (y2 - y1)), y2 - y1)",
                         ("refoot-param-x", "implies(x1 != x2, xproj == x1 + tparam(x1, y1, x2, y2, x, y) * (x2 - x1))"),
                         ("refoot-param-y", "implies(x1 != x2, yproj == y1 + tparam(x1, y1, x2, y2, x, y) * (y2 - y1))"),
                         ("line-distance-0", "distance >= 0 and distance * sqrt(a * a + b * b) == abs(a * x + b * y + c)"),
                         "use sq_eq(distance * sqrt(a * a + b * b), abs(a * x + b * y + c))",
                         "use sq_prod(distance, sqrt(a * a + b * b))",
                         ("line-distance-1", "sqrt(a * a + b * b) * sqrt(a * a + b * b) == a * a + b * b and "
                          "abs(a * x + b * y + c) * abs(a * x + b * y + c) == (a * x + b * y + c) * (a * x + b * y + c)"),
                         ("line-distance", "implies(x1 != x2, distance >= 0 and distance * distance * (a * a + b * b) == (a * x + b * y + c) * (a * x + b * y + c))"),
                         ("line-distance-is-foot-distance", "implies(x1 != x2, (a * x + b * y + c) * (a * x + b * y + c) == "
                          "(a * a + b * b) * ((x - xproj) * (x - xproj) + (y - yproj) * (y - yproj)))"),
                         "use mul_cancel(a * a + b * b, distance * distance, (x - xproj) * (x - xproj) + (y - yproj) * (y - yproj))",
                         ("foot-distance", "implies(x1 != x2, distance * distance == (x - xproj) * (x - xproj) + (y - yproj) * (y - yproj))")],
                     "distance2 = math.sqrt((x - x2) * (x - x2) + (y - y2) * (y - y2))": [
                         ("d2-minus-d1", "distance2 * distance2 - distance1 * distance1 == ((x2 - x1) * (x2 - x1) + (y2 - y1) * (y2 - y1)) - 2 * ((x - x1) * (x2 - x1) + (y - y1) * (y2 - y1))"),
                         "use div_sign(((x - x1) * (x2 - x1) + (y - y1) * (y2 - y1)), ((x2 - x1) * (x2 - x1) + (y2 - y1) * (y2 - y1)))",
                         "use sq_mono(distance1, distance2)",
                         "use sq_mono(distance2, distance1)",
                         ("ends-nonneg", "distance1 >= 0 and distance2 >= 0"),
                         ("before-first-end", "implies(x1 != x2 and tparam(x1, y1, x2, y2, x, y) < 0, distance1 <= distance2)"),
                         ("after-second-end", "implies(x1 != x2 and tparam(x1, y1, x2, y2, x, y) > 1, not (distance1 <= distance2))")]},
                 ensures=[("not-nan", "not isnan(result[0]) and not isnan(result[1]) and not isnan(result[2])"),
                          ("nearest-point-x", "result[1] == nearx(%s, x, y)" % S4),
                          ("nearest-point-y", "result[2] == neary(%s, x, y)" % S4),
                          ("distance-nonneg", "result[0] >= 0"),
                          ("distance-to-returned-point",
                           "result[0] * result[0] == (x - result[1]) * (x - result[1]) + (y - result[2]) * (y - result[2])"),
                          ("distance-is-segment-distance", "result[0] * result[0] == d2seg(%s, x, y)" % S4)]))

    SEGK = "Xp[%(k)s], Yp[%(k)s], Xp[%(k)s + 1], Yp[%(k)s + 1], x, y"
    NONSKIP = "(abs(Xp[%(k)s] - Xp[%(k)s + 1]) + abs(Yp[%(k)s] - Yp[%(k)s + 1]) >= 1e-16)"
    sk = lambda k: SEGK % dict(k=k)
    ns = lambda k: NONSKIP % dict(k=k)
    reg.add(Spec(G + "proj_polyligne", dict(Xp="list[real]", Yp="list[real]", x="float", y="float"),
                 "tuple[float,float,float,int]",
                 requires=["len(Xp) == len(Yp)", "len(Xp) >= 2", "not isnan(x)", "not isnan(y)",
                           "any(%s for k in range(0, len(Xp) - 1))" % ns("k"),
                           "all(implies(%s, d2seg(%s) < 1e300 * 1e300) for k in range(0, len(Xp) - 1))" % (ns("k"), sk("k"))],
                 locals=dict(xproj="float", yproj="float", iproj="int"),
                 loops={"1": LoopSpec(
                     inv=["not isnan(distmin)",
                          "distmin == 1e300 or (0 <= iproj and iproj < i and %s and not isnan(xproj) and not isnan(yproj) and "
                          "xproj == nearx(%s) and yproj == neary(%s) and distmin >= 0 and distmin * distmin == d2seg(%s))"
                          % (ns("iproj"), sk("iproj"), sk("iproj"), sk("iproj")),
                          "all(implies(%s, distmin < 1e300 and distmin >= 0 and distmin * distmin <= d2seg(%s)) for k in range(0, i))"
                          % (ns("k"), sk("k"))],
                     hints=["use sq_mono(dist, distmin)", "use sq_mono(distmin, dist)", "use sq_mono(dist, 1e300)"])},
                 ensures=[("segment-index", "0 <= result[3] and result[3] < len(Xp) - 1 and %s" % ns("result[3]")),
                          ("point-on-that-segment", "result[1] == nearx(%s) and result[2] == neary(%s)" % (sk("result[3]"), sk("result[3]"))),
                          ("distance-to-returned-point", "result[0] >= 0 and result[0] * result[0] == d2seg(%s)" % sk("result[3]")),
                          ("minimal-over-segments", "all(implies(%s, result[0] * result[0] <= d2seg(%s)) for k in range(0, len(Xp) - 1))"
                           % (ns("k"), sk("k")))]))

    # ---------------------------------------------------------------- mapping.__projOnTrack: the wrapper used by map-matching
    from specs import track_model
    track_model.register_model(reg)
    T = "tracklib.core.track:Track."
    for nm, F in (("getX", "X"), ("getY", "Y")):
        reg.add(Spec(T + nm, dict(self="Track"), "list[float]", locals={F: "list[float]"},
                     loops={"1": LoopSpec(inv=["len(%s) == i" % F, "all(same(%s[r], %s(self, r)) for r in range(0, i))" % (F, F)])},
                     ensures=[("one-per-observation", "len(result) == npts(self) and all(same(result[r], %s(self, r)) for r in range(0, npts(self)))" % F)]))
    TS = "X(track, %(k)s), Y(track, %(k)s), X(track, %(k)s + 1), Y(track, %(k)s + 1), point.E, point.N"
    TNS = "(abs(X(track, %(k)s) - X(track, %(k)s + 1)) + abs(Y(track, %(k)s) - Y(track, %(k)s + 1)) >= 1e-16)"
    tsk = lambda k: TS % dict(k=k)
    tns = lambda k: TNS % dict(k=k)
    reg.add(Spec("tracklib.algo.mapping:__projOnTrack", dict(point="ENUCoords", track="Track"), "tuple[ENUCoords,float,int]",
                 fresh=["ENUCoords"],
                 requires=["npts(track) >= 2", "not isnan(point.E) and not isnan(point.N)",
                           "all(not isnan(X(track, r)) and not isnan(Y(track, r)) for r in range(0, npts(track)))",
                           "any(%s for k in range(0, npts(track) - 1))" % tns("k"),
                           "all(implies(%s, d2seg(%s) < 1e300 * 1e300) for k in range(0, npts(track) - 1))" % (tns("k"), tsk("k"))],
                 ensures=[("segment-index", "0 <= result[2] and result[2] < npts(track) - 1 and %s" % tns("result[2]")),
                          ("a-new-point-on-that-segment", "isnew(result[0]) and result[0].E == nearx(%s) and result[0].N == neary(%s) and result[0].U == 0"
                           % (tsk("result[2]"), tsk("result[2]"))),
                          ("distance-to-the-returned-point", "not isnan(result[1]) and result[1] >= 0 and result[1] * result[1] == d2seg(%s)" % tsk("result[2]")),
                          ("minimal-over-the-segments", "all(implies(%s, result[1] * result[1] <= d2seg(%s)) for k in range(0, npts(track) - 1))"
                           % (tns("k"), tsk("k")))]))


def lemmas(reg):
    """nearest-is-minimal: for every point of the segment (parameter s in [0,1]) the squared distance from P
    is at least the squared distance from P to the closed-form nearest point."""
    x1, y1, x2, y2, x, y, s, t, L2 = z3.Reals("x1 y1 x2 y2 x y s t L2")
    hyp = [z3.Or(x1 != x2, y1 != y2), s >= 0, s <= 1,
           L2 == (x2 - x1) * (x2 - x1) + (y2 - y1) * (y2 - y1), L2 > 0,
           t * L2 == (x - x1) * (x2 - x1) + (y - y1) * (y2 - y1)]
    tc = z_clamp(t)
    nx, ny = x1 + tc * (x2 - x1), y1 + tc * (y2 - y1)
    qx, qy = x1 + s * (x2 - x1), y1 + s * (y2 - y1)
    d2n = (x - nx) * (x - nx) + (y - ny) * (y - ny)
    d2q = (x - qx) * (x - qx) + (y - qy) * (y - qy)
    # key identity: d2q - d2n = L2 * (s - tc) * (s + tc - 2 t)
    ident = d2q - d2n == L2 * (s - tc) * (s + tc - 2 * t)
    out = [("nearest-is-minimal:identity", hyp, ident),
           ("nearest-is-minimal:sign", hyp, (s - tc) * (s + tc - 2 * t) >= 0),
           ("nearest-is-minimal", hyp + [ident, (s - tc) * (s + tc - 2 * t) >= 0], d2q >= d2n),
           ("nearest-on-segment", hyp, z3.And(tc >= 0, tc <= 1))]
    return out


USES_LIB = True
FUNCTIONS = [G + n for n in ("cartesienne", "projection_droite", "proj_segment", "proj_polyligne")] + [
    "tracklib.core.track:Track.getX", "tracklib.core.track:Track.getY", "tracklib.algo.mapping:__projOnTrack"]
ASSUMPTIONS = ["segments are non-degenerate (proj_polyligne skips segments of L1 length < 1e-16; a polyline made only of such "
               "segments leaves xproj unbound: outside the contract)",
               "math.sqrt: r >= 0 and r*r == x (trusted axiom)",
               "proj_polyligne and __projOnTrack are verified against the CONTRACT of proj_segment; that contract's [vertical] obligations fail on the "
               "pinned tree (known finding C20-vertical-segment), so their statements hold for polylines without vertical segments",
               "__projOnTrack: the polyline has at least two fixes with numeric coordinates and at least one non-skipped segment; squared distances below 1e600"]
