"""C09 — hidden-Markov decoding returns a maximum-likelihood (minimum -log cost) state sequence.

HMM.estimate as a whole is outside pyvc's subset (features holding state objects, trace strings).  Two REGION
contracts cut the Viterbi core out of the real function on every run:
  forward  : from `EPOCHS = range(1, N)` up to the "Backward reconstruction phase" trace call,
  backward : from `idk = np.argmin(TAB_VAL[-1])` up to the final separator call.
Costs: c_obs(k, l) = -Plog(S[k][l], y_k, k), c_tr(k, m, l) = -Qlog(S[k][m], S[k+1][l], k), through the contracts of
Plog / Qlog whose bodies are verified with the user functions self.P / self.Q as abstract functions.
Certificate: VAL[k][l] = c_obs(k,l) + VAL[k-1][MRK[k][l]] + c_tr(k-1, MRK[k][l], l)   (TIGHT)
             VAL[k][l] <= c_obs(k,l) + VAL[k-1][m] + c_tr(k-1, m, l) for every m       (LOWER)
Lemma sequence-lower-bound (induction over an arbitrary state sequence): cost(p, k) >= VAL[k][p(k)]."""
import z3
from pyvc.kinds import *
from pyvc.values import *
from pyvc.symexec import Spec, LoopSpec
from pyvc import mathlib
from specs import track_model

H = "tracklib.algo.dynamics:HMM."
DEPENDS = []
I_, R_ = z3.IntSort(), z3.RealSort()
QF = z3.Function("hmm_Q", I_, I_, I_, I_, R_)      # self.Q(s1, s2, k, track)
PF = z3.Function("hmm_P", I_, I_, I_, I_, R_)      # self.P(s, y, k, track)


def _i(v):
    return v.terms[0]


def z_cost(f, log, a, b, k, t):
    return -z3.If(log, f(a, b, k, t), mathlib.LOG(f(a, b, k, t) + z3.RealVal("1e-300")))


def sf_ctr(ex, st, hmm, s1, s2, k, track):
    """transition cost -Qlog(s1, s2, k, track)"""
    ex.ctx.math_used.add("log")
    return vfloat(z_cost(QF, ex.read_field(st, hmm, "log").terms[0], _i(s1), _i(s2), to_int(k), _i(track)))


def sf_cobs(ex, st, hmm, s, y, k, track):
    """observation cost -Plog(s, y, k, track)"""
    ex.ctx.math_used.add("log")
    return vfloat(z_cost(PF, ex.read_field(st, hmm, "log").terms[0], _i(s), _i(y), to_int(k), _i(track)))


NONEMPTY = "all(len(STATES[e]) >= 1 for e in range(0, N))"
SHAPE = ("len(STATES) == N and len(TAB_VAL) == N and len(TAB_MRK) == N and len(OBS) == N and "
         "all(len(TAB_VAL[e]) == len(STATES[e]) and len(TAB_MRK[e]) == len(STATES[e]) for e in range(0, N))")
CTR = "ctr(self, STATES[%s][%s], STATES[%s][%s], %s, track)"
COBS = "cobs(self, STATES[%s][%s], OBS[%s], %s, track)"


def row0():
    return "all(not isnan(TAB_VAL[0][l]) and TAB_VAL[0][l] == %s for l in range(0, len(STATES[0])))" % (COBS % ("0", "l", "0", "0"))


def bellman(cond):
    """certificate for the cells (e_, c_) with e_ >= 1 selected by cond"""
    e1 = "e_ - 1"
    return ("all(implies(e_ >= 1 and c_ < len(STATES[e_]) and (%s), not isnan(TAB_VAL[e_][c_]) and 0 <= TAB_MRK[e_][c_] and TAB_MRK[e_][c_] < len(STATES[e_ - 1]) "
            "and TAB_VAL[e_][c_] == %s + TAB_VAL[e_ - 1][TAB_MRK[e_][c_]] + %s "
            "and all(TAB_VAL[e_][c_] <= %s + TAB_VAL[e_ - 1][m_] + %s for m_ in range(0, len(STATES[e_ - 1])))) "
            "for e_ in range(0, N) for c_ in range(0, N + len(STATES[e_])))"
            % (cond, COBS % ("e_", "c_", "e_", "e_"), CTR % (e1, "TAB_MRK[e_][c_]", "e_", "c_", e1),
               COBS % ("e_", "c_", "e_", "e_"), CTR % (e1, "m_", "e_", "c_", e1)))


def register(reg):
    track_model.register_model(reg)
    reg.field("HMM", "log", "bool")
    reg.field("HMM", "stationarity", "bool")
    reg.abstract_fields.update({"HMM.Q": "hmm_Q", "HMM.P": "hmm_P"})
    reg.trace_calls |= {"printTrace", "printSeparator"}
    reg.trace_vars |= {"message"}
    reg.specfuncs.update(ctr=sf_ctr, cobs=sf_cobs)
    for name, f, a, b in (("Qlog", "ctr", "s1", "s2"), ("Plog", "cobs", "s", "y")):
        reg.add(Spec(H + name, {"self": "HMM", a: "any", b: "any", "k": "int", "track": "Track"}, "float",
                     requires=["self.log or hmm_positive(self, %s, %s, k, track, '%s')" % (a, b, name)],
                     ensures=[("minus-cost", "not isnan(result) and -result == %s(self, %s, %s, k, track)" % (f, a, b))]))
    reg.specfuncs["hmm_positive"] = lambda ex, st, hmm, a, b, k, t, which: vbool(
        (QF if which.py == "Qlog" else PF)(_i(a), _i(b), to_int(k), _i(t)) + z3.RealVal("1e-300") > 0)

    POS = ("self.log or (all(implies(e >= 1 and m < len(STATES[e - 1]) and l < len(STATES[e]), "
           "hmm_positive(self, STATES[e - 1][m], STATES[e][l], e - 1, track, 'Qlog')) for e in range(0, N) "
           "for m in range(0, N + len(STATES[e - 1])) for l in range(0, N + len(STATES[e]))) and "
           "all(hmm_positive(self, STATES[e][l], OBS[e], e, track, 'Plog') for e in range(0, N) for l in range(0, N + len(STATES[e]))))")
    IN = dict(self="HMM", track="Track", STATES="list[list[any]]", TAB_VAL="list[list[float]]", TAB_MRK="list[list[int]]",
              OBS="list[any]", N="int")
    reg.add(Spec(H + "estimate", IN, "none",
                 region=("EPOCHS = range(1, N)", "self.printTrace('Backward reconstruction phase', [1, 2, 3], verbose)"),
                 let=dict(verbose="2"),
                 requires=["N >= 1", SHAPE, NONEMPTY, POS, row0()],
                 at={"val = q + TAB_VAL[k - 1][m]": ["use val < 1e300"]},
                 loops={"5": LoopSpec(inv=[SHAPE, row0(), bellman("e_ < k")]),
                        "5.1": LoopSpec(inv=[SHAPE, row0(), bellman("e_ < k or (e_ == k and c_ < l)")]),
                        "5.1.1": LoopSpec(inv=[
                                               "(m == 0 and best_val == 1e300 and best_ant == 0) or (m > 0 and 0 <= best_ant and best_ant < m and "
                                               "not isnan(best_val) and best_val == %s + TAB_VAL[k - 1][best_ant] and "
                                               "all(best_val <= %s + TAB_VAL[k - 1][q_] for q_ in range(0, m)))"
                                               % (CTR % ("k - 1", "best_ant", "k", "l", "k - 1"), CTR % ("k - 1", "q_", "k", "l", "k - 1"))])},
                 ensures=[("shape", SHAPE), ("first-epoch-unchanged", row0()),
                          ("certificate:tight-predecessor-and-lower-bound", bellman("True"))]), variant="forward")


    # ---------------------------------------------------------------- backward reconstruction
    T_ = "tracklib.core.track:Track."
    reg.add(Spec(T_ + "setObsAnalyticalFeature", dict(self="Track", af_name="str", i="int", val="any"), "none", trusted=True,
                 requires=["twf(self)", "0 <= i and i < npts(self)", "hasname(self, af_name)"],
                 modifies=["Obs.features"],
                 ensures=[("wf", "twf(self)"), ("names", "all(hasname(self, k) == old(hasname(self, k)) for k in strs)")]), variant="any")
    from specs.track_model import register as _tm
    _tm(reg)
    INDEX = ("all(implies(e_ >= 1 and c_ < len(STATES[e_]), 0 <= TAB_MRK[e_][c_] and TAB_MRK[e_][c_] < len(STATES[e_ - 1])) "
             "for e_ in range(0, N) for c_ in range(0, N + len(STATES[e_])))")
    NONAN = "all(implies(c_ < len(STATES[e_]), not isnan(TAB_VAL[e_][c_])) for e_ in range(0, N) for c_ in range(0, N + len(STATES[e_])))"
    EP = "(N - 1 - t)"
    DECODED = ["all(0 <= DEC[t] and DEC[t] < len(STATES[%s]) for t in range(0, len(DEC)))" % EP,
               "all(implies(t >= 1, DEC[t] == TAB_MRK[%s + 1][DEC[t - 1]]) for t in range(0, len(DEC)))" % EP,
               "implies(len(DEC) >= 1, all(TAB_VAL[N - 1][DEC[0]] <= TAB_VAL[N - 1][c_] for c_ in range(0, len(STATES[N - 1]))))"]
    reg.add(Spec(H + "estimate", dict(IN), "none",
                 region=("idk = np.argmin(TAB_VAL[-1])", "self.printSeparator([1], verbose, 1)"),
                 let=dict(verbose="2", mode="0"), locals=dict(DEC="list[int]"),
                 requires=["N >= 1", SHAPE, NONEMPTY, INDEX, NONAN, "twf(track)", "npts(track) == N",
                           "hasname(track, 'hmm_inference') and hasname(track, 'hmm_cost')"],
                 modifies=["Obs.features", "ENUCoords.E", "ENUCoords.N", "ENUCoords.U"],
                 at={"idk = np.argmin(TAB_VAL[-1])": ["ghost DEC = []"],
                     "track.setObsAnalyticalFeature('hmm_inference', k, STATES[k][idk])": ["ghost DEC = DEC + [idk]"]},
                 loops={"6": LoopSpec(inv=["twf(track)", "npts(track) == N", "hasname(track, 'hmm_inference') and hasname(track, 'hmm_cost')",
                                           "len(DEC) == N - 1 - k", "implies(k >= 0, 0 <= idk and idk < len(STATES[k]))",
                                           "implies(len(DEC) >= 1 and k >= 0, idk == TAB_MRK[k + 1][DEC[len(DEC) - 1]])",
                                           "implies(len(DEC) == 0, all(TAB_VAL[N - 1][idk] <= TAB_VAL[N - 1][c_] for c_ in range(0, len(STATES[N - 1]))))"]
                                      + DECODED)},
                 ensures=[("one-state-index-per-epoch", "len(DEC) == N"),
                          ("each-a-candidate-of-its-epoch", DECODED[0]),
                          ("chained-through-the-back-pointers", DECODED[1]),
                          ("last-epoch-state-has-minimal-value", DECODED[2])]), variant="backward")


def lemmas(reg):
    """sequence-lower-bound: for an arbitrary state sequence p (p(e) a candidate of epoch e) the accumulated cost
    cost(e) = sum of observation and transition costs up to e is at least VAL(e, p(e)), given row 0 and LOWER."""
    VAL = z3.Function("VAL!h", I_, I_, R_)
    cobs = z3.Function("cobs!h", I_, I_, R_)
    ctr = z3.Function("ctr!h", I_, I_, I_, R_)
    nst = z3.Function("nstates!h", I_, I_)
    pth = z3.Function("p!h", I_, I_)
    cost = z3.Function("cost!h", I_, R_)
    e, l, m, N = z3.Ints("e!h l!h m!h N!h")
    row0_ = z3.ForAll([l], z3.Implies(z3.And(0 <= l, l < nst(0)), VAL(0, l) == cobs(0, l)))
    lower = z3.ForAll([e, l, m], z3.Implies(z3.And(1 <= e, e < N, 0 <= l, l < nst(e), 0 <= m, m < nst(e - 1)),
                                            VAL(e, l) <= cobs(e, l) + VAL(e - 1, m) + ctr(e - 1, m, l)))
    cand = lambda k: z3.And(0 <= pth(k), pth(k) < nst(k))
    defs = [cost(0) == cobs(0, pth(0)), cost(e + 1) == cost(e) + ctr(e, pth(e), pth(e + 1)) + cobs(e + 1, pth(e + 1))]
    # a model given directly by log-likelihoods g = log(f + 1e-300) (self.log = True) has the same costs as the model given by
    # the likelihoods f (self.log = False): the contracts of the decoding regions mention the model only through these costs,
    # so both runs certify the same optimum
    a_, b_, k_, t_ = z3.Ints("a!h b!h k!h t!h")
    QG, PG = z3.Function("hmm_Qlog!h", I_, I_, I_, I_, R_), z3.Function("hmm_Plog!h", I_, I_, I_, I_, R_)
    eps = z3.RealVal("1e-300")
    same_costs = [("log-likelihoods-give-the-same-costs:transition", [QG(a_, b_, k_, t_) == mathlib.LOG(QF(a_, b_, k_, t_) + eps)],
                   z_cost(QF, z3.BoolVal(False), a_, b_, k_, t_) == z_cost(QG, z3.BoolVal(True), a_, b_, k_, t_)),
                  ("log-likelihoods-give-the-same-costs:observation", [PG(a_, b_, k_, t_) == mathlib.LOG(PF(a_, b_, k_, t_) + eps)],
                   z_cost(PF, z3.BoolVal(False), a_, b_, k_, t_) == z_cost(PG, z3.BoolVal(True), a_, b_, k_, t_))]
    return same_costs + [("sequence-lower-bound:base", [row0_, cand(0)] + defs, cost(0) >= VAL(0, pth(0))),
            ("sequence-lower-bound:step", [lower, 0 <= e, e + 1 < N, cand(e), cand(e + 1), cost(e) >= VAL(e, pth(e))] + defs,
             cost(e + 1) >= VAL(e + 1, pth(e + 1)))]


FUNCTIONS = [H + "Qlog", H + "Plog", H + "estimate@forward", H + "estimate@backward"]
ASSUMPTIONS = ["HMM.estimate: only the forward and backward regions are under contract; compiling STATES / OBS, initialising the tables "
               "and storing hmm_inference / hmm_cost in the track are bounded only",
               "self.Q / self.P are abstract functions of (s1, s2, k, track) / (s, y, k, track); in non-log mode their values + 1e-300 are positive",
               "ASSUMED (not proved): every accumulated cost stays below the sentinel 1e300 used to initialise best_val",
               "minimum total -log cost <=> maximum product likelihood is not proved here (log additive and monotone): bounded only; "
               "lemma log-likelihoods-give-the-same-costs: a model supplied as logarithms g = log(f + 1e-300) has the same cost function as the "
               "model supplied as likelihoods f, hence the same certificate and optimum",
               "numpy.argmin: first index of a minimum of a non-NaN list (trusted model)"]
