"""C19 — grid summarising: Raster.getCell footprint, cell operators against spec folds."""
import z3
from pyvc.kinds import *
from pyvc.values import *
from pyvc.symexec import Spec, LoopSpec

U = "tracklib.core.utils:"
R = "tracklib.core.raster:Raster."

ALLNAN = "all(isnan(tarray[k]) for k in range(0, %s))"
SOMENN = "any(not isnan(tarray[k]) for k in range(0, %s))"


def register(reg):
    L = dict(tarray="list[float]")
    reg.add(Spec(U + "co_sum", L, "float",
                 ensures=[("sum-of-non-nan", "result == sumnn(tarray, len(tarray))"), ("not-nan", "not isnan(result)")],
                 loops={"1": LoopSpec(inv=["somme == sumnn(tarray, i)", "not isnan(somme)"])}))
    reg.add(Spec(U + "co_count", L, "int",
                 ensures=[("count-of-non-nan", "result == countnn(tarray, len(tarray))")],
                 loops={"1": LoopSpec(inv=["count == countnn(tarray, i)"])}))
    reg.add(Spec(U + "co_avg", L, "float",
                 ensures=[("empty-or-all-nan", "implies(countnn(tarray, len(tarray)) == 0, isnan(result))"),
                          ("mean-of-non-nan", "implies(countnn(tarray, len(tarray)) > 0, not isnan(result) and "
                           "result * countnn(tarray, len(tarray)) == sumnn(tarray, len(tarray)))")],
                 loops={"1": LoopSpec(inv=["count == countnn(tarray, i)", "mean == sumnn(tarray, i)", "not isnan(mean)"])}))
    for name, var, cmp in (("co_min", "min", "<="), ("co_max", "max", ">=")):
        reg.add(Spec(U + name, L, "float",
                     ensures=[("no-value", "implies(%s, isnan(result))" % (ALLNAN % "len(tarray)")),
                              ("attained", "implies(%s, not isnan(result) and any(not isnan(tarray[k]) and tarray[k] == result "
                               "for k in range(0, len(tarray))))" % (SOMENN % "len(tarray)")),
                              ("extremal", "all(implies(not isnan(tarray[k]), result %s tarray[k]) for k in range(0, len(tarray)))" % cmp)],
                     loops={"1": LoopSpec(inv=[
                         "implies(%s, isnan(%s))" % (ALLNAN % "i", var),
                         "implies(%s, not isnan(%s) and any(not isnan(tarray[k]) and tarray[k] == %s for k in range(0, i)))"
                         % (SOMENN % "i", var, var),
                         "all(implies(not isnan(tarray[k]), %s %s tarray[k]) for k in range(0, i))" % (var, cmp)])}))

    # Raster.getCell
    for f in ("xmin", "xmax", "ymin", "ymax"):
        reg.field("Raster", f, "real")
    reg.field("Raster", "resolution", "tuple[real,real]")
    reg.field("Raster", "ncol", "int")
    reg.field("Raster", "nrow", "int")
    for f in ("E", "N", "U"):
        reg.field("ENUCoords", f, "float")
    reg.auto_inline |= {"tracklib.core.obs_coords:ENUCoords." + m for m in ("getX", "getY", "getZ")}
    WF = ["self.resolution[0] > 0", "self.resolution[1] > 0", "self.xmin < self.xmax", "self.ymin < self.ymax",
          # ncol = ceil(ax / rx), nrow = ceil(ay / ry)  (Raster.__init__)
          "(self.ncol - 1) * self.resolution[0] < self.xmax - self.xmin",
          "self.xmax - self.xmin <= self.ncol * self.resolution[0]",
          "(self.nrow - 1) * self.resolution[1] < self.ymax - self.ymin",
          "self.ymax - self.ymin <= self.nrow * self.resolution[1]",
          "not isnan(coord.E)", "not isnan(coord.N)"]
    INSIDE = "(self.xmin <= coord.E and coord.E <= self.xmax and self.ymin <= coord.N and coord.N <= self.ymax)"
    reg.add(Spec(R + "getCell", dict(self="Raster", coord="ENUCoords"), "opt[tuple[int,int]]",
                 requires=WF,
                 at={"if idx == self.ncol:": [("column-brackets-the-quotient", "column <= idx and idx <= column + 1")]},
                 hints=["implies(result is not None, idx * self.resolution[0] == coord.E - self.xmin)",
                        "implies(result is not None, ((self.nrow - 1) - idy) * self.resolution[1] == coord.N - self.ymin)",
                        "use implies(result is not None, mul_nonneg(idx - result[0], self.resolution[0]))",
                        "use implies(result is not None, mul_nonneg(result[0] + 1 - idx, self.resolution[0]))",
                        "use implies(result is not None, mul_nonneg(result[1] - idy, self.resolution[1]))",
                        "use implies(result is not None, mul_nonneg(idy - (result[1] - 1), self.resolution[1]))",
                        "use implies(result is not None, distrib(idx, result[0], self.resolution[0]))",
                        "use implies(result is not None, distrib(result[0] + 1, idx, self.resolution[0]))",
                        "use implies(result is not None, distrib(result[1], idy, self.resolution[1]))",
                        "use implies(result is not None, distrib(idy, result[1] - 1, self.resolution[1]))",
                        "use implies(result is not None, distrib(self.nrow - 1, idy, self.resolution[1]))",
                        "use implies(result is not None, distrib(self.nrow - 1, result[1], self.resolution[1]))",
                        "use implies(result is not None, distrib(self.nrow, result[1], self.resolution[1]))",
                        ("column-contains-the-quotient", "implies(result is not None, result[0] <= idx and idx <= result[0] + 1)"),
                        "use implies(result is not None, mul_mono(idx, result[0] + 1, self.resolution[0]))",
                        "use implies(result is not None, mul_mono(result[0], idx, self.resolution[0]))",
                        ("footprint-x-lower", "implies(result is not None, result[0] * self.resolution[0] <= coord.E - self.xmin)"),
                        ("footprint-x-upper", "implies(result is not None, coord.E - self.xmin <= (result[0] + 1) * self.resolution[0])")],
                 ensures=[("none-iff-outside", "(result is None) == (not %s)" % INSIDE),
                          ("column-in-range", "implies(result is not None, 0 <= result[0] and result[0] < self.ncol)"),
                          ("line-in-range", "implies(result is not None, 0 <= result[1] and result[1] < self.nrow)"),
                          ("footprint-x", "implies(result is not None, self.xmin + result[0] * self.resolution[0] <= coord.E and "
                           "coord.E <= self.xmin + (result[0] + 1) * self.resolution[0])"),
                          ("footprint-y", "implies(result is not None, "
                           "self.ymin + (self.nrow - 1 - result[1]) * self.resolution[1] <= coord.N and "
                           "coord.N <= self.ymin + (self.nrow - result[1]) * self.resolution[1])")]))


USES_LIB = True
FUNCTIONS = [U + n for n in ("co_sum", "co_count", "co_avg", "co_min", "co_max")] + [R + "getCell"]
ASSUMPTIONS = ["co_median (selection sort with list.remove) is outside the proved part: bounded only",
               "eval(aggregate + '(tarray)') dispatch in computeAggregates is trusted to call the function of that name"]
