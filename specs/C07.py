"""C07 — a returned shortest path is a real, optimal, geometrically continuous route.

Network.run_routing_backward under the certificate established by the forward pass (C06: predecessor TREE, labels,
the source is the root).  Ghost GN = the chain of nodes walked, W = the weights accumulated.  The geometry operations
are opaque in this contract (bounded stand-in only for every geometry clause).
Proved: None exactly when the target has no antecedent; otherwise the recorded path is the chain target -> ... ->
source through the antecedents, reversed (so it runs from the source to the target), consecutive nodes being joined
by the recorded antecedent edge -- an arc in the direction of travel by TREE; the weights of the edges used sum to
the target's label (the shortest distance by C06).  Partial correctness: termination of the walk (acyclicity of the
antecedent chain) is not proved."""
import z3
from pyvc.kinds import *
from pyvc.values import *
from pyvc.symexec import Spec, LoopSpec
from specs import track_model, C04, C06
from specs.track_model import T, DICO, PTS

NW = "tracklib.core.network:Network."
DEPENDS = []


def register(reg):
    C04.register(reg)
    C06.register(reg)
    X = C06.EXPORT
    isn = lambda n: X["ISNODE"] % (n, n, n)
    reg.field("Track", "path", "list[any]")
    reg.auto_inline |= {NW + "_Network__correctInputNode", "tracklib.core.obs:Obs.__init__", "tracklib.core.obs_time:ObsTime.__init__"}
    # In this contract the geometry operations are opaque: each returns SOME new track (trusted, no further claim), so
    # the proof is about the walk through the antecedents only; the geometry clauses of C07 are bounded only.
    # Geometry: Track.copy is a TRUSTED deepcopy contract (a new track of new observations with the same coordinates);
    # Track.reverse is verified on top of it; `track > 1` and `+` are C04's proved contracts (the result shares the
    # observation objects of its operands, so it has their coordinates).
    NN = "all(not isnan(X(%(t)s, r)) and not isnan(Y(%(t)s, r)) for r in range(0, npts(%(t)s)))"
    reg.add(Spec(T + "copy", dict(self="Track"), "Track", trusted=True, fresh=["Track", "Obs", "ENUCoords", "ObsTime"],
                 ensures=["isnew(result)", "npts(result) == npts(self)",
                          "all(isnew(obs(result, i)) and isnew(obs(result, i).position) for i in range(0, npts(self)))",
                          "all(same(X(result, i), X(self, i)) and same(Y(result, i), Y(self, i)) for i in range(0, npts(self)))"]))
    reg.add(Spec(T + "reverse", dict(self="Track"), "Track", fresh=["Track", "Obs", "ENUCoords", "ObsTime"],
                 ensures=[("new-track", "isnew(result)"), ("same-size", "npts(result) == npts(self)"),
                          ("new-observations", "all(isnew(obs(result, i)) and isnew(obs(result, i).position) for i in range(0, npts(self)))"),
                          ("reversed-coordinates", "all(same(X(result, k), X(self, npts(self) - 1 - k)) and same(Y(result, k), Y(self, npts(self) - 1 - k)) "
                           "for k in range(0, npts(self)))")]))
    TGT = "self.NODES[target]"
    EO = X.get("EDGE_OF", "self.EDGES[self.NEXT_EDGES[%s.id][%s]]")
    LISTED_ENDS = ("all(implies(%s and 0 <= t and t < len(self.NEXT_EDGES[u.id]), %s.source is u or %s.target is u) for u in refs(Node) for t in ints)"
                   % (isn("u"), EO % ("u", "t"), EO % ("u", "t")))
    EDGE_GEOM = ("all(implies(e_.id in self.EDGES and self.EDGES[e_.id] is e_, npts(e_.geom) >= 2 and %s and "
                 "X(e_.geom, 0) == e_.source.coord.E and Y(e_.geom, 0) == e_.source.coord.N and "
                 "X(e_.geom, npts(e_.geom) - 1) == e_.target.coord.E and Y(e_.geom, npts(e_.geom) - 1) == e_.target.coord.N) for e_ in refs(Edge))"
                 % (NN % dict(t="e_.geom")))
    GEO = ["npts(track) >= 1 and npts(track) == 1 + CNT and CNT >= 0",
           "X(track, 0) == TGT0.coord.E and Y(track, 0) == TGT0.coord.N",
           "X(track, npts(track) - 1) == node.coord.E and Y(track, npts(track) - 1) == node.coord.N",
           "all(isold(obs(track, r)) and isold(obs(track, r).position) for r in range(0, npts(track)))"]
    CHAIN = ["len(GN) == len(NODES_PATH) and len(GN) >= 1", "GN[0] is %s and GN[len(GN) - 1] is node" % "TGT0",
             "all(NODES_PATH[j] == GN[j].id and %s and GN[j].poids != -1 for j in range(0, len(GN)))" % isn("GN[j]"),
             "all(implies(j >= 1, GN[j - 1].antecedent is not None and GN[j] is GN[j - 1].antecedent) for j in range(0, len(GN)))"]
    reg.add(Spec(NW + "run_routing_backward", dict(self="Network", target="any"), "opt[Track]",
                 ghost=dict(SRC="Node", TGT0="Node"),
                 requires=X["WFNET"] + X["LABELS"] + [X["TREE"], X["SETTLED_REACHED"],
                                                      "target in self.NODES and %s is TGT0 and %s" % (TGT, isn("TGT0")),
                                                      "TGT0.antecedent is None or TGT0.poids != -1", "SRC.antecedent is None",
                                                      "all(implies(%s, not isnan(n.coord.E) and not isnan(n.coord.N)) for n in refs(Node))" % isn("n"),
                                                      # geometry of the network: an edge listed under a node has that node as one of its ends, and
                                                      # its polyline (>= 2 numeric fixes) runs from its source node's position to its target node's
                                                      LISTED_ENDS, EDGE_GEOM],
                 fresh=["Track", "Obs", "ENUCoords", "ObsTime"],
                 locals=dict(NODES_PATH="list[any]", GN="list[Node]"),
                 at={"NODES_PATH.append(node.id)": ["ghost GN = [node]", "ghost W = 0.0", "ghost CNT = 0"],
                     "e = self.EDGES[node.antecedent_edge]": ["ghost W = W + e.weight", "ghost CNT = CNT + npts(e.geom) - 1",
                                                              ("the-edge-joins-the-node-and-its-antecedent",
                                                               "(e.source is node and e.target is node.antecedent) or (e.target is node and e.source is node.antecedent)")],
                     "if e.source != node:": [("oriented-from-the-node-to-its-antecedent",
                                               "npts(edge_geom) == npts(e.geom) and X(edge_geom, 0) == node.coord.E and Y(edge_geom, 0) == node.coord.N and "
                                               "X(edge_geom, npts(edge_geom) - 1) == nonnull(node.antecedent).coord.E and "
                                               "Y(edge_geom, npts(edge_geom) - 1) == nonnull(node.antecedent).coord.N")],
                     "NODES_PATH.append(node.id)#2": ["ghost GN = GN + [nonnull(node)]"]},
                 loops={"1": LoopSpec(inv=CHAIN + [
                     "not isnan(W) and W == TGT0.poids - node.poids",
                     "isnew(track)"] + GEO + [
                     "unchanged_old_class('Track') and unchanged_old_class('Obs') and unchanged_old_class('ENUCoords') and unchanged_old_class('ObsTime')",
                     "node is not None"])},
                 ensures=[("none-iff-no-antecedent", "(result is None) == (TGT0.antecedent is None)"),
                          ("walk-ends-at-the-source", "implies(result is not None, GN[len(GN) - 1] is SRC)"),
                          ("path-is-the-antecedent-chain-reversed",
                           "implies(result is not None, len(track.path) == len(GN) and all(track.path[j] == GN[len(GN) - 1 - j].id for j in range(0, len(GN))))"),
                          ("chain-follows-the-antecedents", "implies(result is not None, %s)" % " and ".join(CHAIN[2:])),
                          ("weights-sum-to-the-label-of-the-target", "implies(result is not None, W == TGT0.poids)"),
                          ("geometry-starts-at-the-source-node", "implies(result is not None, X(nonnull(result), 0) == SRC.coord.E and Y(nonnull(result), 0) == SRC.coord.N)"),
                          ("geometry-ends-at-the-target-node", "implies(result is not None, X(nonnull(result), npts(nonnull(result)) - 1) == TGT0.coord.E and "
                           "Y(nonnull(result), npts(nonnull(result)) - 1) == TGT0.coord.N)")],
                 ensures_local=[("one-vertex-per-edge-vertex-junctions-counted-once", "implies(result is not None, npts(nonnull(result)) == 1 + CNT)")]))


FUNCTIONS = [NW + "run_routing_backward", T + "reverse"]
ASSUMPTIONS = ["in this contract Track.copy / reverse / > / + are opaque (each returns some new track): every GEOMETRY clause of C07 "
               "(polylines chained end to end, oriented along the travel, junctions not repeated, end points) is bounded only",
               "run_routing_backward: partial correctness (termination of the antecedent walk not proved)",
               "Node.antecedent == '' is modelled as None"]
