"""C07 — a returned shortest path is a real, optimal, geometrically continuous route.

Network.run_routing_backward under the certificate established by the forward pass (C06: predecessor TREE, labels,
the source is the root).  Ghost GN = the chain of nodes walked, W = the weights accumulated, EG_ / OFF_ = the edges
walked and the index in the accumulated geometry where each edge's polyline starts.
Proved: None exactly when the target has no antecedent; otherwise the recorded path is the chain target -> ... ->
source through the antecedents, reversed (so it runs from the source to the target), consecutive nodes being joined
by the recorded antecedent edge -- an arc in the direction of travel by TREE; the weights of the edges used sum to
the target's label (the shortest distance by C06).
Geometry (Track.copy trusted deepcopy, Track.reverse verified here, `> 1` and `+` by C04's contracts): the accumulated
track starts at the target node's position and, edge after edge, continues with that edge's polyline oriented from the
current node to its antecedent, the junction vertex taken once (vertex K0 of walked edge J0 sits at index
OFF_[J0] + K0, for arbitrary ghosts J0, K0; one vertex per edge vertex, junctions counted once); the result is that
chain reversed: it starts at the source node's position and ends at the target's.
Partial correctness: termination of the walk (acyclicity of the antecedent chain) is not proved."""
import z3
from pyvc.kinds import *
from pyvc.values import *
from pyvc.symexec import Spec, LoopSpec
from specs import track_model, C04, C06
from specs.track_model import T, DICO, PTS

NW = "tracklib.core.network:Network."
DEPENDS = []


def register(reg):
    C04.register(reg)
    C06.register(reg)
    X = C06.EXPORT
    isn = lambda n: X["ISNODE"] % (n, n, n)
    reg.field("Track", "path", "list[any]")
    reg.auto_inline |= {NW + "_Network__correctInputNode", "tracklib.core.obs:Obs.__init__", "tracklib.core.obs_time:ObsTime.__init__"}
    # In this contract the geometry operations are opaque: each returns SOME new track (trusted, no further claim), so
    # the proof is about the walk through the antecedents only; the geometry clauses of C07 are bounded only.
    # Geometry: Track.copy is a TRUSTED deepcopy contract (a new track of new observations with the same coordinates);
    # Track.reverse is verified on top of it; `track > 1` and `+` are C04's proved contracts (the result shares the
    # observation objects of its operands, so it has their coordinates).
    NN = "all(not isnan(X(%(t)s, r)) and not isnan(Y(%(t)s, r)) for r in range(0, npts(%(t)s)))"
    reg.add(Spec(T + "copy", dict(self="Track"), "Track", trusted=True, fresh=["Track", "Obs", "ENUCoords", "ObsTime"],
                 ensures=["isnew(result)", "npts(result) == npts(self)",
                          "all(isnew(obs(result, i)) and isnew(obs(result, i).position) for i in range(0, npts(self)))",
                          "all(same(X(result, i), X(self, i)) and same(Y(result, i), Y(self, i)) for i in range(0, npts(self)))"]))
    reg.add(Spec(T + "reverse", dict(self="Track"), "Track", fresh=["Track", "Obs", "ENUCoords", "ObsTime"],
                 ensures=[("new-track", "isnew(result)"), ("same-size", "npts(result) == npts(self)"),
                          ("new-observations", "all(isnew(obs(result, i)) and isnew(obs(result, i).position) for i in range(0, npts(self)))"),
                          ("reversed-coordinates", "all(same(X(result, k), X(self, npts(self) - 1 - k)) and same(Y(result, k), Y(self, npts(self) - 1 - k)) "
                           "for k in range(0, npts(self)))")]))
    TGT = "self.NODES[target]"
    EO = X.get("EDGE_OF", "self.EDGES[self.NEXT_EDGES[%s.id][%s]]")
    LISTED_ENDS = ("all(implies(%s and 0 <= t and t < len(self.NEXT_EDGES[u.id]), %s.source is u or %s.target is u) for u in refs(Node) for t in ints)"
                   % (isn("u"), EO % ("u", "t"), EO % ("u", "t")))
    EDGE_GEOM = ("all(implies(e_.id in self.EDGES and self.EDGES[e_.id] is e_, npts(e_.geom) >= 2 and %s and "
                 "X(e_.geom, 0) == e_.source.coord.E and Y(e_.geom, 0) == e_.source.coord.N and "
                 "X(e_.geom, npts(e_.geom) - 1) == e_.target.coord.E and Y(e_.geom, npts(e_.geom) - 1) == e_.target.coord.N) for e_ in refs(Edge))"
                 % (NN % dict(t="e_.geom")))
    ORI = ("(%(F)s(%(g)s, %(k)s) if %(e)s.source is %(v)s else %(F)s(%(g)s, npts(%(g)s) - 1 - %(k)s))")
    ori = lambda F, e, v, k: ORI % dict(F=F, g=e + ".geom", e=e, v=v, k=k)
    VERTEX = ("implies(0 <= J0 and J0 < len(EG_) and 0 <= K0 and K0 < npts(EG_[J0].geom), "
              "X(track, OFF_[J0] + K0) == %s and Y(track, OFF_[J0] + K0) == %s)" % (ori("X", "EG_[J0]", "GN[J0]", "K0"), ori("Y", "EG_[J0]", "GN[J0]", "K0")))
    OFFS_REST = ("len(OFF_) == len(EG_) and "
            "all(0 <= OFF_[j] and OFF_[j] + npts(EG_[j].geom) - 1 <= npts(track) - 1 and "
            "(EG_[j].id in self.EDGES and self.EDGES[EG_[j].id] is EG_[j]) for j in range(0, len(EG_))) and "
            "implies(len(EG_) >= 1, OFF_[0] == 0 and OFF_[len(EG_) - 1] + npts(EG_[len(EG_) - 1].geom) - 1 == npts(track) - 1) and "
            "all(implies(j >= 1, OFF_[j] == OFF_[j - 1] + npts(EG_[j - 1].geom) - 1) for j in range(0, len(EG_)))")
    OFFS = "len(EG_) == len(GN) - 1 and " + OFFS_REST

    def vertex(extra):
        return VERTEX.replace("implies(0 <= J0 and", "implies((%s) and 0 <= J0 and" % extra, 1)
    GEO = ["npts(track) >= 1 and npts(track) == 1 + CNT and CNT >= 0 and implies(len(EG_) == 0, npts(track) == 1)", OFFS, VERTEX,
           "X(track, 0) == TGT0.coord.E and Y(track, 0) == TGT0.coord.N",
           "X(track, npts(track) - 1) == node.coord.E and Y(track, npts(track) - 1) == node.coord.N",
           "all(isold(obs(track, r)) and isold(obs(track, r).position) for r in range(0, npts(track)))"]
    CHAIN = ["len(GN) == len(NODES_PATH) and len(GN) >= 1", "GN[0] is %s and GN[len(GN) - 1] is node" % "TGT0",
             "all(NODES_PATH[j] == GN[j].id and %s and GN[j].poids != -1 for j in range(0, len(GN)))" % isn("GN[j]"),
             "all(implies(j >= 1, GN[j - 1].antecedent is not None and GN[j] is GN[j - 1].antecedent) for j in range(0, len(GN)))"]
    reg.add(Spec(NW + "run_routing_backward", dict(self="Network", target="any"), "opt[Track]",
                 ghost=dict(SRC="Node", TGT0="Node", J0="int", K0="int", EG0="list[Edge]", OFF0="list[int]"),
                 requires=X["WFNET"] + X["LABELS"] + [X["TREE"], X["SETTLED_REACHED"],
                                                      "target in self.NODES and %s is TGT0 and %s" % (TGT, isn("TGT0")),
                                                      "TGT0.antecedent is None or TGT0.poids != -1", "SRC.antecedent is None",
                                                      "all(implies(%s, not isnan(n.coord.E) and not isnan(n.coord.N)) for n in refs(Node))" % isn("n"),
                                                      # geometry of the network: an edge listed under a node has that node as one of its ends, and
                                                      # its polyline (>= 2 numeric fixes) runs from its source node's position to its target node's
                                                      LISTED_ENDS, EDGE_GEOM, "len(EG0) == 0 and len(OFF0) == 0"],
                 fresh=["Track", "Obs", "ENUCoords", "ObsTime"],
                 locals=dict(NODES_PATH="list[any]", GN="list[Node]", EG_="list[Edge]", OFF_="list[int]", old_GN_="list[Node]"),
                 at={"NODES_PATH.append(node.id)": ["ghost GN = [node]", "ghost W = 0.0", "ghost CNT = 0", "ghost EG_ = EG0", "ghost OFF_ = OFF0", "ghost old_GN_ = GN"],
                     "track = track + (edge_geom > 1)": ["ghost OFF_ = OFF_ + [npts(track) - 1 - (npts(e.geom) - 1)]", "ghost EG_ = EG_ + [e]", "ghost old_GN_ = GN",
                                                         ("offsets:lengths", "len(EG_) == len(GN) and len(OFF_) == len(EG_) and len(EG_) >= 1 and "
                                                          "EG_[len(EG_) - 1] is e and OFF_[len(EG_) - 1] == npts(track) - 1 - (npts(e.geom) - 1) and "
                                                          "e.id in self.EDGES and self.EDGES[e.id] is e"),
                                                         ("offsets:earlier-entries-kept", "all(implies(j < len(EG_) - 1, 0 <= OFF_[j] and "
                                                          "OFF_[j] + npts(EG_[j].geom) - 1 <= npts(track) - 1 - (npts(e.geom) - 1) and "
                                                          "(EG_[j].id in self.EDGES and self.EDGES[EG_[j].id] is EG_[j])) for j in range(0, len(EG_)))"),
                                                         ("offsets:first-and-last", "OFF_[0] == 0 and OFF_[len(EG_) - 1] + npts(EG_[len(EG_) - 1].geom) - 1 == npts(track) - 1"),
                                                         ("offsets:consecutive", "all(implies(j >= 1, OFF_[j] == OFF_[j - 1] + npts(EG_[j - 1].geom) - 1) for j in range(0, len(EG_)))"),
                                                         ("offsets-after-the-new-edge", "len(EG_) == len(GN) and " + OFFS_REST),
                                                         ("vertices-of-the-earlier-edges-kept", vertex("J0 < len(EG_) - 1")),
                                                         ("vertices-of-the-new-edge", vertex("J0 == len(EG_) - 1"))],
                     "e = self.EDGES[node.antecedent_edge]": ["ghost W = W + e.weight", "ghost CNT = CNT + npts(e.geom) - 1",
                                                              ("the-edge-joins-the-node-and-its-antecedent",
                                                               "(e.source is node and e.target is node.antecedent) or (e.target is node and e.source is node.antecedent)")],
                     "if e.source != node:": [("oriented-copy-of-the-edge-polyline",
                                               "npts(edge_geom) == npts(e.geom) and all(X(edge_geom, k) == %s and Y(edge_geom, k) == %s for k in range(0, npts(e.geom)))"
                                               % (ori("X", "e", "node", "k"), ori("Y", "e", "node", "k"))),
                                              ("oriented-from-the-node-to-its-antecedent",
                                               "npts(edge_geom) == npts(e.geom) and X(edge_geom, 0) == node.coord.E and Y(edge_geom, 0) == node.coord.N and "
                                               "X(edge_geom, npts(edge_geom) - 1) == nonnull(node.antecedent).coord.E and "
                                               "Y(edge_geom, npts(edge_geom) - 1) == nonnull(node.antecedent).coord.N")],
                     "NODES_PATH.append(node.id)#2": ["ghost GN = GN + [nonnull(node)]",
                                                      ("earlier-chain-nodes-kept", "all(GN[j] is old_GN_[j] for j in range(0, len(GN) - 1))"),
                                                      ("vertices-after-the-step", VERTEX)]},
                 loops={"1": LoopSpec(inv=CHAIN + [
                     "not isnan(W) and W == TGT0.poids - node.poids",
                     "isnew(track)"] + GEO + [
                     "unchanged_old_class('Track') and unchanged_old_class('Obs') and unchanged_old_class('ENUCoords') and unchanged_old_class('ObsTime')",
                     "node is not None"])},
                 ensures=[("none-iff-no-antecedent", "(result is None) == (TGT0.antecedent is None)"),
                          ("walk-ends-at-the-source", "implies(result is not None, GN[len(GN) - 1] is SRC)"),
                          ("path-is-the-antecedent-chain-reversed",
                           "implies(result is not None, len(track.path) == len(GN) and all(track.path[j] == GN[len(GN) - 1 - j].id for j in range(0, len(GN))))"),
                          ("chain-follows-the-antecedents", "implies(result is not None, %s)" % " and ".join(CHAIN[2:])),
                          ("weights-sum-to-the-label-of-the-target", "implies(result is not None, W == TGT0.poids)"),
                          ("geometry-starts-at-the-source-node", "implies(result is not None, X(nonnull(result), 0) == SRC.coord.E and Y(nonnull(result), 0) == SRC.coord.N)"),
                          ("geometry-ends-at-the-target-node", "implies(result is not None, X(nonnull(result), npts(nonnull(result)) - 1) == TGT0.coord.E and "
                           "Y(nonnull(result), npts(nonnull(result)) - 1) == TGT0.coord.N)")],
                 ensures_local=[("one-vertex-per-edge-vertex-junctions-counted-once", "implies(result is not None, npts(nonnull(result)) == 1 + CNT)"),
                                # `track` is the geometry in walking order (target to source); the result is its reversal
                                ("edge-polylines-chained-end-to-end-each-oriented-along-the-walk", "implies(result is not None, %s and %s)" % (OFFS, VERTEX)),
                                ("the-result-is-that-chain-reversed", "implies(result is not None, npts(nonnull(result)) == npts(track) and "
                                 "all(same(X(nonnull(result), m), X(track, npts(track) - 1 - m)) and same(Y(nonnull(result), m), Y(track, npts(track) - 1 - m)) "
                                 "for m in range(0, npts(track))))")]))


FUNCTIONS = [NW + "run_routing_backward", T + "reverse"]
ASSUMPTIONS = ["Track.copy (copy.deepcopy) is a TRUSTED contract: a new track of new observations with the same coordinates",
               "network geometry preconditions: every edge listed under a node has that node as its source or target; every edge's polyline has "
               ">= 2 numeric fixes, starts at its source node's position and ends at its target node's (as the network reader builds them)",
               "run_routing_backward: partial correctness (termination of the antecedent walk not proved)",
               "Node.antecedent == '' is modelled as None; positions are compared as exact coordinates (A-REAL)"]
