"""C07 — a returned shortest path is a real, optimal, geometrically continuous route.

Network.run_routing_backward under the certificate established by the forward pass (C06: predecessor TREE, labels,
the source is the root).  Ghost GN = the chain of nodes walked, W = the weights accumulated.  The geometry operations
are opaque in this contract (bounded stand-in only for every geometry clause).
Proved: None exactly when the target has no antecedent; otherwise the recorded path is the chain target -> ... ->
source through the antecedents, reversed (so it runs from the source to the target), consecutive nodes being joined
by the recorded antecedent edge -- an arc in the direction of travel by TREE; the weights of the edges used sum to
the target's label (the shortest distance by C06).  Partial correctness: termination of the walk (acyclicity of the
antecedent chain) is not proved."""
import z3
from pyvc.kinds import *
from pyvc.values import *
from pyvc.symexec import Spec, LoopSpec
from specs import track_model, C04, C06
from specs.track_model import T, DICO, PTS

NW = "tracklib.core.network:Network."
DEPENDS = []


def register(reg):
    C04.register(reg)
    C06.register(reg)
    X = C06.EXPORT
    isn = lambda n: X["ISNODE"] % (n, n, n)
    reg.field("Track", "path", "list[any]")
    reg.auto_inline |= {NW + "_Network__correctInputNode", "tracklib.core.obs:Obs.__init__", "tracklib.core.obs_time:ObsTime.__init__"}
    # In this contract the geometry operations are opaque: each returns SOME new track (trusted, no further claim), so
    # the proof is about the walk through the antecedents only; the geometry clauses of C07 are bounded only.
    for m, params in (("copy", dict(self="Track")), ("reverse", dict(self="Track")), ("__gt__", dict(self="Track", arg="int")),
                      ("__add__", dict(self="Track", track="Track"))):
        reg.add(Spec(T + m, params, "Track", trusted=True, fresh=["Track", "Obs", "ENUCoords", "ObsTime"], ensures=["isnew(result)"]))
    TGT = "self.NODES[target]"
    CHAIN = ["len(GN) == len(NODES_PATH) and len(GN) >= 1", "GN[0] is %s and GN[len(GN) - 1] is node" % "TGT0",
             "all(NODES_PATH[j] == GN[j].id and %s and GN[j].poids != -1 for j in range(0, len(GN)))" % isn("GN[j]"),
             "all(implies(j >= 1, GN[j - 1].antecedent is not None and GN[j] is GN[j - 1].antecedent) for j in range(0, len(GN)))"]
    reg.add(Spec(NW + "run_routing_backward", dict(self="Network", target="any"), "opt[Track]",
                 ghost=dict(SRC="Node", TGT0="Node"),
                 requires=X["WFNET"] + X["LABELS"] + [X["TREE"], X["SETTLED_REACHED"],
                                                      "target in self.NODES and %s is TGT0 and %s" % (TGT, isn("TGT0")),
                                                      "TGT0.antecedent is None or TGT0.poids != -1", "SRC.antecedent is None",
                                                      "all(implies(%s, not isnan(n.coord.E) and not isnan(n.coord.N)) for n in refs(Node))" % isn("n")],
                 fresh=["Track", "Obs", "ENUCoords", "ObsTime"],
                 locals=dict(NODES_PATH="list[any]", GN="list[Node]"),
                 at={"NODES_PATH.append(node.id)": ["ghost GN = [node]", "ghost W = 0.0"],
                     "e = self.EDGES[node.antecedent_edge]": ["ghost W = W + e.weight"],
                     "NODES_PATH.append(node.id)#2": ["ghost GN = GN + [nonnull(node)]"]},
                 loops={"1": LoopSpec(inv=CHAIN + [
                     "not isnan(W) and W == TGT0.poids - node.poids",
                     "isnew(track)",
                     "unchanged_old_class('Track') and unchanged_old_class('Obs') and unchanged_old_class('ENUCoords') and unchanged_old_class('ObsTime')",
                     "node is not None"])},
                 ensures=[("none-iff-no-antecedent", "(result is None) == (TGT0.antecedent is None)"),
                          ("walk-ends-at-the-source", "implies(result is not None, GN[len(GN) - 1] is SRC)"),
                          ("path-is-the-antecedent-chain-reversed",
                           "implies(result is not None, len(track.path) == len(GN) and all(track.path[j] == GN[len(GN) - 1 - j].id for j in range(0, len(GN))))"),
                          ("chain-follows-the-antecedents", "implies(result is not None, %s)" % " and ".join(CHAIN[2:])),
                          ("weights-sum-to-the-label-of-the-target", "implies(result is not None, W == TGT0.poids)")]))


FUNCTIONS = [NW + "run_routing_backward"]
ASSUMPTIONS = ["in this contract Track.copy / reverse / > / + are opaque (each returns some new track): every GEOMETRY clause of C07 "
               "(polylines chained end to end, oriented along the travel, junctions not repeated, end points) is bounded only",
               "run_routing_backward: partial correctness (termination of the antecedent walk not proved)",
               "Node.antecedent == '' is modelled as None"]
