"""C11 — splitting on a marker partitions the track; threshold markers reflect the thresholds.

split(track, name): ghost list E of piece end indices (one entry per piece added); every piece is the slice
(E[j-1], E[j]] of the track's observation list, pieces other than the last end at a marked observation and contain
no other marked observation, the last piece ends at the last observation: the pieces in order are the track.
segmentation(...): marker = 1 iff not comp, comp = AND / OR fold of (value <= threshold) over the non-NaN features."""
import z3
from pyvc.kinds import *
from pyvc.values import *
from pyvc.symexec import Spec, LoopSpec
from specs import track_model, C04
from specs.track_model import T, DICO, PTS, ALLCOLS_SAME

S = "tracklib.algo.segmentation:"
TC = "tracklib.core.track_collection:TrackCollection."
TR = "_TrackCollection__TRACES"


def sf_traces(ex, st, c):
    return ex.read_field(st, c, TR)


def register(reg):
    C04.register(reg)
    reg.field("TrackCollection", TR, "list[Track]")
    reg.field("TrackCollection", "spatial_index", "none")
    reg.specfuncs.update(traces=sf_traces)
    reg.auto_inline |= {TC + "__init__", TC + "addTrack"}

    MARKED = "(col(track, source, %s) == 1)"
    PIECE = "traces(NEW_TRACES)[%s]"
    LO = "(E[%s - 1] if %s > 0 else -1)"
    pieces_inv = [
        "isnew(NEW_TRACES)", "unchanged_old_class('TrackCollection')", "unchanged_old_class('Track')",
        "len(E) == len(traces(NEW_TRACES))", "count == len(E)",
        "begin == (E[len(E) - 1] + 1 if len(E) > 0 else 0)", "begin <= i",
        "all(isnew(%s) for j in range(0, len(E)))" % (PIECE % "j"),
        # piece j is the slice (E[j-1], E[j]] of the track
        "all(%s < E[j] and E[j] < i for j in range(0, len(E)))" % (LO % ("j", "j")),
        "all(npts(%s) == E[j] - %s for j in range(0, len(E)))" % (PIECE % "j", LO % ("j", "j")),
        "all(implies(q < E[j] - %s, pts(%s)[q] == pts(track)[%s + 1 + q]) for j in range(0, len(E)) for q in range(0, npts(track)))"
        % (LO % ("j", "j"), PIECE % "j", LO % ("j", "j")),
        "all(same(%s.%s, track.%s) for j in range(0, len(E)))" % (PIECE % "j", DICO, DICO),
        # it ends at a marked observation and holds no other marked observation
        "all(%s for j in range(0, len(E)))" % (MARKED % "E[j]"),
        "all(implies(%s < p and p < E[j], not %s) for j in range(0, len(E)) for p in range(0, npts(track)))" % (LO % ("j", "j"), MARKED % "p"),
        "all(not %s for p in range(begin, i))" % (MARKED % "p")]
    reg.add(Spec(S + "split", dict(track="Track", source="str"), "TrackCollection",
                 requires=["twf(track)", "hasname(track, source)", "not reserved(source)"],
                 fresh=["TrackCollection", "Track"],
                 locals=dict(E="list[int]"),
                 at={"count = 0": ["ghost E = []"],
                     "NEW_TRACES.addTrack(newtrack)": ["ghost E = E + [i]"],
                     "NEW_TRACES.addTrack(newtrack)#2": ["ghost E = E + [npts(track) - 1]"]},
                 loops={"1": LoopSpec(inv=pieces_inv)},
                 hints=[("first-end-is-a-marked-observation",
                         "implies(len(E) > 0, %s and 0 <= E[0] and E[0] < npts(track))" % (MARKED % "E[0]"))],
                 ensures=[("new-collection", "isnew(result)"),
                          ("no-marker-no-piece", "implies(all(not %s for p in range(0, npts(track))), len(traces(result)) == 0)" % (MARKED % "p")),
                          ("one-end-per-piece", "len(E) == len(traces(result))"),
                          ("last-piece-ends-at-last-observation",
                           "implies(any(%s for p in range(0, npts(track))), len(E) >= 1 and E[len(E) - 1] == npts(track) - 1)" % (MARKED % "p")),
                          ("ends-never-decrease", "all(%s <= E[j] for j in range(0, len(E)))" % (LO % ("j", "j"))),
                          ("piece-is-the-slice-after-the-previous-end",
                           "all(npts(traces(result)[j]) == E[j] - %s for j in range(0, len(E))) and "
                           "all(implies(q < E[j] - %s, pts(traces(result)[j])[q] == pts(track)[%s + 1 + q]) "
                           "for j in range(0, len(E)) for q in range(0, npts(track)))" % (LO % ("j", "j"), LO % ("j", "j"), LO % ("j", "j"))),
                          ("pieces-but-the-last-end-at-a-marker", "all(%s for j in range(0, len(E) - 1))" % (MARKED % "E[j]")),
                          ("no-marker-inside-a-piece",
                           "all(implies(%s < p and p < E[j], not %s) for j in range(0, len(E)) for p in range(0, npts(track)))" % (LO % ("j", "j"), MARKED % "p")),
                          ("feature-table-carried", "all(same(traces(result)[j].%s, track.%s) for j in range(0, len(E)))" % (DICO, DICO))]))


    # split(track, [i0, i1, ...]) (limit = 0): piece j holds the observations source[j] .. source[j + 1], both included
    reg.add(Spec(S + "split", dict(track="Track", source="list[int]"), "TrackCollection",
                 requires=["twf(track)", "all(0 <= source[j] and source[j] < npts(track) for j in range(0, len(source)))",
                           "all(source[j] <= source[j + 1] for j in range(0, len(source) - 1))"],
                 fresh=["TrackCollection", "Track"],
                 loops={"2": LoopSpec(inv=[
                     "isnew(NEW_TRACES)", "unchanged_old_class('TrackCollection')", "unchanged_old_class('Track')",
                     "len(traces(NEW_TRACES)) == i",
                     "all(isnew(%s) for j in range(0, i))" % (PIECE % "j"),
                     "all(npts(%s) == source[j + 1] - source[j] + 1 for j in range(0, i))" % (PIECE % "j"),
                     "all(implies(q <= source[j + 1] - source[j], pts(%s)[q] == pts(track)[source[j] + q]) for j in range(0, i) for q in range(0, npts(track)))"
                     % (PIECE % "j"),
                     "all(same(%s.%s, track.%s) for j in range(0, i))" % (PIECE % "j", DICO, DICO)])},
                 ensures=[("new-collection", "isnew(result)"),
                          ("one-piece-per-consecutive-pair", "len(traces(result)) == (len(source) - 1 if len(source) >= 1 else 0)"),
                          ("piece-is-the-designated-slice",
                           "all(npts(traces(result)[j]) == source[j + 1] - source[j] + 1 for j in range(0, len(source) - 1)) and "
                           "all(implies(q <= source[j + 1] - source[j], pts(traces(result)[j])[q] == pts(track)[source[j] + q]) "
                           "for j in range(0, len(source) - 1) for q in range(0, npts(track)))"),
                          ("feature-table-carried", "all(same(traces(result)[j].%s, track.%s) for j in range(0, len(source) - 1))" % (DICO, DICO))]),
            variant="indices")

    # ---------------------------------------------------------------- segmentation (threshold markers)
    V = "col(track, afs_input[%s], %s)"
    OLDV = "old(col(track, afs_input[%s], %s))"

    def comp(i, upto, v=V):
        a = "all(isnan(%s) or %s <= thresholds_max[j] for j in range(0, %s))" % (v % ("j", i), v % ("j", i), upto)
        o = "any(not isnan(%s) and %s <= thresholds_max[j] for j in range(0, %s))" % (v % ("j", i), v % ("j", i), upto)
        return "((%s) if mode_comparaison == 1 else (%s))" % (a, o)
    OTHER_OBS = ("all(implies(all(obs(track, q) != o for q in range(0, npts(track))), untouched(o, 'Obs.features')) "
                 "for o in refs(Obs))")
    for variant, ka, kt in ((None, "list[str]", "list[float]"), ("scalar", "str", "float")):
        pre_afs = "afs_input[j]" if variant is None else "afs_input"
        rng = "range(0, len(afs_input))" if variant is None else "range(0, 1)"
        reg.add(Spec(S + "segmentation", dict(track="Track", afs_input=ka, af_output="str", thresholds_max=kt, mode_comparaison="int"), "none",
                     requires=["twf(track)", "npts(track) >= 1", "not reserved(af_output)", "not hasname(track, af_output)",
                               "all(hasname(track, %s) and not reserved(%s) and %s != af_output for j in %s)" % (pre_afs, pre_afs, pre_afs, rng)]
                     + (["len(thresholds_max) == len(afs_input)", "all(not isnan(thresholds_max[j]) for j in range(0, len(afs_input)))"]
                        if variant is None else ["not isnan(thresholds_max)"]),
                     modifies=["Obs.features", "Track." + DICO],
                     at={"for index, af_input in enumerate(afs_input):": [("comparison-over-all-features", "comp == %s" % comp("i", "len(afs_input)"))],
                         "if not comp:": [("marker-written", "col(track, af_output, i) == (0 if comp else 1) and twf(track) and hasname(track, af_output)"),
                                          ("earlier-markers-kept", "all(col(track, af_output, r) == (0 if %s else 1) for r in range(0, i))" % comp("r", "len(afs_input)"))]},
                     ensures=[("wf", "twf(track)"),
                              ("marker-listed", "hasname(track, af_output)"),
                              ("marker-is-one-exactly-where-the-thresholds-are-exceeded",
                               "all(col(track, af_output, i) == (0 if %s else 1) for i in range(0, npts(track)))" % comp("i", "len(afs_input)")),
                              ("names", "all(implies(k != af_output, hasname(track, k) == old(hasname(track, k))) for k in strs)"),
                              ("other-columns", (ALLCOLS_SAME % "af_output").replace("self", "track")),
                              ("other-observations", OTHER_OBS)],
                     loops={"1": LoopSpec(inv=[
                                "twf(track)", "hasname(track, af_output)", "unchanged('ENUCoords.E', 'ENUCoords.N', 'ENUCoords.U')",
                                "unchanged_except('Track.%s', track)" % DICO,
                                "all(implies(k != af_output, hasname(track, k) == old(hasname(track, k))) for k in strs)",
                                "all(col(track, af_output, r) == (0 if %s else 1) for r in range(0, i))" % comp("r", "len(afs_input)"),
                                (ALLCOLS_SAME % "af_output").replace("self", "track"), OTHER_OBS]),
                            # (one feature only in the scalar form: the comparison is spelled out, no quantifier over the features)
                            "1.1": LoopSpec(inv=["comp == %s" % comp("i", "index")] if variant is None else
                                            ["0 <= index and index <= 1", "comp == ((%s) if index == 1 else (mode_comparaison == 1))" % comp("i", "1")])}),
                variant=variant)


DEPENDS = []
FUNCTIONS = [S + "split", S + "split@indices", S + "segmentation", S + "segmentation@scalar"]
ASSUMPTIONS = ["split: source is a feature name or a list of in-range, non-decreasing indices, limit = 0 (the default); limit > 0 is bounded only"]
