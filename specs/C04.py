"""C04 — sequence operations on a track select exactly the designated observations.

Sequence contracts over pts = Track._Track__POINTS (a list of Obs references).  Results that share Obs objects with
the source say so (result.pts[q] == self.pts[...]); the source track is in no frame, so "without modifying the
source track" is the frame obligation of each function (allocation-fresh Track objects only are written)."""
import z3
from pyvc.kinds import *
from pyvc.values import *
from pyvc.symexec import Spec, LoopSpec
from specs import track_model
from specs.track_model import T, DICO, PTS

DEPENDS = []
SAME_TABLE = "same(result.%s, self.%s)" % (DICO, DICO)


def sf_gaps(ex, st, l):
    """Schema (proved once per run by induction, lemmas() below): a strictly increasing list of integers grows
    by at least one per step, so  t[b] - t[a] >= b - a  for a <= b."""
    n, arr = l.terms[0], l.terms[1]
    q, a, b = z3.Int(uid("gq")), z3.Int(uid("ga")), z3.Int(uid("gb"))
    inc = z3.ForAll([q], z3.Implies(z3.And(0 <= q, q < n - 1), z3.Select(arr, q) < z3.Select(arr, q + 1)))
    gap = z3.ForAll([a, b], z3.Implies(z3.And(0 <= a, a <= b, b < n), z3.Select(arr, b) - z3.Select(arr, a) >= b - a))
    return vbool(z3.Implies(inc, gap))


def lemmas(reg):
    t = z3.Const("t!g", z3.ArraySort(z3.IntSort(), z3.IntSort()))
    n, a, b, q = z3.Ints("n!g a!g b!g q!g")
    inc = z3.ForAll([q], z3.Implies(z3.And(0 <= q, q < n - 1), z3.Select(t, q) < z3.Select(t, q + 1)))
    return [("strict-gap:base", [0 <= a, a < n], z3.Select(t, a) - z3.Select(t, a) >= a - a),
            ("strict-gap:step", [0 <= a, a <= b, b + 1 < n, inc, z3.Select(t, b) - z3.Select(t, a) >= b - a],
             z3.Select(t, b + 1) - z3.Select(t, a) >= b + 1 - a)]


POW2 = z3.Function("pow2", z3.IntSort(), z3.IntSort())
ILOG2 = z3.Function("ilog2", z3.IntSort(), z3.IntSort())


def ax_pow2():
    """arithmetic facts about 2**e and its inverse on exact powers (trusted axioms of two total functions)"""
    e = z3.Int("e!p")
    return [POW2(0) == 1,
            z3.ForAll([e], z3.Implies(e >= 1, POW2(e) == 2 * POW2(e - 1)), patterns=[POW2(e)]),
            z3.ForAll([e], z3.Implies(e >= 0, z3.And(POW2(e) >= 1, ILOG2(POW2(e)) == e)), patterns=[POW2(e)])]


def sf_ispow2(ex, st, m):
    m = to_int(m)
    return vbool(z3.And(ILOG2(m) >= 0, m == POW2(ILOG2(m))))


def register(reg):
    track_model.register(reg)
    reg.specfuncs.update(gaps=sf_gaps, ispow2=sf_ispow2)
    reg.axioms.append(("pow2", ax_pow2))
    reg.auto_inline |= {T + m for m in ("addObs", "setUid", "setTid", "_Track__transmitAF", "__init__", "_Track__removeObsById")}

    reg.add(Spec(T + "extract", dict(self="Track", id_ini="int", id_fin="int"), "Track",
                 requires=["0 <= id_ini", "id_fin < npts(self)", "id_ini <= id_fin + 1"],
                 fresh=["Track"],
                 ensures=[("new-track", "isnew(result)"),
                          ("length", "npts(result) == id_fin - id_ini + 1"),
                          ("designated-observations", "all(pts(result)[q] == pts(self)[id_ini + q] for q in range(0, id_fin - id_ini + 1))"),
                          ("feature-table-carried", SAME_TABLE),
                          ("uid", "result.uid == self.uid")],
                 loops={"1": LoopSpec(inv=[
                     "isnew(track)", "unchanged_old('Track.%s')" % PTS,
                     "npts(track) == k - id_ini",
                     "all(pts(track)[q] == pts(self)[id_ini + q] for q in range(0, k - id_ini))"])}))

    # head / tail trimming with an integer argument
    reg.add(Spec(T + "__gt__", dict(self="Track", arg="int"), "Track",
                 requires=["0 <= arg"], fresh=["Track"],
                 ensures=[("new-track", "isnew(result)"),
                          ("length", "npts(result) == (npts(self) - arg if arg <= npts(self) else 0)"),
                          ("designated-observations", "all(pts(result)[q] == pts(self)[arg + q] for q in range(0, npts(self) - arg))"),
                          ("feature-table-carried", SAME_TABLE)]))
    reg.add(Spec(T + "__lt__", dict(self="Track", arg="int"), "Track",
                 requires=["0 <= arg", "arg <= npts(self)"], fresh=["Track"],
                 ensures=[("new-track", "isnew(result)"),
                          ("length", "npts(result) == npts(self) - arg"),
                          ("designated-observations", "all(pts(result)[q] == pts(self)[q] for q in range(0, npts(self) - arg))"),
                          ("feature-table-carried", SAME_TABLE)]))

    # decimation by a step
    reg.add(Spec(T + "__mod__", dict(self="Track", sample="int"), "Track",
                 requires=["sample >= 1"], fresh=["Track"],
                 ensures=[("new-track", "isnew(result)"),
                          ("length", "npts(result) == (0 if npts(self) == 0 else (npts(self) - 1) // sample + 1)"),
                          ("designated-observations", "all(pts(result)[q] == pts(self)[q * sample] for q in range(0, npts(result)))"),
                          ("feature-table-carried", SAME_TABLE)]))

    # concatenation
    reg.add(Spec(T + "__add__", dict(self="Track", track="Track"), "Track",
                 requires=[], fresh=["Track"],
                 locals=dict(AF1="list[str]", AF2="list[str]"),
                 ensures=[("new-track", "isnew(result)"),
                          ("length", "npts(result) == npts(self) + old(npts(track))"),
                          ("first-operand-then-second", "all(pts(result)[q] == pts(self)[q] for q in range(0, npts(self))) and "
                           "all(pts(result)[npts(self) + q] == old(pts(track))[q] for q in range(0, old(npts(track))))"),
                          ("second-operand-by-position", "all(implies(q >= npts(self), pts(result)[q] == old(pts(track))[q - npts(self)]) "
                           "for q in range(0, npts(result)))"),
                          ("feature-table-carried-or-empty", "same(result.%s, self.%s) or nfeat(result) == 0" % (DICO, DICO))],
                 loops={"1": LoopSpec(inv=["isnew(track)", "unchanged_old('Track.%s', 'Track.%s')" % (PTS, DICO)])}))

    # removal by (strictly increasing) index list: deletes from the back
    reg.add(Spec(T + "_Track__removeObsListById", dict(self="Track", tab_idx="list[int]"), "int",
                 requires=["all(0 <= tab_idx[q] and tab_idx[q] < npts(self) for q in range(0, len(tab_idx)))",
                           "all(tab_idx[q] < tab_idx[q + 1] for q in range(0, len(tab_idx) - 1))"],
                 modifies=["Track." + PTS],
                 ensures=[("count", "result == len(tab_idx) and npts(self) == old(npts(self)) - len(tab_idx)"),
                          # block j = the old indices strictly between tab[j-1] and tab[j]; it survives, shifted down by j
                          ("exactly-the-other-observations-in-order",
                           "all(implies((tab_idx[j - 1] if j > 0 else -1) < p and p < (tab_idx[j] if j < len(tab_idx) else old(npts(self))), "
                           "pts(self)[p - j] == old(pts(self)[p])) for j in range(0, len(tab_idx) + 1) for p in range(0, old(npts(self))))"),
                          ("only-this-track", "unchanged_except('Track.%s', self)" % PTS)],
                 loops={"1": LoopSpec(inv=[
                     "unchanged_except('Track.%s', self)" % PTS,
                     "counter == len(tab_idx) - 1 - i",
                     "npts(self) == old(npts(self)) - counter",
                     # everything strictly before the next index to delete is still in place
                     "implies(i >= 0, tab_idx[i] < npts(self))",
                     "all(pts(self)[q] == old(pts(self)[q]) for q in range(0, (tab_idx[i] + 1 if i >= 0 else 0)))",
                     "all(implies((tab_idx[j - 1] if j > 0 else -1) < p and p < (tab_idx[j] if j < len(tab_idx) else old(npts(self))), "
                     "pts(self)[p - (j - (i + 1))] == old(pts(self)[p])) for j in range(i + 1, len(tab_idx) + 1) for p in range(0, old(npts(self))))"],
                     hints=["use gaps(tab_idx)"])}))


    # ---------------------------------------------------------------- removal by an index list in any order (list.sort: trusted model)
    # the argument is sorted IN PLACE (visible to the caller), scanned for duplicates, then handed to __removeObsListById
    reg.add(Spec(T + "removeObsList", dict(self="Track", tab="list[int]"), "int", modifies=["Track." + PTS],
                 requires=["len(tab) >= 1", "all(0 <= tab[q] and tab[q] < npts(self) for q in range(0, len(tab)))",
                           "all(implies(a < b, tab[a] != tab[b]) for a in range(0, len(tab)) for b in range(0, len(tab)))"],
                 hints=[("sorted-strictly", "all(tab[q] < tab[q + 1] for q in range(0, len(tab) - 1))")],
                 at={"tab.sort()": [("sorted-list-has-no-duplicate", "all(tab[q] < tab[q + 1] for q in range(0, len(tab) - 1))"),
                                    ("sorted-list-in-range", "all(0 <= tab[q] and tab[q] < npts(self) for q in range(0, len(tab)))")]},
                 loops={"1": LoopSpec(inv=["True"])},
                 ensures=[("as-many-removed-as-listed", "result == len(tab) and npts(self) == old(npts(self)) - len(tab) and len(tab) == old(len(tab))"),
                          ("only-this-track", "unchanged_except('Track.%s', self)" % PTS)],
                 ensures_local=[("exactly-the-other-observations-in-order (tab = the sorted index list)",
                                 "all(implies((tab[j - 1] if j > 0 else -1) < p and p < (tab[j] if j < len(tab) else old(npts(self))), "
                                 "pts(self)[p - j] == old(pts(self)[p])) for j in range(0, len(tab) + 1) for p in range(0, old(npts(self))))")]),
            variant="ints")

    # ---------------------------------------------------------------- sort by time (numpy.argsort: trusted model)
    n = "npts(self)"
    OLD = "old(pts(self))"
    reg.add(Spec(T + "getTimestamps", dict(self="Track"), "list[ObsTime]", locals=dict(T="list[ObsTime]"),
                 loops={"1": LoopSpec(inv=["len(T) == i", "all(T[r] is obs(self, r).timestamp for r in range(0, i))"])},
                 ensures=[("one-per-observation", "len(result) == %s and all(result[r] is obs(self, r).timestamp for r in range(0, %s))" % (n, n))]))
    reg.add(Spec(T + "sort", dict(self="Track"), "none", modifies=["Track." + PTS], locals=dict(new_list="list[Obs]"),
                 requires=["all(wf(tstamp(self, r)) for r in range(0, %s))" % n],
                 loops={"1": LoopSpec(inv=["len(new_list) == i", "unchanged('Track.%s')" % PTS,
                                           "all(new_list[r] is %s[sort_index[r]] for r in range(0, i))" % OLD])},
                 hints=[("the-observation-at-each-rank", "all(pts(self)[r] is %s[sort_index[r]] for r in range(0, %s))" % (OLD, n)),
                        ("where-each-observation-went", "all(pts(self)[argsort_inverse[j]] is %s[j] and 0 <= argsort_inverse[j] and argsort_inverse[j] < %s "
                         "for j in range(0, %s))" % (OLD, n, n))],
                 ensures=[("same-number-of-observations", "%s == old(%s)" % (n, n)),
                          ("non-decreasing-time", "all(implies(a < b, abstime(tstamp(self, a)) <= abstime(tstamp(self, b))) for a in range(0, %s) for b in range(0, %s))" % (n, n)),
                          ("only-the-same-observation-objects", "all(any(pts(self)[r] is %s[j] for j in range(0, %s)) for r in range(0, %s))" % (OLD, n, n)),
                          ("every-observation-kept", "all(any(pts(self)[r] is %s[j] for r in range(0, %s)) for j in range(0, %s))" % (OLD, n, n)),
                          ("only-this-track", "unchanged_except('Track.%s', self)" % PTS)]))

    # ---------------------------------------------------------------- insertion into a time-sorted track
    AT = "abstime(tstamp(self, %s))"
    SORTED = "all(implies(a < b, %s <= %s) for a in range(0, %s) for b in range(0, %s))" % (AT % "a", AT % "b", n, n)
    TWF = "all(wf(tstamp(self, r)) for r in range(0, %s))" % n
    M = "(delta if delta >= 0 else -delta)"
    reg.add(Spec(T + "_Track__getInsertionIndex", dict(self="Track", timestamp="ObsTime"), "int",
                 requires=[TWF, "wf(timestamp)", SORTED, "%s < 140737488355328" % n],      # fewer than 2**47 observations
                 # the first step of the dichotomy is computed with float logarithms: 2 ** (floor(log2 N) - 1).  Assumed (and
                 # checked exhaustively by the bounded part): it is a power of two, at least 1, at most N / 2.
                 assume_stmt={"delta = 2 ** (int(math.log(N) / math.log(2)) - 1)": ("delta", "int", "ispow2(delta) and delta >= 1 and 2 * delta <= N")},
                 at={"id = 0": ["ghost P = 2 * delta"]},
                 loops={"1": LoopSpec(inv=["N == %s and N >= 2 and P <= N" % n, "0 <= id", "delta == 0 or ispow2(%s)" % M,
                                           "implies(id == 0, delta >= 1 and 2 * delta == P)",
                                           "implies(id >= 1 and %s >= 2, 2 * %s <= id and id + 2 * %s <= P)" % (M, M, M),
                                           "implies(id >= 1 and delta == -1, id + 2 <= P)",
                                           "implies(id >= 1 and delta == 1, id + 2 <= P)",
                                           "implies(id >= 1 and delta == 0, id + 1 <= P)"]),
                        "2": LoopSpec(inv=["0 <= id and id < N"], decreases="id"),
                        "3": LoopSpec(inv=["0 <= id and id < N", "all(%s <= abstime(timestamp) for r in range(0, id))" % (AT % "r")],
                                      decreases="N - id")},
                 hints=[],
                 ensures=[("an-insertion-rank", "0 <= result and result <= %s" % n),
                          ("everything-before-is-not-later", "all(%s <= abstime(timestamp) for r in range(0, result))" % (AT % "r")),
                          ("everything-from-there-on-is-not-earlier", "all(%s >= abstime(timestamp) for r in range(result, %s))" % (AT % "r", n))]))
    reg.add(Spec(T + "insertObs", dict(self="Track", obs="Obs", i="int"), "none", modifies=["Track." + PTS],
                 requires=["0 <= i and i <= %s" % n],
                 ensures=[("one-more", "%s == old(%s) + 1 and pts(self)[i] is obs" % (n, n)),
                          ("before", "all(pts(self)[r] is %s[r] for r in range(0, i))" % OLD),
                          ("after", "all(pts(self)[r + 1] is %s[r] for r in range(i, old(%s)))" % (OLD, n)),
                          ("only-this-track", "unchanged_except('Track.%s', self)" % PTS)]), variant="index")
    reg.add(Spec(T + "insertObsInChronoOrder", dict(self="Track", obs="Obs"), "none", modifies=["Track." + PTS],
                 requires=[TWF, "wf(obs.timestamp)", SORTED, "%s < 140737488355328" % n],
                 hints=[("rank", "0 <= ret1_getInsertionIndex and ret1_getInsertionIndex <= old(%s) and %s == old(%s) + 1" % (n, n, n)),
                        ("times-before", "all(implies(r < ret1_getInsertionIndex, %s == old(%s)) for r in range(0, %s))" % (AT % "r", AT % "r", n)),
                        ("time-at", "%s == abstime(obs.timestamp)" % (AT % "ret1_getInsertionIndex")),
                        ("times-after", "all(implies(r > ret1_getInsertionIndex, %s == old(%s)) for r in range(0, %s))" % (AT % "r", AT % "(r - 1)", n))],
                 ensures=[("one-more", "%s == old(%s) + 1" % (n, n)),
                          ("still-sorted", SORTED),
                          ("the-new-observation-is-in", "any(pts(self)[r] is obs for r in range(0, %s))" % n),
                          ("inserted-at-one-rank-the-others-in-their-order", "any(pts(self)[k] is obs and all(pts(self)[r] is %s[r] for r in range(0, k)) and "
                           "all(pts(self)[r + 1] is %s[r] for r in range(k, old(%s))) for k in range(0, %s))" % (OLD, OLD, n, n)),
                          ("only-this-track", "unchanged_except('Track.%s', self)" % PTS)]))

    reg.add(Spec(T + "insertObs", dict(self="Track", obs="Obs"), "none", modifies=["Track." + PTS],
                 requires=[TWF, "wf(obs.timestamp)", SORTED, "%s < 140737488355328" % n],
                 ensures=[("one-more", "%s == old(%s) + 1" % (n, n)),
                          ("still-sorted", SORTED),
                          ("the-new-observation-is-in", "any(pts(self)[r] is obs for r in range(0, %s))" % n),
                          ("inserted-at-one-rank-the-others-in-their-order", "any(pts(self)[k] is obs and all(pts(self)[r] is %s[r] for r in range(0, k)) and "
                           "all(pts(self)[r + 1] is %s[r] for r in range(k, old(%s))) for k in range(0, %s))" % (OLD, OLD, n, n)),
                          ("only-this-track", "unchanged_except('Track.%s', self)" % PTS)]), variant="chrono")


FUNCTIONS = [T + n for n in ("_Track__getInsertionIndex", "insertObs@index", "insertObsInChronoOrder", "insertObs@chrono", "extract", "__gt__", "__lt__", "__mod__", "__add__", "_Track__removeObsListById", "removeObsList@ints", "getTimestamps", "sort")]
ASSUMPTIONS = ["numpy.argsort is a trusted model (Track.sort): it returns a permutation of the indices along which the keys do not decrease; "
               "timestamps are keyed by ObsTime.__lt__, i.e. by abstime (C03)",
               "__getInsertionIndex: the statement `delta = 2 ** (int(math.log(N) / math.log(2)) - 1)` is not executed symbolically; ASSUMED: it yields a "
               "power of two in [1, N / 2] (checked exhaustively for N < 2**17 (quick) / 2**22 (thorough) and around every power of two below 2**47 by the "
               "bounded part, on the expression read from the source); tracks have fewer than 2**47 observations; termination of the dichotomy loop "
               "is not proved (the two linear fix-up loops have variants)",
               "2**e / floor(log2) enter only through three trusted arithmetic axioms (pow2(0) = 1, pow2(e) = 2 pow2(e-1), ilog2(pow2(e)) = e)",
               "lists have value semantics: Track(self.__POINTS[a:b]) builds a new list in Python as in the encoding"]
