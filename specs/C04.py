"""C04 — sequence operations on a track select exactly the designated observations.

Sequence contracts over pts = Track._Track__POINTS (a list of Obs references).  Results that share Obs objects with
the source say so (result.pts[q] == self.pts[...]); the source track is in no frame, so "without modifying the
source track" is the frame obligation of each function (allocation-fresh Track objects only are written)."""
import z3
from pyvc.kinds import *
from pyvc.values import *
from pyvc.symexec import Spec, LoopSpec
from specs import track_model
from specs.track_model import T, DICO, PTS

DEPENDS = []
SAME_TABLE = "same(result.%s, self.%s)" % (DICO, DICO)


def sf_gaps(ex, st, l):
    """Schema (proved once per run by induction, lemmas() below): a strictly increasing list of integers grows
    by at least one per step, so  t[b] - t[a] >= b - a  for a <= b."""
    n, arr = l.terms[0], l.terms[1]
    q, a, b = z3.Int(uid("gq")), z3.Int(uid("ga")), z3.Int(uid("gb"))
    inc = z3.ForAll([q], z3.Implies(z3.And(0 <= q, q < n - 1), z3.Select(arr, q) < z3.Select(arr, q + 1)))
    gap = z3.ForAll([a, b], z3.Implies(z3.And(0 <= a, a <= b, b < n), z3.Select(arr, b) - z3.Select(arr, a) >= b - a))
    return vbool(z3.Implies(inc, gap))


def lemmas(reg):
    t = z3.Const("t!g", z3.ArraySort(z3.IntSort(), z3.IntSort()))
    n, a, b, q = z3.Ints("n!g a!g b!g q!g")
    inc = z3.ForAll([q], z3.Implies(z3.And(0 <= q, q < n - 1), z3.Select(t, q) < z3.Select(t, q + 1)))
    return [("strict-gap:base", [0 <= a, a < n], z3.Select(t, a) - z3.Select(t, a) >= a - a),
            ("strict-gap:step", [0 <= a, a <= b, b + 1 < n, inc, z3.Select(t, b) - z3.Select(t, a) >= b - a],
             z3.Select(t, b + 1) - z3.Select(t, a) >= b + 1 - a)]


def register(reg):
    track_model.register(reg)
    reg.specfuncs.update(gaps=sf_gaps)
    reg.auto_inline |= {T + m for m in ("addObs", "setUid", "setTid", "_Track__transmitAF", "__init__", "_Track__removeObsById")}

    reg.add(Spec(T + "extract", dict(self="Track", id_ini="int", id_fin="int"), "Track",
                 requires=["0 <= id_ini", "id_fin < npts(self)", "id_ini <= id_fin + 1"],
                 fresh=["Track"],
                 ensures=[("new-track", "isnew(result)"),
                          ("length", "npts(result) == id_fin - id_ini + 1"),
                          ("designated-observations", "all(pts(result)[q] == pts(self)[id_ini + q] for q in range(0, id_fin - id_ini + 1))"),
                          ("feature-table-carried", SAME_TABLE),
                          ("uid", "result.uid == self.uid")],
                 loops={"1": LoopSpec(inv=[
                     "isnew(track)", "unchanged_old('Track.%s')" % PTS,
                     "npts(track) == k - id_ini",
                     "all(pts(track)[q] == pts(self)[id_ini + q] for q in range(0, k - id_ini))"])}))

    # head / tail trimming with an integer argument
    reg.add(Spec(T + "__gt__", dict(self="Track", arg="int"), "Track",
                 requires=["0 <= arg"], fresh=["Track"],
                 ensures=[("new-track", "isnew(result)"),
                          ("length", "npts(result) == (npts(self) - arg if arg <= npts(self) else 0)"),
                          ("designated-observations", "all(pts(result)[q] == pts(self)[arg + q] for q in range(0, npts(self) - arg))"),
                          ("feature-table-carried", SAME_TABLE)]))
    reg.add(Spec(T + "__lt__", dict(self="Track", arg="int"), "Track",
                 requires=["0 <= arg", "arg <= npts(self)"], fresh=["Track"],
                 ensures=[("new-track", "isnew(result)"),
                          ("length", "npts(result) == npts(self) - arg"),
                          ("designated-observations", "all(pts(result)[q] == pts(self)[q] for q in range(0, npts(self) - arg))"),
                          ("feature-table-carried", SAME_TABLE)]))

    # decimation by a step
    reg.add(Spec(T + "__mod__", dict(self="Track", sample="int"), "Track",
                 requires=["sample >= 1"], fresh=["Track"],
                 ensures=[("new-track", "isnew(result)"),
                          ("length", "npts(result) == (0 if npts(self) == 0 else (npts(self) - 1) // sample + 1)"),
                          ("designated-observations", "all(pts(result)[q] == pts(self)[q * sample] for q in range(0, npts(result)))"),
                          ("feature-table-carried", SAME_TABLE)]))

    # concatenation
    reg.add(Spec(T + "__add__", dict(self="Track", track="Track"), "Track",
                 requires=[], fresh=["Track"],
                 locals=dict(AF1="list[str]", AF2="list[str]"),
                 ensures=[("new-track", "isnew(result)"),
                          ("length", "npts(result) == npts(self) + old(npts(track))"),
                          ("first-operand-then-second", "all(pts(result)[q] == pts(self)[q] for q in range(0, npts(self))) and "
                           "all(pts(result)[npts(self) + q] == old(pts(track))[q] for q in range(0, old(npts(track))))"),
                          ("second-operand-by-position", "all(implies(q >= npts(self), pts(result)[q] == old(pts(track))[q - npts(self)]) "
                           "for q in range(0, npts(result)))"),
                          ("feature-table-carried-or-empty", "same(result.%s, self.%s) or nfeat(result) == 0" % (DICO, DICO))],
                 loops={"1": LoopSpec(inv=["isnew(track)", "unchanged_old('Track.%s', 'Track.%s')" % (PTS, DICO)])}))

    # removal by (strictly increasing) index list: deletes from the back
    reg.add(Spec(T + "_Track__removeObsListById", dict(self="Track", tab_idx="list[int]"), "int",
                 requires=["all(0 <= tab_idx[q] and tab_idx[q] < npts(self) for q in range(0, len(tab_idx)))",
                           "all(tab_idx[q] < tab_idx[q + 1] for q in range(0, len(tab_idx) - 1))"],
                 modifies=["Track." + PTS],
                 ensures=[("count", "result == len(tab_idx) and npts(self) == old(npts(self)) - len(tab_idx)"),
                          # block j = the old indices strictly between tab[j-1] and tab[j]; it survives, shifted down by j
                          ("exactly-the-other-observations-in-order",
                           "all(implies((tab_idx[j - 1] if j > 0 else -1) < p and p < (tab_idx[j] if j < len(tab_idx) else old(npts(self))), "
                           "pts(self)[p - j] == old(pts(self)[p])) for j in range(0, len(tab_idx) + 1) for p in range(0, old(npts(self))))"),
                          ("only-this-track", "unchanged_except('Track.%s', self)" % PTS)],
                 loops={"1": LoopSpec(inv=[
                     "unchanged_except('Track.%s', self)" % PTS,
                     "counter == len(tab_idx) - 1 - i",
                     "npts(self) == old(npts(self)) - counter",
                     # everything strictly before the next index to delete is still in place
                     "implies(i >= 0, tab_idx[i] < npts(self))",
                     "all(pts(self)[q] == old(pts(self)[q]) for q in range(0, (tab_idx[i] + 1 if i >= 0 else 0)))",
                     "all(implies((tab_idx[j - 1] if j > 0 else -1) < p and p < (tab_idx[j] if j < len(tab_idx) else old(npts(self))), "
                     "pts(self)[p - (j - (i + 1))] == old(pts(self)[p])) for j in range(i + 1, len(tab_idx) + 1) for p in range(0, old(npts(self))))"],
                     hints=["use gaps(tab_idx)"])}))


FUNCTIONS = [T + n for n in ("extract", "__gt__", "__lt__", "__mod__", "__add__", "_Track__removeObsListById")]
ASSUMPTIONS = ["np.argsort (Track.sort) is outside the proved part: bounded only",
               "lists have value semantics: Track(self.__POINTS[a:b]) builds a new list in Python as in the encoding"]
