"""C18 — dynamic time warping: the score is the optimal coupling cost and the matching realises it.

The function _dtw as a whole is outside pyvc's subset (deepcopy of the track, features holding lists, dynamic
attributes).  Its dynamic-programming core -- the statements from `T = np.zeros((N2, N1))` up to the end of the
backward `while` loop -- is verified as a REGION contract: the slice is cut out of the real function's AST on every
run; its inputs are the distance matrix D, the sizes N1, N2 and the weight function, which is known only as an
abstract function monotone in its first argument (the lambdas built by _p2weight are proved monotone separately).

Certificate: for every cell but (0,0), M[a,b] is an in-grid predecessor (diagonal, up, left) with
T[a,b] = W(T[pred], D[a,b]) (TIGHT) and T[a,b] <= W(T[q], D[a,b]) for every in-grid predecessor q (LOWER).
Lemma coupling-lower-bound (induction over an arbitrary coupling): every monotone coupling from (0,0) accumulates
at least T at its end cell.  The backward walk S is a coupling whose accumulated weight is T at every cell."""
import z3
from pyvc.kinds import *
from pyvc.values import *
from pyvc.symexec import Spec, LoopSpec

Q = "tracklib.algo.comparison:"
DEPENDS = []
R = z3.RealSort()
WF = z3.Function("dtw_weight", R, R, R)


def ax_weight():
    a, b, c = z3.Reals("a!w b!w c!w")
    return [z3.ForAll([a, b, c], z3.Implies(a <= b, WF(a, c) <= WF(b, c)), patterns=[z3.MultiPattern(WF(a, c), WF(b, c))])]


def sf_wgt(ex, st, a, b):
    na, x = to_float(a)
    nb, y = to_float(b)
    return vfloat(WF(x, y), or_(na, nb))


CELLS = "for a in range(0, N2) for b in range(0, N1)"
SHAPES = "T.shape[0] == N2 and T.shape[1] == N1 and M.shape[0] == N2 and M.shape[1] == N1"


def cert(cond):
    diag = "M[a, b] == (a - 1) + (b - 1) * 1j and a >= 1 and b >= 1 and T[a, b] == wgt(T[a - 1, b - 1], D[a, b])"
    up = "M[a, b] == (a - 1) + b * 1j and a >= 1 and T[a, b] == wgt(T[a - 1, b], D[a, b])"
    left = "M[a, b] == a + (b - 1) * 1j and b >= 1 and T[a, b] == wgt(T[a, b - 1], D[a, b])"
    lower = ("implies(a >= 1 and b >= 1, T[a, b] <= wgt(T[a - 1, b - 1], D[a, b])) and "
             "implies(a >= 1, T[a, b] <= wgt(T[a - 1, b], D[a, b])) and implies(b >= 1, T[a, b] <= wgt(T[a, b - 1], D[a, b]))")
    return ("all(implies((%s) and (a > 0 or b > 0), not isnan(T[a, b]) and ((%s) or (%s) or (%s)) and %s) %s)"
            % (cond, diag, up, left, lower, CELLS))


ORIGIN = "not isnan(T[0, 0]) and T[0, 0] == wgt(0, D[0, 0])"
PRED = ("(S[t + 1] == (S[t][0] - 1, S[t][1] - 1) or S[t + 1] == (S[t][0] - 1, S[t][1]) or S[t + 1] == (S[t][0], S[t][1] - 1))")
INGRID = "0 <= S[t][0] and S[t][0] < N2 and 0 <= S[t][1] and S[t][1] < N1"
WALK = [SHAPES, "len(S) >= 1 and S[0] == (N2 - 1, N1 - 1)",
        "all(%s for t in range(0, len(S)))" % INGRID,
        "all(%s and T[S[t][0], S[t][1]] == wgt(T[S[t + 1][0], S[t + 1][1]], D[S[t][0], S[t][1]]) for t in range(0, len(S) - 1))" % PRED]


def register(reg):
    reg.specfuncs.update(wgt=sf_wgt)
    reg.axioms.append(("dtw_weight", ax_weight))
    reg.add(Spec(Q + "_dtw", dict(D="arr2[float]", N1="int", N2="int"), "none",
                 region=("T = np.zeros((N2, N1))", "if plot:"),
                 abstract=dict(weight="dtw_weight"), let=dict(step_to_run="range(1, N1)"),
                 locals=dict(S="list[tuple[int,int]]"),
                 requires=["N1 >= 1 and N2 >= 1", "D.shape[0] == N2 and D.shape[1] == N1",
                           "all(not isnan(D[a, b]) %s)" % CELLS],
                 loops={"2": LoopSpec(inv=[SHAPES, ORIGIN, cert("b == 0 and a < i")]),
                        "3": LoopSpec(inv=[SHAPES, ORIGIN, cert("b == 0 or (a == 0 and b < j)")]),
                        "4": LoopSpec(inv=[SHAPES, ORIGIN, cert("b == 0 or a == 0 or b < j")]),
                        "4.1": LoopSpec(inv=[SHAPES, ORIGIN, cert("b == 0 or a == 0 or b < j or (b == j and a < i)")]),
                        "5": LoopSpec(inv=WALK + [SHAPES, ORIGIN, cert("True")], decreases="S[len(S) - 1][0] + S[len(S) - 1][1]")},
                 ensures=[("origin-cell", ORIGIN),
                          ("certificate:tight-predecessor-and-lower-bound", cert("True")),
                          ("walk-starts-at-the-last-pair", "len(S) >= 1 and S[0] == (N2 - 1, N1 - 1)"),
                          ("walk-ends-at-the-first-pair", "S[len(S) - 1] == (0, 0)"),
                          ("walk-stays-in-the-grid", "all(%s for t in range(0, len(S)))" % INGRID),
                          ("walk-steps-are-coupling-steps-and-accumulate-T", WALK[3])]))


    # ---------------------------------------------------------------- the point distance is symmetric (proof harness)
    # _distance(p, q, dim) for dim = 1, 2, 3 with the ENU distance methods inlined: the same value in both orders, which makes the
    # distance matrix of the swapped call the transpose (premise of lemma transposed-tables-agree).
    for f in ("E", "N", "U"):
        reg.field("ENUCoords", f, "float")
    EC = "tracklib.core.obs_coords:ENUCoords."
    reg.auto_inline |= {EC + m for m in ("__sub__", "norm2D", "norm", "distance2DTo", "distanceTo", "__init__")} | {Q + "_distance"}
    reg.add_harness("distance_both_ways", "def distance_both_ways(p1, p2, dim):\n    a = _distance(p1, p2, dim)\n    b = _distance(p2, p1, dim)\n    return (a, b)\n")
    reg.add(Spec("harness:distance_both_ways", dict(p1="ENUCoords", p2="ENUCoords", dim="int"), "tuple[opt[float],opt[float]]", fresh=["ENUCoords"],
                 requires=["dim == 1 or dim == 2 or dim == 3",
                           "not isnan(p1.E) and not isnan(p1.N) and not isnan(p1.U) and not isnan(p2.E) and not isnan(p2.N) and not isnan(p2.U)"],
                 ensures=[("same-distance-in-both-orders", "result[0] is not None and result[1] is not None and not isnan(nonnull(result[0])) and "
                           "nonnull(result[0]) == nonnull(result[1])")]))


def lemmas(reg):
    """coupling-lower-bound: any coupling (ci, cj) from (0,0) with steps in {(1,0),(0,1),(1,1)} accumulates
    acc(k) >= T[c(k)].  acc is the accumulated weight along the coupling: acc(0) = W(0, D[c0]), acc(k+1) = W(acc(k), D[c(k+1)])."""
    A2 = z3.ArraySort(z3.IntSort(), z3.IntSort(), R)
    T, D = z3.Const("T!c", A2), z3.Const("D!c", A2)
    ci, cj = z3.Function("ci!c", z3.IntSort(), z3.IntSort()), z3.Function("cj!c", z3.IntSort(), z3.IntSort())
    acc = z3.Function("acc!c", z3.IntSort(), R)
    N1, N2, k, n = z3.Ints("N1!c N2!c k!c n!c")
    a, b = z3.Ints("a!c b!c")
    lower = z3.ForAll([a, b], z3.Implies(z3.And(0 <= a, a < N2, 0 <= b, b < N1), z3.And(
        z3.Implies(z3.And(a >= 1, b >= 1), z3.Select(T, a, b) <= WF(z3.Select(T, a - 1, b - 1), z3.Select(D, a, b))),
        z3.Implies(a >= 1, z3.Select(T, a, b) <= WF(z3.Select(T, a - 1, b), z3.Select(D, a, b))),
        z3.Implies(b >= 1, z3.Select(T, a, b) <= WF(z3.Select(T, a, b - 1), z3.Select(D, a, b))))))
    origin = z3.Select(T, 0, 0) == WF(0, z3.Select(D, 0, 0))
    step = lambda t: z3.And(0 <= ci(t + 1), ci(t + 1) < N2, 0 <= cj(t + 1), cj(t + 1) < N1,
                            z3.Or(z3.And(ci(t + 1) == ci(t) + 1, cj(t + 1) == cj(t) + 1),
                                  z3.And(ci(t + 1) == ci(t) + 1, cj(t + 1) == cj(t)),
                                  z3.And(ci(t + 1) == ci(t), cj(t + 1) == cj(t) + 1)))
    accdef = [acc(0) == WF(0, z3.Select(D, ci(0), cj(0))), acc(k + 1) == WF(acc(k), z3.Select(D, ci(k + 1), cj(k + 1)))]
    ax = ax_weight()
    mono = []
    # the weight functions _p2weight can return: each lambda of its source is proved monotone in its first argument
    import ast as _ast
    from pyvc.symexec import Executor, Ctx, State
    fi = reg.index.funcs.get(Q + "_p2weight")
    if fi is not None:
        lams = [x for x in _ast.walk(fi.node) if isinstance(x, _ast.Lambda) and len(x.args.args) == 2]
        for n_, lam in enumerate(sorted(lams, key=lambda x: x.lineno)):
            ex = Executor(Ctx(reg, "C18/_p2weight"), fi, None)
            a1, a2, bb, pp = z3.Reals("A1!m A2!m B!m p!m")
            vals = []
            for av in (a1, a2):
                st = State({lam.args.args[0].arg: vfloat(av), lam.args.args[1].arg: vfloat(bb), "p": vfloat(pp)}, {}, TRUE)
                vals.append(to_float(ex.eval(lam.body, st))[1])
            mono.append(("weight-monotone:_p2weight-lambda-line+%d" % (lam.lineno - fi.node.lineno), [a1 <= a2], vals[0] <= vals[1]))
    # transposition: two tables certified for D and for its transpose agree cell by cell (induction on a + b), so the score
    # does not depend on the order of the two tracks - PROVIDED the distance matrix of the swapped call is the transpose
    # (the matrix is formed outside the region: symmetry of _distance is covered by the bounded part)
    T2, D2 = z3.Const("T2!c", A2), z3.Const("D2!c", A2)

    def certcell(Tx, Dx, x, y):
        v = z3.Select(Tx, x, y)
        w = lambda px, py: WF(z3.Select(Tx, px, py), z3.Select(Dx, x, y))
        tight = z3.Or(z3.And(x >= 1, y >= 1, v == w(x - 1, y - 1)), z3.And(x >= 1, v == w(x - 1, y)), z3.And(y >= 1, v == w(x, y - 1)))
        lower_ = z3.And(z3.Implies(z3.And(x >= 1, y >= 1), v <= w(x - 1, y - 1)), z3.Implies(x >= 1, v <= w(x - 1, y)),
                        z3.Implies(y >= 1, v <= w(x, y - 1)))
        return z3.And(tight, lower_)
    ih = [z3.Implies(z3.And(a >= 1, b >= 1), z3.Select(T, a - 1, b - 1) == z3.Select(T2, b - 1, a - 1)),
          z3.Implies(a >= 1, z3.Select(T, a - 1, b) == z3.Select(T2, b, a - 1)),
          z3.Implies(b >= 1, z3.Select(T, a, b - 1) == z3.Select(T2, b - 1, a))]
    transp = [("transposed-tables-agree:base", [origin, z3.Select(T2, 0, 0) == WF(0, z3.Select(D2, 0, 0)), z3.Select(D2, 0, 0) == z3.Select(D, 0, 0)],
               z3.Select(T, 0, 0) == z3.Select(T2, 0, 0)),
              ("transposed-tables-agree:step", [0 <= a, a < N2, 0 <= b, b < N1, z3.Or(a > 0, b > 0), certcell(T, D, a, b), certcell(T2, D2, b, a),
                                                z3.Select(D2, b, a) == z3.Select(D, a, b)] + ih,
               z3.Select(T, a, b) == z3.Select(T2, b, a))]
    return mono + transp + [("coupling-lower-bound:base", ax + [origin, ci(0) == 0, cj(0) == 0] + accdef, acc(0) >= z3.Select(T, ci(0), cj(0))),
            ("coupling-lower-bound:step", ax + [lower, k >= 0, step(k), 0 <= ci(k), ci(k) < N2, 0 <= cj(k), cj(k) < N1] + accdef +
             [acc(k) >= z3.Select(T, ci(k), cj(k))], acc(k + 1) >= z3.Select(T, ci(k + 1), cj(k + 1)))]


FUNCTIONS = [Q + "_dtw", "harness:distance_both_ways"]
ASSUMPTIONS = ["_dtw: only the dynamic-programming region (from `T = np.zeros((N2, N1))` to the end of the backward while loop) is "
               "under contract; forming D, copying the track and _fillAF_dtw are bounded only",
               "the weight function is abstract: monotone in its first argument (true of A + B**p and max(A, B))",
               "symmetry under swapping the tracks: lemma transposed-tables-agree (two certified tables for D and its transpose agree cell by cell, "
               "hence the same score) and the harness distance_both_ways (_distance(p, q, dim) == _distance(q, p, dim) for dim = 1, 2, 3, the ENU "
               "distance methods inlined) are proved; the double loop that fills D with these distances is bounded only; a user-supplied distance "
               "function (dim callable) is outside",
               "the harness distance_both_ways is a 3-line driver in the spec file that only calls the real _distance twice (not repository code)",
               "_fdtw (best-first search) is bounded only"]
