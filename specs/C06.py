"""C06 — network shortest distances are the true minimum over permitted walks.

Network.run_routing_forward: the Dijkstra loop (from `while len(fil) != 0:` to the end of the function) is verified as
a REGION contract cut from the real function on every run, against an abstract priority queue (priority_dict is
trusted: a map key -> priority whose pop_smallest removes and returns a key of least priority).

Certificate maintained by the loop, for the graph given by NEXT_EDGES (arc u -e-> v iff e's id is listed for u and v
is e's other end):
  LABELS  labels are -1 (not reached) or >= 0; the source's label is 0
  RELAXED for every settled u and every arc u -e-> v:  v is reached and label(v) <= label(u) + weight(e)
  QUEUE   the queue holds exactly the reached, unsettled nodes, each with its label as priority
  ORDER   every settled label is <= every queued priority
  TREE    every reached node other than the source has a settled antecedent joined to it by the recorded edge, an
          arc in the direction of travel, with label = label(antecedent) + weight
Lemma walk-lower-bound (induction over an arbitrary permitted walk from the source): RELAXED + LABELS imply that the
label of a settled node is at most the weight of every walk reaching it.  TREE gives a walk of exactly that weight."""
import z3
from pyvc.kinds import *
from pyvc.values import *
from pyvc.symexec import Spec, LoopSpec
from pyvc import dicts
from specs import track_model

NW = "tracklib.core.network:Network."
PD = "tracklib.core.utils:priority_dict."
DEPENDS = []


EXPORT = {}


def _q(ex, st, f):
    return ex.read_field(st, f, "q")


def register(reg):
    track_model.register_model(reg)
    reg.field("Network", "NODES", "dict[any,Node]")
    reg.field("Network", "EDGES", "dict[any,Edge]")
    reg.field("Network", "NEXT_EDGES", "dict[any,list[any]]")
    reg.field("Network", "routing_mode", "int")
    reg.field("Network", "astar_wgt", "float")
    reg.field("Node", "id", "any")
    reg.field("Node", "coord", "ENUCoords")
    reg.field("Node", "poids", "float")
    reg.field("Node", "visite", "bool")
    reg.field("Node", "antecedent", "opt[Node]")
    reg.field("Node", "antecedent_edge", "any")
    reg.field("Edge", "id", "any")
    reg.field("Edge", "source", "Node")
    reg.field("Edge", "target", "Node")
    reg.field("Edge", "weight", "float")
    reg.field("Edge", "orientation", "int")
    reg.field("Edge", "geom", "Track")
    reg.field("priority_dict", "q", "dict[Node,float]")
    reg.auto_inline |= {"tracklib.core.network:Node.__eq__", NW + "getNextEdges"}
    reg.specfuncs.update(
        inq=lambda ex, st, f, n: vbool(dicts.contains(_q(ex, st, f), n)),
        prio=lambda ex, st, f, n: dicts.get(_q(ex, st, f), n),
        qsize=lambda ex, st, f: vint(dicts.D(_q(ex, st, f)).size))
    reg.add_stub("priority_dict", "__len__", ["self"])
    # trusted abstract priority queue
    reg.add(Spec(PD + "__len__", dict(self="obj[priority_dict]"), "int", trusted=True,
                 ensures=["result == qsize(self)", "result >= 0", "(result == 0) == all(not inq(self, n) for n in refs(Node))"]))
    reg.add(Spec(PD + "pop_smallest", dict(self="obj[priority_dict]"), "Node", trusted=True,
                 requires=["qsize(self) > 0"], modifies=["priority_dict.q"],
                 ensures=["old(inq(self, result))", "all(implies(old(inq(self, n)), old(prio(self, result)) <= old(prio(self, n))) for n in refs(Node))",
                          "not inq(self, result)", "all(implies(n is not result, inq(self, n) == old(inq(self, n)) and same(prio(self, n), old(prio(self, n)))) for n in refs(Node))",
                          "qsize(self) == old(qsize(self)) - 1", "unchanged_except('priority_dict.q', self)"]))
    reg.add(Spec(PD + "__setitem__", dict(self="obj[priority_dict]", key="Node", val="float"), "none", trusted=True,
                 modifies=["priority_dict.q"],
                 ensures=["inq(self, key) and same(prio(self, key), val)",
                          "all(implies(n is not key, inq(self, n) == old(inq(self, n)) and same(prio(self, n), old(prio(self, n)))) for n in refs(Node))",
                          "unchanged_except('priority_dict.q', self)"]))

    reg.add(Spec("tracklib.core.network:Node.distanceTo", dict(self="Node", node="Node"), "float", trusted=True,
                 ensures=["not isnan(result) and result >= 0"]))      # only used by the A* branch, dead in Dijkstra mode

    # ---- the graph as the router sees it
    # node u of the network: registered under its own id
    ISNODE = "(%s.id in self.NODES and self.NODES[%s.id] is %s)"
    isn = lambda n: ISNODE % (n, n, n)
    # slot t of u's outgoing list: edge e = EDGES[NEXT_EDGES[u.id][t]], far end v
    EDGE_OF = "self.EDGES[self.NEXT_EDGES[%s.id][%s]]"
    FAR = "(%s.source if %s.target.id == %s.id else %s.target)"
    WFNET = [
        # ids identify nodes
        "all(implies(%s and %s and a.id == b.id, a is b) for a in refs(Node) for b in refs(Node))" % (isn("a"), isn("b")),
        # every listed edge exists, joins network nodes, has a non-negative weight
        "all(implies(%s, u.id in self.NEXT_EDGES) for u in refs(Node))" % isn("u"),
        "all(implies(%s and 0 <= t and t < len(self.NEXT_EDGES[u.id]), self.NEXT_EDGES[u.id][t] in self.EDGES and "
        "not isnan(%s.weight) and %s.weight >= 0 and %s and %s and %s.id == self.NEXT_EDGES[u.id][t]) for u in refs(Node) for t in ints)"
        % (isn("u"), EDGE_OF % ("u", "t"), EDGE_OF % ("u", "t"), isn("(%s).source" % (EDGE_OF % ("u", "t"))), isn("(%s).target" % (EDGE_OF % ("u", "t"))),
           EDGE_OF % ("u", "t"))]
    far = lambda u, t: FAR % (EDGE_OF % (u, t), EDGE_OF % (u, t), u, EDGE_OF % (u, t))
    LABELS = ["all(implies(%s, not isnan(n.poids) and (n.poids == -1 or n.poids >= 0)) for n in refs(Node))" % isn("n"),
              "%s and SRC.poids == 0" % isn("SRC")]
    RELAXED = ("all(implies(%s and u.visite and 0 <= t and t < len(self.NEXT_EDGES[u.id]), "
               "%s.poids != -1 and %s.poids <= u.poids + %s.weight) for u in refs(Node) for t in ints)"
               % (isn("u"), far("u", "t"), far("u", "t"), EDGE_OF % ("u", "t")))
    QUEUE = ("all(implies(%s, inq(fil, n) == (n.poids != -1 and not n.visite) and implies(inq(fil, n), prio(fil, n) == n.poids)) for n in refs(Node))" % isn("n"))
    QNODES = "all(implies(inq(fil, n), %s) for n in refs(Node))" % isn("n")
    ORDER = ("all(implies(%s and u.visite and inq(fil, k), u.poids <= prio(fil, k)) for u in refs(Node) for k in refs(Node))" % isn("u"))
    SETTLED_REACHED = "all(implies(%s and n.visite, n.poids != -1) for n in refs(Node))" % isn("n")
    AE = "self.EDGES[v.antecedent_edge]"
    TREE = ("all(implies(%s and v.poids != -1 and v is not SRC, v.antecedent is not None and %s and v.antecedent.visite and "
            "v.antecedent_edge in self.EDGES and %s.id == v.antecedent_edge and "
            "any(self.NEXT_EDGES[v.antecedent.id][t] == v.antecedent_edge for t in range(0, len(self.NEXT_EDGES[v.antecedent.id]))) and "
            "(%s.source if %s.target.id == v.antecedent.id else %s.target) is v and v.poids == v.antecedent.poids + %s.weight) for v in refs(Node))"
            % (isn("v"), isn("v.antecedent"), AE, AE, AE, AE, AE))
    SRCROOT = ["SRC.antecedent is None",
               "SRC.visite or all(implies(%s and n is not SRC, n.poids == -1) for n in refs(Node))" % isn("n")]
    INV = WFNET + LABELS + [RELAXED, QUEUE, QNODES, ORDER, SETTLED_REACHED, TREE] + SRCROOT
    EXPORT.update(WFNET=WFNET, LABELS=LABELS, TREE=TREE, ISNODE=ISNODE, SETTLED_REACHED=SETTLED_REACHED)
    IN = dict(self="Network", fil="obj[priority_dict]", pere="Node", source="any", target="opt[any]", cut="float")
    reg.add(Spec(NW + "run_routing_forward", IN, "none", ghost=dict(SRC="Node"),
                 region=("while len(fil) != 0:", None), let=dict(heuristic="0", output_dict="None"),
                 requires=INV + ["self.routing_mode != 1", "not isnan(cut)",
                                 "all(implies(%s, not n.visite) for n in refs(Node))" % isn("n")],    # state left by __resetFlags
                 modifies=["Node.poids", "Node.visite", "Node.antecedent", "Node.antecedent_edge", "priority_dict.q"],
                 loops={"1": LoopSpec(inv=INV + ["unchanged_except('priority_dict.q', fil)", "heuristic == 0",
                                                 "pere.visite or all(implies(%s, not n.visite) for n in refs(Node))" % isn("n"),
                                                 "all(implies(%s and u.visite, u.poids <= pere.poids) for u in refs(Node))" % isn("u")]),
                        "1.1": LoopSpec(index="t_", inv=WFNET + LABELS + [
                            # the settled set now includes pere; its arcs in slots < t_ are relaxed
                            "%s and pere.visite and pere.poids != -1 and not inq(fil, pere)" % isn("pere"),
                            ("all(implies(%s and u.visite and 0 <= t and t < len(self.NEXT_EDGES[u.id]) and (u is not pere or t < t_), "
                             "%s.poids != -1 and %s.poids <= u.poids + %s.weight) for u in refs(Node) for t in ints)"
                             % (isn("u"), far("u", "t"), far("u", "t"), EDGE_OF % ("u", "t"))),
                            QUEUE, QNODES, SETTLED_REACHED, TREE, "SRC.antecedent is None and SRC.visite",
                            # every settled label and pere's label bound the queue from below
                            "all(implies(%s and u.visite and inq(fil, k), u.poids <= prio(fil, k)) for u in refs(Node) for k in refs(Node))" % isn("u"),
                            # labels settle in non-decreasing order: nothing settled is above the node being expanded
                            "all(implies(%s and u.visite, u.poids <= pere.poids) for u in refs(Node))" % isn("u"),
                            "unchanged_except('priority_dict.q', fil)", "heuristic == 0"])},
                 ensures=[("labels", " and ".join(LABELS)), ("relaxed", RELAXED), ("settled-before-queued", ORDER), ("predecessor-tree", TREE), ("source-is-the-root", "SRC.antecedent is None"),
                          ("queue-consistent-except-the-node-in-hand",
                           "all(implies(%s and n is not pere, inq(fil, n) == (n.poids != -1 and not n.visite) and implies(inq(fil, n), prio(fil, n) == n.poids)) "
                           "for n in refs(Node))" % isn("n")),
                          ("exit-queue-empty-or-stopped-at-a-least-node",
                           "all(not inq(fil, k) for k in refs(Node)) or (%s and not pere.visite and pere.poids != -1 and not inq(fil, pere) and "
                           "(pere.poids > cut or (target is not None and pere.id == target)) and "
                           "all(implies(inq(fil, k), pere.poids <= prio(fil, k)) for k in refs(Node)) and "
                           "all(implies(%s and u.visite, u.poids <= pere.poids) for u in refs(Node)))" % (isn("pere"), isn("u"))),
                          ("queue-empty-means-every-reached-node-is-settled",
                           "implies(all(not inq(fil, k) for k in refs(Node)), all(implies(%s and n.poids != -1 and n is not pere, n.visite) for n in refs(Node)))" % isn("n")),
                          ("nothing-settled-exceeds-the-node-in-hand", "all(implies(%s and u.visite, u.poids <= pere.poids) for u in refs(Node))" % isn("u")),
                          ("node-in-hand-settled-unless-stopped-or-nothing-settled",
                           "pere.visite or pere.poids > cut or (target is not None and pere.id == target) or "
                           "all(implies(%s, not n.visite) for n in refs(Node))" % isn("n"))]))


def lemmas(reg):
    """walk-lower-bound.  Nodes are integers; d = label, settled / reached as predicates; ARC(u, v, w): an arc u -> v
    of weight w (a slot of u's outgoing list whose far end is v); p = the node in hand at exit (last popped).
    Exit-state facts (all post-conditions of the region, rewritten over these symbols):
      RELAXED  settled(u) and ARC(u, v, w)  ->  reached(v) and d(v) <= d(u) + w
      MONO     settled(u) -> d(u) <= d(p);      MINQ  reached(n) and not settled(n) -> d(n) >= d(p)
    For an arbitrary walk x(0) = s, ..., with accumulated weight acc, by induction on k:
      P(k):  (settled(x(k)) and d(x(k)) <= acc(k))  or  acc(k) >= d(p)
    hence a walk ending at p, or at any settled node, weighs at least that node's label."""
    I, R, B = z3.IntSort(), z3.RealSort(), z3.BoolSort()
    d = z3.Function("d!w", I, R)
    settled, reached = z3.Function("settled!w", I, B), z3.Function("reached!w", I, B)
    ARC = z3.Function("arc!w", I, I, R, B)
    x, wt, acc = z3.Function("x!w", I, I), z3.Function("wt!w", I, R), z3.Function("acc!w", I, R)
    u, v, n, k, s_, p = z3.Ints("u!w v!w n!w k!w s!w p!w")
    w = z3.Real("w!w")
    relaxed = z3.ForAll([u, v, w], z3.Implies(z3.And(settled(u), ARC(u, v, w)), z3.And(reached(v), d(v) <= d(u) + w)))
    mono = z3.ForAll([n], z3.Implies(settled(n), z3.And(reached(n), d(n) <= d(p))))
    minq = z3.ForAll([n], z3.Implies(z3.And(reached(n), z3.Not(settled(n))), d(n) >= d(p)))
    walk = [x(0) == s_, acc(0) == 0, acc(k + 1) == acc(k) + wt(k), wt(k) >= 0, ARC(x(k), x(k + 1), wt(k))]
    P = lambda j: z3.Or(z3.And(settled(x(j)), d(x(j)) <= acc(j)), acc(j) >= d(p))
    src = [d(s_) == 0, reached(s_), z3.Or(settled(s_), s_ == p)]
    return [("walk-lower-bound:base", [relaxed, mono, minq] + walk + src, P(z3.IntVal(0))),
            ("walk-lower-bound:step", [relaxed, mono, minq, k >= 0] + walk + [P(k)], P(k + 1)),
            ("walk-lower-bound:conclusion-settled-end", [mono, P(k), settled(x(k))], d(x(k)) <= acc(k)),
            ("walk-lower-bound:conclusion-node-in-hand", [P(k), x(k) == p, z3.Not(settled(p))], d(p) <= acc(k))]


FUNCTIONS = [NW + "run_routing_forward"]
ASSUMPTIONS = ["priority_dict (heapq-based) is TRUSTED as an abstract priority queue: pop_smallest removes and returns a key of least priority",
               "run_routing_forward: the Dijkstra loop is under contract (region); input normalisation, __resetFlags and the queue initialisation are bounded only",
               "Dijkstra mode (routing_mode != 1: no A* heuristic added to the labels); no output_dict",
               "Node.antecedent == '' (no antecedent) is modelled as None"]
