"""C15 — kernel smoothing is a renormalised local weighted mean.

Filter.execute: the filtering part (from `N = len(kernel)` on; the kernel is then a list of weights) is verified as a
REGION contract cut from the real function on every run.  Ghost inputs I0, lo, hi (arbitrary): if every non-NaN input
of the window of index I0 lies in [lo, hi] then so does the output at I0 -- i.e. every output lies between the
smallest and the largest input of its window, and a constant signal is unchanged (lo = hi).  The exact value is pinned
by folds: out[i] * NRM(i) = NUM(i), NUM / NRM = sums of x*w / w over the window samples that are inside the track and
not NaN.  Boundary: without boundary filtering the first and last D values are the inputs."""
import z3
from pyvc.kinds import *
from pyvc.values import *
from pyvc.symexec import Spec, LoopSpec
from specs import track_model
from specs.track_model import DICO, ALLCOLS_SAME

O = "tracklib.core.operators:"
DEPENDS = []
_B = z3.ArraySort(z3.IntSort(), z3.BoolSort())
_R = z3.ArraySort(z3.IntSort(), z3.RealSort())
I_, R_ = z3.IntSort(), z3.RealSort()
# folds over j' < j of the window of index i: samples q = i - j' + D inside [0, n) and not NaN
NUM = z3.Function("wnum", _B, _R, _R, I_, I_, I_, I_, R_)     # (xnan, xval, w, n, D, i, j)
NRM = z3.Function("wnrm", _B, _R, _R, I_, I_, I_, I_, R_)


def ax_folds():
    xn, xv, w = z3.Const("xn!k", _B), z3.Const("xv!k", _R), z3.Const("w!k", _R)
    n, D, i, j = z3.Ints("n!k D!k i!k j!k")
    q = i - (j - 1) + D
    valid = z3.And(q >= 0, q < n, z3.Not(z3.Select(xn, q)))
    out = []
    for F, term in ((NUM, z3.Select(xv, q) * z3.Select(w, j - 1)), (NRM, z3.Select(w, j - 1))):
        out.append(z3.ForAll([xn, xv, w, n, D, i, j], z3.Implies(j <= 0, F(xn, xv, w, n, D, i, j) == 0), patterns=[F(xn, xv, w, n, D, i, j)]))
        out.append(z3.ForAll([xn, xv, w, n, D, i, j], z3.Implies(j > 0, F(xn, xv, w, n, D, i, j) ==
                                                                 F(xn, xv, w, n, D, i, j - 1) + z3.If(valid, term, z3.RealVal(0))),
                             patterns=[F(xn, xv, w, n, D, i, j)]))
    return out


def _fold(F):
    def sf(ex, st, x, w, n, D, i, j):
        xn, xv = x.terms[1], x.terms[2]
        wv = w.terms[2] if isinstance(w.kind.elem, KFloat) else w.terms[1]
        return vfloat(F(xn, xv, wv, to_int(n), to_int(D), to_int(i), to_int(j)))
    return sf


def register(reg):
    track_model.register(reg)
    reg.specfuncs.update(wnum=_fold(NUM), wnrm=_fold(NRM))
    reg.axioms.append(("wnum", ax_folds))
    reg.axioms.append(("wnrm", ax_folds))
    n = "npts(track)"
    XIN = "[old(col(track, af_input, q)) for q in range(0, 0)]"   # (documentation only)
    VALID = "(0 <= %s - %s + D and %s - %s + D < " + n + " and not isnan(XS[%s - %s + D]))"
    v = lambda i, j: VALID % (i, j, i, j, i, j)
    WIN0 = "all(implies(I0 - D <= q and q <= I0 + D and not isnan(XS[q]), lo <= XS[q] and XS[q] <= hi) for q in range(0, %s))" % n
    POSW = "all(implies(%s and kernel[jj] > 0 and jj < %%s, norm > 0) for jj in range(0, N))" % v("i", "jj")
    reg.add(Spec(O + "Filter.execute", dict(self="Filter", track="Track", af_input="str", af_output="str", kernel="list[real]", boundary="bool"),
                 "list[float]", ghost=dict(I0="int", lo="real", hi="real", XS="list[float]"),
                 region=("N = len(kernel)", None),
                 requires=["twf(track)", n + " >= 1", "not reserved(af_input)", "hasname(track, af_input)", "not reserved(af_output)",
                           "len(kernel) >= 1", "len(kernel) <= " + n, "all(kernel[j] >= 0 for j in range(0, len(kernel)))",
                           # XS is the input signal (ghost copy of the input column)
                           "len(XS) == " + n + " and all(same(XS[q], col(track, af_input, q)) for q in range(0, " + n + "))",
                           # every window holds a usable sample with positive weight (otherwise the code divides by zero)
                           "all(any(%s and kernel[jj] > 0 for jj in range(0, len(kernel))) for i in range(0, %s))"
                           % ((VALID % ("i", "jj", "i", "jj", "i", "jj")).replace("D", "(len(kernel) // 2)"), n),
                           "0 <= I0 and I0 < " + n, "lo <= hi", WIN0.replace("D", "(len(kernel) // 2)")],
                 raises={"KernelError": "len(kernel) % 2 == 0"},
                 modifies=["Obs.features", "Track." + DICO],
                 locals=dict(temp="list[float]"),
                 at={"for j in range(N):": [("window-odd", "N == 2 * D + 1"), ("norm-positive", "norm > 0")]},
                 loops={"2": LoopSpec(inv=[
                            "twf(track)", "hasname(track, af_input)", "len(temp) == " + n, "N == len(kernel) and N % 2 == 1 and D == N // 2",
                            "all(same(XS[q], col(track, af_input, q)) for q in range(0, " + n + "))",
                            "all(not isnan(temp[r]) for r in range(0, " + n + "))", "all(temp[r] == 0 for r in range(i, " + n + "))",
                            "all(temp[r] == fdiv(wnum(XS, kernel, %s, D, r, N), wnrm(XS, kernel, %s, D, r, N)) for r in range(0, i))" % (n, n),
                            "implies(I0 < i, lo <= temp[I0] and temp[I0] <= hi)"],
                            hints=["use div_bounds(lo, hi, temp[i - 1], norm)"]),
                        "2.1": LoopSpec(inv=[
                            "twf(track)", "hasname(track, af_input)", "len(temp) == " + n,
                            "all(not isnan(temp[r]) for r in range(0, " + n + "))", "all(temp[r] == 0 for r in range(i + 1, " + n + "))",
                            "all(temp[r] == fdiv(wnum(XS, kernel, %s, D, r, N), wnrm(XS, kernel, %s, D, r, N)) for r in range(0, i))" % (n, n),
                            "implies(I0 < i, lo <= temp[I0] and temp[I0] <= hi)",
                            "not isnan(norm) and norm >= 0 and norm == wnrm(XS, kernel, %s, D, i, j)" % n,
                            "temp[i] == wnum(XS, kernel, %s, D, i, j)" % n,
                            "implies(i == I0, lo * norm <= temp[i] and temp[i] <= hi * norm)", POSW % "j"],
                            hints=["use mul_mono(lo, val, kernel[j - 1])", "use mul_mono(val, hi, kernel[j - 1])",
                                   "use distrib(norm - kernel[j - 1], kernel[j - 1], lo)", "use distrib(norm - kernel[j - 1], kernel[j - 1], hi)"]),
                        "3": LoopSpec(inv=["len(temp) == " + n, "twf(track)", "hasname(track, af_input)",
                                           "all(same(XS[q], col(track, af_input, q)) for q in range(0, " + n + "))",
                                           "all(same(temp[r], XS[r]) for r in range(0, i))",
                                           "all(not isnan(temp[r]) and temp[r] == fdiv(wnum(XS, kernel, %s, D, r, N), wnrm(XS, kernel, %s, D, r, N)) "
                                           "for r in range(D, " % (n, n) + n + "))",
                                           "implies(D <= I0, lo <= temp[I0] and temp[I0] <= hi)"]),
                        "4": LoopSpec(inv=["len(temp) == " + n, "twf(track)", "hasname(track, af_input)",
                                           "all(same(XS[q], col(track, af_input, q)) for q in range(0, " + n + "))",
                                           "all(same(temp[r], XS[r]) for r in range(0, D))",
                                           "all(same(temp[r], XS[r]) for r in range(%s - D, i))" % n,
                                           "all(not isnan(temp[r]) and temp[r] == fdiv(wnum(XS, kernel, %s, D, r, N), wnrm(XS, kernel, %s, D, r, N)) "
                                           "for r in range(D, %s - D))" % (n, n, n),
                                           "implies(D <= I0 and I0 < %s - D, lo <= temp[I0] and temp[I0] <= hi)" % n])},
                 ensures=[("wf", "twf(track)"),
                          ("length", "len(result) == " + n),
                          ("renormalised-weighted-mean",
                           "all(implies(boundary or (D <= r and r < %s - D), not isnan(result[r]) and "
                           "result[r] == fdiv(wnum(XS, kernel, %s, D, r, N), wnrm(XS, kernel, %s, D, r, N))) for r in range(0, %s))" % (n, n, n, n)),
                          ("within-the-window-bounds", "implies(boundary or (D <= I0 and I0 < %s - D), lo <= result[I0] and result[I0] <= hi)" % n),
                          ("boundary-values-unchanged",
                           "implies(not boundary, all(implies(r < D or r >= %s - D, same(result[r], XS[r])) for r in range(0, %s)))" % (n, n)),
                          ("stored", "hasname(track, af_output) and all(same(col(track, af_output, r), result[r]) for r in range(0, %s))" % n),
                          ("other-columns", (ALLCOLS_SAME % "af_output").replace("self", "track"))]))


USES_LIB = True
FUNCTIONS = [O + "Filter.execute"]
ASSUMPTIONS = ["Filter.execute: the region from `N = len(kernel)` on is under contract (kernel already a list of non-negative weights); "
               "kernel preparation (Kernel object -> toSlidingWindow, normalisation of a list by its sum) is bounded only",
               "signal at least as long as the window; every window holds a non-NaN sample with positive weight (else the code divides by zero)"]
