"""C15 — kernel smoothing is a renormalised local weighted mean.

Filter.execute: the filtering part (from `N = len(kernel)` on; the kernel is then a list of weights) is verified as a
REGION contract cut from the real function on every run.  Ghost inputs I0, lo, hi (arbitrary): if every non-NaN input
of the window of index I0 lies in [lo, hi] then so does the output at I0 -- i.e. every output lies between the
smallest and the largest input of its window, and a constant signal is unchanged (lo = hi).  The exact value is pinned
by folds: out[i] * NRM(i) = NUM(i), NUM / NRM = sums of x*w / w over the window samples that are inside the track and
not NaN.  Boundary: without boundary filtering the first and last D values are the inputs."""
import z3
from pyvc.kinds import *
from pyvc.values import *
from pyvc.symexec import Spec, LoopSpec
from specs import track_model
from specs.track_model import DICO, ALLCOLS_SAME

O = "tracklib.core.operators:"
DEPENDS = []
_B = z3.ArraySort(z3.IntSort(), z3.BoolSort())
_R = z3.ArraySort(z3.IntSort(), z3.RealSort())
I_, R_ = z3.IntSort(), z3.RealSort()
# folds over j' < j of the window of index i: samples q = i - j' + D inside [0, n) and not NaN
NUM = z3.Function("wnum", _B, _R, _R, I_, I_, I_, I_, R_)     # (xnan, xval, w, n, D, i, j)
NRM = z3.Function("wnrm", _B, _R, _R, I_, I_, I_, I_, R_)


def ax_folds():
    xn, xv, w = z3.Const("xn!k", _B), z3.Const("xv!k", _R), z3.Const("w!k", _R)
    n, D, i, j = z3.Ints("n!k D!k i!k j!k")
    q = i - (j - 1) + D
    valid = z3.And(q >= 0, q < n, z3.Not(z3.Select(xn, q)))
    out = []
    for F, term in ((NUM, z3.Select(xv, q) * z3.Select(w, j - 1)), (NRM, z3.Select(w, j - 1))):
        out.append(z3.ForAll([xn, xv, w, n, D, i, j], z3.Implies(j <= 0, F(xn, xv, w, n, D, i, j) == 0), patterns=[F(xn, xv, w, n, D, i, j)]))
        out.append(z3.ForAll([xn, xv, w, n, D, i, j], z3.Implies(j > 0, F(xn, xv, w, n, D, i, j) ==
                                                                 F(xn, xv, w, n, D, i, j - 1) + z3.If(valid, term, z3.RealVal(0))),
                             patterns=[F(xn, xv, w, n, D, i, j)]))
    return out


def _fold(F):
    def sf(ex, st, x, w, n, D, i, j):
        xn, xv = x.terms[1], x.terms[2]
        wv = w.terms[2] if isinstance(w.kind.elem, KFloat) else w.terms[1]
        return vfloat(F(xn, xv, wv, to_int(n), to_int(D), to_int(i), to_int(j)))
    return sf


def register(reg):
    track_model.register(reg)
    reg.specfuncs.update(wnum=_fold(NUM), wnrm=_fold(NRM))
    reg.axioms.append(("wnum", ax_folds))
    reg.axioms.append(("wnrm", ax_folds))
    n = "npts(track)"
    XIN = "[old(col(track, af_input, q)) for q in range(0, 0)]"   # (documentation only)
    VALID = "(0 <= %s - %s + D and %s - %s + D < " + n + " and not isnan(XS[%s - %s + D]))"
    v = lambda i, j: VALID % (i, j, i, j, i, j)
    WIN0 = "all(implies(I0 - D <= q and q <= I0 + D and not isnan(XS[q]), lo <= XS[q] and XS[q] <= hi) for q in range(0, %s))" % n
    POSW = "all(implies(%s and kernel[jj] > 0 and jj < %%s, norm > 0) for jj in range(0, N))" % v("i", "jj")
    reg.add(Spec(O + "Filter.execute", dict(self="Filter", track="Track", af_input="str", af_output="str", kernel="list[real]", boundary="bool"),
                 "list[float]", ghost=dict(I0="int", lo="real", hi="real", XS="list[float]", JW="list[int]"),
                 region=("N = len(kernel)", None),
                 requires=["twf(track)", n + " >= 1", "not reserved(af_input)", "hasname(track, af_input)", "not reserved(af_output)",
                           "len(kernel) >= 1", "len(kernel) <= " + n, "all(kernel[j] >= 0 for j in range(0, len(kernel)))",
                           # XS is the input signal (ghost copy of the input column)
                           "len(XS) == " + n + " and all(same(XS[q], col(track, af_input, q)) for q in range(0, " + n + "))",
                           # every window holds a usable sample with positive weight (otherwise the code divides by zero)
                           # (the witness sample of window i is the ghost JW[i]: a Skolem function for "there is a usable sample")
                           "len(JW) == %s and all(0 <= JW[i] and JW[i] < len(kernel) and %s and kernel[JW[i]] > 0 for i in range(0, %s))"
                           % (n, (VALID % ("i", "JW[i]", "i", "JW[i]", "i", "JW[i]")).replace("D", "(len(kernel) // 2)"), n),
                           "0 <= I0 and I0 < " + n, "lo <= hi", WIN0.replace("D", "(len(kernel) // 2)")],
                 raises={"KernelError": "len(kernel) % 2 == 0"},
                 modifies=["Obs.features", "Track." + DICO],
                 locals=dict(temp="list[float]"),
                 at={"for j in range(N):": [("window-odd", "N == 2 * D + 1 and D == len(kernel) // 2 and N == len(kernel)"),
                                            ("usable-sample-in-the-window", "0 <= JW[i] and JW[i] < N and %s and kernel[JW[i]] > 0" % v("i", "JW[i]")),
                                            ("norm-positive", "norm > 0")]},
                 loops={"2": LoopSpec(inv=[
                            "twf(track)", "hasname(track, af_input)", "len(temp) == " + n, "N == len(kernel) and N % 2 == 1 and D == N // 2",
                            "all(same(XS[q], col(track, af_input, q)) for q in range(0, " + n + "))",
                            "all(not isnan(temp[r]) for r in range(0, " + n + "))", "all(temp[r] == 0 for r in range(i, " + n + "))",
                            "all(temp[r] == fdiv(wnum(XS, kernel, %s, D, r, N), wnrm(XS, kernel, %s, D, r, N)) for r in range(0, i))" % (n, n),
                            "implies(I0 < i, lo <= temp[I0] and temp[I0] <= hi)"],
                            hints=["use div_bounds(lo, hi, temp[i - 1], norm)"]),
                        "2.1": LoopSpec(inv=[
                            "twf(track)", "hasname(track, af_input)", "len(temp) == " + n,
                            "all(not isnan(temp[r]) for r in range(0, " + n + "))", "all(temp[r] == 0 for r in range(i + 1, " + n + "))",
                            "all(temp[r] == fdiv(wnum(XS, kernel, %s, D, r, N), wnrm(XS, kernel, %s, D, r, N)) for r in range(0, i))" % (n, n),
                            "implies(I0 < i, lo <= temp[I0] and temp[I0] <= hi)",
                            "not isnan(norm) and norm >= 0 and norm == wnrm(XS, kernel, %s, D, i, j)" % n,
                            "temp[i] == wnum(XS, kernel, %s, D, i, j)" % n,
                            "implies(i == I0, lo * norm <= temp[i] and temp[i] <= hi * norm)", POSW % "j"],
                            hints=["use mul_mono(lo, val, kernel[j - 1])", "use mul_mono(val, hi, kernel[j - 1])",
                                   "use distrib(norm - kernel[j - 1], kernel[j - 1], lo)", "use distrib(norm - kernel[j - 1], kernel[j - 1], hi)"]),
                        "3": LoopSpec(inv=["len(temp) == " + n, "twf(track)", "hasname(track, af_input)",
                                           "all(same(XS[q], col(track, af_input, q)) for q in range(0, " + n + "))",
                                           "all(same(temp[r], XS[r]) for r in range(0, i))",
                                           "all(not isnan(temp[r]) and temp[r] == fdiv(wnum(XS, kernel, %s, D, r, N), wnrm(XS, kernel, %s, D, r, N)) "
                                           "for r in range(D, " % (n, n) + n + "))",
                                           "implies(D <= I0, lo <= temp[I0] and temp[I0] <= hi)"]),
                        "4": LoopSpec(inv=["len(temp) == " + n, "twf(track)", "hasname(track, af_input)",
                                           "all(same(XS[q], col(track, af_input, q)) for q in range(0, " + n + "))",
                                           "all(same(temp[r], XS[r]) for r in range(0, D))",
                                           "all(same(temp[r], XS[r]) for r in range(%s - D, i))" % n,
                                           "all(not isnan(temp[r]) and temp[r] == fdiv(wnum(XS, kernel, %s, D, r, N), wnrm(XS, kernel, %s, D, r, N)) "
                                           "for r in range(D, %s - D))" % (n, n, n),
                                           "implies(D <= I0 and I0 < %s - D, lo <= temp[I0] and temp[I0] <= hi)" % n])},
                 ensures=[("wf", "twf(track)"),
                          ("length", "len(result) == " + n),
                          ("renormalised-weighted-mean",
                           "all(implies(boundary or (D <= r and r < %s - D), not isnan(result[r]) and "
                           "result[r] == fdiv(wnum(XS, kernel, %s, D, r, N), wnrm(XS, kernel, %s, D, r, N))) for r in range(0, %s))" % (n, n, n, n)),
                          ("within-the-window-bounds", "implies(boundary or (D <= I0 and I0 < %s - D), lo <= result[I0] and result[I0] <= hi)" % n),
                          ("boundary-values-unchanged",
                           "implies(not boundary, all(implies(r < D or r >= %s - D, same(result[r], XS[r])) for r in range(0, %s)))" % (n, n)),
                          ("stored", "hasname(track, af_output) and all(same(col(track, af_output, r), result[r]) for r in range(0, %s))" % n),
                          ("other-columns", (ALLCOLS_SAME % "af_output").replace("self", "track"))]))


USES_LIB = True
FUNCTIONS = [O + "Filter.execute"]
ASSUMPTIONS = ["Filter.execute: the region from `N = len(kernel)` on is under contract (kernel already a list of non-negative weights); "
               "kernel preparation (Kernel object -> toSlidingWindow, normalisation of a list by its sum) is bounded only",
               "signal at least as long as the window; every window holds a non-NaN sample with positive weight (else the code divides by zero)"]


# ---------------------------------------------------------------------------- Kernel.toSlidingWindow
K = "tracklib.core.kernel:Kernel."
KF = z3.Function("kernel_fn", I_, R_, R_)                  # the kernel's function (abstract), per Kernel object
KSUM = z3.Function("kernel_sum", I_, R_, I_, I_, R_)       # (kernel, support, m, k) -> sum over r < k of EV(m - r)


def z_ev(k, supp, x):
    return z3.If(z3.And(x <= supp, -x <= supp), KF(k, x), z3.RealVal(0))


def ax_ksum():
    k, m, n = z3.Ints("k!s m!s n!s")
    s = z3.Real("s!s")
    return [z3.ForAll([k, s, m, n], z3.Implies(n <= 0, KSUM(k, s, m, n) == 0), patterns=[KSUM(k, s, m, n)]),
            z3.ForAll([k, s, m, n], z3.Implies(n > 0, KSUM(k, s, m, n) == KSUM(k, s, m, n - 1) + z_ev(k, s, z3.ToReal(m - (n - 1)))),
                      patterns=[KSUM(k, s, m, n)])]


def sf_ev(ex, st, kern, x):
    supp = to_float(ex.read_field(st, kern, "support"))[1]
    return vfloat(z_ev(kern.terms[0], supp, to_float(x)[1]))


def sf_ksum(ex, st, kern, m, n):
    supp = to_float(ex.read_field(st, kern, "support"))[1]
    return vfloat(KSUM(kern.terms[0], supp, to_int(m), to_int(n)))


def sf_kernel_ok(ex, st, kern):
    """assumptions on the kernel's function: even, non-negative on its support, positive at 0"""
    x = z3.Real(uid("kx"))
    k = kern.terms[0]
    supp = to_float(ex.read_field(st, kern, "support"))[1]
    return vbool(z3.And(z3.ForAll([x], KF(k, -x) == KF(k, x)),
                        z3.ForAll([x], z3.Implies(z3.And(x <= supp, -x <= supp), KF(k, x) >= 0)),
                        KF(k, 0) > 0))


def sf_sum_scaled(ex, st, l, kern, m, norm, n):
    """instance of lemma sum-of-scaled-window (induction, lemmas()): if every cell r < n of l is non-NaN with
    l[r] * norm == EV(m - r) then sumnn(l, k) * norm == KSUM(k) for every k <= n"""
    from pyvc.stdspec import SUMNN
    supp = to_float(ex.read_field(st, kern, "support"))[1]
    return vbool(z_sum_scaled(l.terms[1], l.terms[2], kern.terms[0], supp, to_int(m), to_float(norm)[1], to_int(n)))


def z_sum_scaled(ln, lv, k, supp, m, norm, n):
    from pyvc.stdspec import SUMNN
    r, kk = z3.Int(uid("sr")), z3.Int(uid("sk"))
    pre = z3.ForAll([r], z3.Implies(z3.And(0 <= r, r < n), z3.And(z3.Not(z3.Select(ln, r)),
                                                                 z3.Select(lv, r) * norm == z_ev(k, supp, z3.ToReal(m - r)))))
    return z3.Implies(pre, z3.ForAll([kk], z3.Implies(z3.And(0 <= kk, kk <= n), SUMNN(ln, lv, kk) * norm == KSUM(k, supp, m, kk))))


def register_kernel(reg):
    reg.field("Kernel", "support", "real")
    reg.specfuncs.update(ev=sf_ev, ksum=sf_ksum, kernel_ok=sf_kernel_ok, sum_scaled=sf_sum_scaled)
    reg.axioms.append(("kernel_sum", ax_ksum))
    reg.add(Spec(K + "evaluate", dict(self="Kernel", x="float"), "float", trusted=True,
                 requires=["not isnan(x)"],
                 ensures=[("function-inside-the-support-else-zero", "not isnan(result) and result == ev(self, x)")]))
    M = "int(self.support)"
    reg.add(Spec(K + "toSlidingWindow", dict(self="Kernel"), "list[float]",
                 requires=["kernel_ok(self)"],
                 raises={"KernelError": "self.support < 1"},
                 locals=dict(values="list[float]"),
                 at={"for i in range(size):": [("centre-weight-positive", "norm > 0")],
                     "for i in range(size):#2": ["use sum_scaled(values, self, %s, norm, size)" % M]},
                 loops={"1": LoopSpec(inv=["len(values) == size",
                                           "all(not isnan(values[r]) and values[r] == ev(self, %s - r) and values[r] >= 0 for r in range(0, i))" % M,
                                           "not isnan(norm) and norm >= 0 and norm == ksum(self, %s, i)" % M,
                                           "implies(i > %s, norm > 0)" % M]),
                        "2": LoopSpec(inv=["len(values) == size", "norm > 0 and norm == ksum(self, %s, size)" % M,
                                           "all(not isnan(values[r]) and values[r] * norm == ev(self, %s - r) and values[r] >= 0 for r in range(0, i))" % M,
                                           "all(not isnan(values[r]) and values[r] == ev(self, %s - r) and values[r] >= 0 for r in range(i, size))" % M],
                                      hints=["use mul_nonneg(values[i - 1], norm)"])},
                 ensures=[("odd-length", "len(result) == 2 * %s + 1" % M),
                          ("non-negative", "all(not isnan(result[r]) and result[r] >= 0 for r in range(0, len(result)))"),
                          ("symmetric", "all(result[r] == result[len(result) - 1 - r] for r in range(0, len(result)))"),
                          ("sums-to-one", "sumnn(result, len(result)) == 1")]))


def lemmas(reg):
    """sum-of-scaled-window, by induction on k."""
    from pyvc.stdspec import SUMNN, ax_sumnn
    ln, lv = z3.Const("ln!q", _B), z3.Const("lv!q", _R)
    k, m, n, kk, r = z3.Ints("k!q m!q n!q kk!q r!q")
    supp, norm = z3.Reals("supp!q norm!q")
    pre = z3.ForAll([r], z3.Implies(z3.And(0 <= r, r < n), z3.And(z3.Not(z3.Select(ln, r)),
                                                                 z3.Select(lv, r) * norm == z_ev(k, supp, z3.ToReal(m - r)))))
    stmt = lambda j: SUMNN(ln, lv, j) * norm == KSUM(k, supp, m, j)
    ax = ax_sumnn() + ax_ksum()
    return kernel_lemmas(reg) + [("sum-of-scaled-window:base", ax + [pre], stmt(z3.IntVal(0))),
            ("sum-of-scaled-window:step", ax + [pre, 0 <= kk, kk < n, stmt(kk)], stmt(kk + 1))]


def kernel_lemmas(reg):
    """The assumptions made on the abstract kernel function (even, non-negative on the support, positive at 0) are
    proved for the lambda of every built-in non-negative kernel, extracted from the constructors' source."""
    import ast as _ast
    from pyvc.symexec import Executor, Ctx, State
    from pyvc import mathlib
    out = []
    for cls in ("UniformKernel", "TriangularKernel", "GaussianKernel", "ExponentialKernel", "EpanechnikovKernel", "CubicKernel", "SphericKernel"):
        fi = reg.index.funcs.get("tracklib.core.kernel:%s.__init__" % cls)
        if fi is None:
            continue
        lam = next((x for x in _ast.walk(fi.node) if isinstance(x, _ast.Lambda) and len(x.args.args) == 1), None)
        sup = next((x.value for x in _ast.walk(fi.node) if isinstance(x, _ast.Assign) and isinstance(x.targets[0], _ast.Attribute)
                    and x.targets[0].attr == "support"), None)
        if lam is None or sup is None:
            continue
        pname = fi.node.args.args[1].arg
        ctx = Ctx(reg, "C15/" + cls)
        ex = Executor(ctx, fi, None)
        p = z3.Real("param!" + cls)
        x = z3.Real("x!" + cls)

        def f(xv):
            st = State({lam.args.args[0].arg: vfloat(xv), pname: vfloat(p)}, {}, TRUE)
            return to_float(ex.eval(lam.body, st))[1]
        supp = to_float(ex.eval(sup, State({pname: vfloat(p)}, {}, TRUE)))[1]
        fx, fmx, f0 = f(x), f(-x), f(z3.RealVal(0))
        hyps = [p > 0] + list(ctx.hyps) + mathlib.axioms(ctx.math_used | {"exp", "sqrt"})
        out += [("kernel-function-even:" + cls, hyps, fmx == fx),
                ("kernel-function-nonnegative-on-support:" + cls, hyps + [x <= supp, -x <= supp], fx >= 0),
                ("kernel-function-positive-at-0:" + cls, hyps, f0 > 0)]
    return out


_register_filter = register


def register(reg):  # noqa: F811
    _register_filter(reg)
    register_kernel(reg)


FUNCTIONS = [O + "Filter.execute", K + "toSlidingWindow"]
ASSUMPTIONS += ["Kernel.evaluate (numpy.vectorize) is trusted: the kernel's function inside the support, 0 outside",
                "toSlidingWindow: the kernel's function is abstract, assumed even, non-negative on the support and positive at 0"]
