"""C03 — timestamps <-> epoch seconds.  Contracts on tracklib.core.obs_time:ObsTime.*

Spec functions are the proleptic Gregorian calendar in closed form; the postconditions are the
property statement (well-formed result, same instant to within 1 ms, order = numeric order,
adding seconds moves the instant by that amount)."""
import z3
from pyvc.kinds import *
from pyvc.values import *
from pyvc.symexec import Spec, LoopSpec

M = "tracklib.core.obs_time:ObsTime."
DIM = [31, 28, 31, 30, 31, 30, 31, 31, 30, 31, 30, 31]
CUM = [0, 31, 59, 90, 120, 151, 181, 212, 243, 273, 304, 334, 365]


def z_leap(y):
    return z3.And(y % 4 == 0, z3.Or(y % 100 != 0, y % 400 == 0))


def z_dby(y):
    """days from 1970-01-01 to (y)-01-01, closed form (proleptic Gregorian)."""
    I = z3.IntVal
    return 365 * (y - 1970) + (y - 1) / I(4) - (y - 1) / I(100) + (y - 1) / I(400) - 477


def z_cum(m):
    """days before month m (1..13) in a common year."""
    r = z3.IntVal(CUM[12])
    for k in range(11, -1, -1):
        r = z3.If(m == k + 1, z3.IntVal(CUM[k]), r)
    return r


def z_dbm(m, y):
    return z_cum(m) + z3.If(z3.And(m > 2, z_leap(y)), 1, 0)


def z_dim(m, y):
    r = z3.IntVal(DIM[11])
    for k in range(10, -1, -1):
        r = z3.If(m == k + 1, z3.IntVal(DIM[k]), r)
    return r + z3.If(z3.And(m == 2, z_leap(y)), 1, 0)


def fields(ex, st, t):
    return [to_int(ex.read_field(st, t, f)) for f in ("year", "month", "day", "hour", "min", "sec", "ms")]


def sf_leap(ex, st, y):
    return vbool(z_leap(to_int(y)))


def sf_dby(ex, st, y):
    return vint(z_dby(to_int(y)))


def sf_dbm(ex, st, m, y):
    return vint(z_dbm(to_int(m), to_int(y)))


def sf_wf(ex, st, t):
    y, mo, d, h, mi, s, ms = fields(ex, st, t)
    return vbool(z3.And(y >= 1970, mo >= 1, mo <= 12, d >= 1, d <= z_dim(mo, y), h >= 0, h <= 23,
                        mi >= 0, mi <= 59, s >= 0, s <= 59, ms >= 0, ms <= 999))


def z_abs(y, mo, d, h, mi, s, ms):
    return z3.ToReal(86400 * (z_dby(y) + z_dbm(mo, y) + d - 1) + 3600 * h + 60 * mi + s) + z3.ToReal(ms) / 1000


ABSTIME = z3.Function("abstime", *([z3.IntSort()] * 7 + [z3.RealSort()]))


def sf_abs(ex, st, t):
    """epoch seconds of a timestamp: the closed form inside the proofs of ObsTime's own methods, an opaque
    function of the seven fields everywhere else (callers only need that it is a function of the fields)"""
    top = ex.ctx.top_spec
    if top is None or top.qual.startswith(M):
        return vfloat(z_abs(*fields(ex, st, t)))
    return vfloat(ABSTIME(*fields(ex, st, t)))


def sf_samefields(ex, st, a, b):
    return vbool(z3.And(*[x == y for x, y in zip(fields(ex, st, a), fields(ex, st, b))]))


def register(reg):
    for f in ("year", "month", "day", "hour", "min", "sec", "ms", "zone"):
        reg.field("ObsTime", f, "int")
    reg.specfuncs.update(leap=sf_leap, dby=sf_dby, dbm=sf_dbm, wf=sf_wf, abstime=sf_abs, samefields=sf_samefields)
    reg.auto_inline.add(M + "__init__")

    reg.add(Spec(M + "isLeapYear", dict(year="int"), "bool",
                 ensures=[("gregorian", "result == leap(year)")], inline=True))

    reg.add(Spec(M + "toAbsTime", dict(self="ObsTime"), "float",
                 requires=["wf(self)"],
                 ensures=[("epoch-seconds", "result == abstime(self)")],
                 loops={"1": LoopSpec(inv=["seconds == 86400 * dby(y)"]),
                        "2": LoopSpec(inv=["seconds == 86400 * (dby(self.year) + dbm(m, self.year))"])}))

    reg.add(Spec(M + "readUnixTime", dict(elapsed_seconds="float"), "ObsTime",
                 requires=["not isnan(elapsed_seconds)", "elapsed_seconds >= 0"],
                 ensures=[("well-formed", "wf(result)"),
                          ("same-instant-lower", "abstime(result) <= old(elapsed_seconds)"),
                          ("same-instant-upper", "old(elapsed_seconds) < abstime(result) + 0.001"),
                          ("fresh", "isnew(result)")],
                 fresh=["ObsTime"],
                 loops={"1": LoopSpec(inv=["year >= 1970", "sec == 86400 * dby(year)", "sec <= elapsed_seconds"])}))

    two = dict(self="ObsTime", time="ObsTime")
    reg.add(Spec(M + "__eq__", two, "bool", requires=["wf(self)", "wf(time)"],
                 ensures=[("fieldwise", "result == samefields(self, time)"),
                          ("same-instant", "result == (abstime(self) == abstime(time))")]))
    reg.add(Spec(M + "__ne__", two, "bool", requires=["wf(self)", "wf(time)"],
                 ensures=[("same-instant", "result == (abstime(self) != abstime(time))")]))
    reg.add(Spec(M + "__lt__", two, "bool", requires=["wf(self)", "wf(time)"],
                 ensures=[("numeric-order", "result == (abstime(self) < abstime(time))")]))
    reg.add(Spec(M + "__gt__", two, "bool", requires=["wf(self)", "wf(time)"],
                 ensures=[("numeric-order", "result == (abstime(self) > abstime(time))")]))
    reg.add(Spec(M + "__le__", two, "bool", requires=["wf(self)", "wf(time)"],
                 ensures=[("numeric-order", "result == (abstime(self) <= abstime(time))")]))
    reg.add(Spec(M + "__ge__", two, "bool", requires=["wf(self)", "wf(time)"],
                 ensures=[("numeric-order", "result == (abstime(self) >= abstime(time))")]))
    for name, unit in (("addSec", 1), ("addMin", 60), ("addHour", 3600), ("addDay", 86400)):
        reg.add(Spec(M + name, dict(self="ObsTime", nb="float"), "ObsTime",
                     requires=["wf(self)", "not isnan(nb)", "abstime(self) + nb * %d >= 0" % unit],
                     ensures=[("well-formed", "wf(result)"),
                              ("moved-lower", "abstime(result) <= abstime(self) + nb * %d" % unit),
                              ("moved-upper", "abstime(self) + nb * %d < abstime(result) + 0.001" % unit),
                              ("source-unchanged", "abstime(self) == old(abstime(self))")],
                     fresh=["ObsTime"]))
    reg.add(Spec(M + "__sub__", two, "float", requires=["wf(self)", "wf(time)"],
                 ensures=[("difference", "result == abstime(self) - abstime(time)")]))


FUNCTIONS = [M + n for n in ("isLeapYear", "toAbsTime", "readUnixTime", "__eq__", "__ne__", "__lt__", "__gt__",
                             "__le__", "__ge__", "addSec", "addMin", "addHour", "addDay", "__sub__")]

ASSUMPTIONS = ["years >= 1970 (the code's epoch loop starts there); no upper bound on the year",
               "the millisecond field on IEEE doubles may be one below the real-arithmetic value (covered by the bounded sweep)"]
