"""C17 — curvilinear abscissa and speed match their geometric definitions.

ds / speed against the planimetric distance d2d = sqrt(dx^2 + dy^2); Integrator.execute is the running sum;
computeAbsCurv composes addAnalyticalFeature(ds), the integrator and removeAnalyticalFeature through their
contracts; positions and timestamps are in no frame (proved unchanged)."""
import z3
from pyvc.kinds import *
from pyvc.values import *
from pyvc.symexec import Spec, LoopSpec
from pyvc import mathlib
from specs import track_model
from specs.track_model import T, DICO, ALLCOLS_SAME

A = "tracklib.algo.analytics:"
CIN = "tracklib.algo.cinematics:"
OPS = "tracklib.core.operators:"
DEPENDS = []


def _r(v):
    return to_float(v)[1]


D2D = z3.Function("d2d", *([z3.RealSort()] * 5))


def sf_d2d(ex, st, ax, ay, bx, by):
    """planimetric distance sqrt((bx-ax)^2 + (by-ay)^2): an opaque symbol except where a proof reveals it"""
    ax, ay, bx, by = _r(ax), _r(ay), _r(bx), _r(by)
    top = ex.ctx.top_spec
    if top is not None and "d2d" in top.reveal:
        ex.ctx.math_used.add("sqrt")
        return vfloat(mathlib.SQRT((bx - ax) * (bx - ax) + (by - ay) * (by - ay)))
    return vfloat(D2D(ax, ay, bx, by))


def leg(t, i):
    """planimetric distance between fixes i and i-1 (as the code forms it: from fix i to fix i-1)"""
    return "d2d(X(%s, %s), Y(%s, %s), X(%s, %s - 1), Y(%s, %s - 1))" % (t, i, t, i, t, i, t, i)


COORDS_OK = "all(not isnan(X(%(t)s, r)) and not isnan(Y(%(t)s, r)) for r in range(0, npts(%(t)s)))"
TIMES_OK = "all(wf(tstamp(%(t)s, r)) for r in range(0, npts(%(t)s)))"
OTHER_OBS = ("all(implies(all(obs(%(t)s, q) != o for q in range(0, npts(%(t)s))), untouched(o, 'Obs.features')) "
             "for o in refs(Obs))")


def register(reg):
    track_model.register(reg)
    reg.specfuncs.update(d2d=sf_d2d)
    E = "tracklib.core.obs_coords:ENUCoords."
    reg.auto_inline |= {E + "__sub__", E + "norm2D", "tracklib.core.obs:Obs._Obs__check_call_geom1"}

    reg.add(Spec(E + "distance2DTo", dict(self="ENUCoords", point="ENUCoords"), "float",
                 requires=["not isnan(self.E) and not isnan(self.N) and not isnan(point.E) and not isnan(point.N)"],
                 fresh=["ENUCoords"], reveal=["d2d"],
                 ensures=[("planimetric-distance", "result == d2d(self.E, self.N, point.E, point.N)"),
                          ("non-negative", "not isnan(result) and result >= 0")]))
    reg.add(Spec("tracklib.core.obs:Obs.distance2DTo", dict(self="Obs", obs="Obs"), "float",
                 requires=["not isnan(self.position.E) and not isnan(self.position.N) and not isnan(obs.position.E) "
                           "and not isnan(obs.position.N)"],
                 fresh=["ENUCoords"],
                 ensures=[("planimetric-distance", "result == d2d(self.position.E, self.position.N, obs.position.E, obs.position.N)"),
                          ("non-negative", "not isnan(result) and result >= 0")]))

    t = dict(t="track")
    reg.add(Spec(A + "ds", dict(track="Track", i="int"), "float",
                 requires=["twf(track)", "0 <= i and i < npts(track)", COORDS_OK % t],
                 fresh=["ENUCoords"],
                 ensures=[("first-is-zero", "implies(i == 0, result == 0)"),
                          ("leg-length", "implies(i > 0, result == %s)" % leg("track", "i")),
                          ("non-negative", "not isnan(result) and result >= 0")]))

    def quot(num, a, b):
        dt = "(abstime(tstamp(track, %s)) - abstime(tstamp(track, %s)))" % (a, b)
        return ("(isnan(result) if %s == 0 else (not isnan(result) and result == fdiv(%s, %s)))" % (dt, num, dt))
    reg.add(Spec(A + "speed", dict(track="Track", i="int"), "float",
                 requires=["twf(track)", "npts(track) >= 2", "0 <= i and i < npts(track)", COORDS_OK % t, TIMES_OK % t],
                 fresh=["ENUCoords"],
                 ensures=[("first-fix-forward-difference",
                           "implies(i == 0, %s)" % quot("d2d(X(track, 1), Y(track, 1), X(track, 0), Y(track, 0))", "1", "0")),
                          ("last-fix-backward-difference",
                           "implies(i != 0 and i == npts(track) - 1, %s)" %
                           quot("d2d(X(track, i), Y(track, i), X(track, i - 1), Y(track, i - 1))", "i", "i - 1")),
                          ("interior-centred-difference",
                           "implies(i != 0 and i != npts(track) - 1, %s)" %
                           quot("d2d(X(track, i + 1), Y(track, i + 1), X(track, i - 1), Y(track, i - 1))", "i + 1", "i - 1"))]))

    # Integrator: running sum that skips index 0
    RUN = "(same(result[r], 0.0) if r == 0 else same(result[r], result[r - 1] + old(col(track, af_input, r))))"
    reg.add(Spec(OPS + "Integrator.execute", dict(self="Integrator", track="Track", af_input="str", af_output="str"), "list[float]",
                 requires=["twf(track)", "npts(track) >= 1", "not reserved(af_input)", "hasname(track, af_input)", "not reserved(af_output)"],
                 modifies=["Obs.features", "Track." + DICO, "ENUCoords.E", "ENUCoords.N", "ENUCoords.U"],
                 locals=dict(temp="list[float]"),
                 ensures=[("wf", "twf(track)"),
                          ("length", "len(result) == npts(track)"),
                          ("running-sum", "all(%s for r in range(0, npts(track)))" % RUN),
                          ("no-nan-in-no-nan-out", "implies(all(not isnan(old(col(track, af_input, q))) for q in range(1, npts(track))), all(not isnan(result[r]) for r in range(0, npts(track))))"),
                          ("stored", "hasname(track, af_output) and all(same(col(track, af_output, r), result[r]) for r in range(0, npts(track)))"),
                          ("names", "all(implies(k != af_output, hasname(track, k) == old(hasname(track, k))) for k in strs)"),
                          ("other-columns", (ALLCOLS_SAME % "af_output").replace("self", "track")),
                          ("other-observations", OTHER_OBS % t),
                          ("coordinates", "unchanged('ENUCoords.E', 'ENUCoords.N', 'ENUCoords.U')"),
                          ("other-tracks", "all(implies(r != track, same(r.%s, old(r.%s))) for r in refs(Track))" % (DICO, DICO))],
                 loops={"1": LoopSpec(inv=[
                     "len(temp) == npts(track)", "same(temp[0], 0.0)", "implies(all(not isnan(old(col(track, af_input, q))) for q in range(1, npts(track))), all(not isnan(temp[r]) for r in range(0, npts(track))))",
                     "all(same(temp[r], temp[r - 1] + old(col(track, af_input, r))) for r in range(1, i))"])}))


    # ---------------------------------------------------------------- addAnalyticalFeature(ds) / (speed)
    def rel(dt, num, v):
        return "(isnan(%s) if %s == 0 else (not isnan(%s) and %s == fdiv(%s, %s)))" % (v, dt, v, v, num, dt)

    def dtx(a, b):
        return "(abstime(tstamp(self, %s)) - abstime(tstamp(self, %s)))" % (a, b)

    def speedrel(v, i):
        return ("((%s) if %s == 0 else ((%s) if %s == npts(self) - 1 else (%s)))" % (
            rel(dtx("1", "0"), "d2d(X(self, 1), Y(self, 1), X(self, 0), Y(self, 0))", v), i,
            rel(dtx(i, "%s - 1" % i), "d2d(X(self, %s), Y(self, %s), X(self, %s - 1), Y(self, %s - 1))" % (i, i, i, i), v), i,
            rel(dtx("%s + 1" % i, "%s - 1" % i), "d2d(X(self, %s + 1), Y(self, %s + 1), X(self, %s - 1), Y(self, %s - 1))" % (i, i, i, i), v)))

    def dsrel(v, i):
        return "(not isnan(%s) and %s >= 0 and (%s == 0 if %s == 0 else %s == %s))" % (v, v, v, i, v, leg("self", i))
    s_ = dict(t="self")
    for variant, fn, relf, extra, namekind in (("ds", A + "ds", dsrel, [], "str"), ("speed", A + "speed", speedrel, ["npts(self) >= 2", TIMES_OK % s_], None)):
        params = dict(self="Track")
        if namekind:
            params["name"] = namekind
        nm = "name" if namekind else "'speed'"
        reg.add(Spec(T + "addAnalyticalFeature", params, "list[float]", bind=dict(algorithm=fn),
                     requires=["twf(self)", COORDS_OK % s_] + ([("not reserved(name)")] if namekind else []) + extra,
                     raises={"AnalyticalFeatureError": "npts(self) <= 0 and not hasname(self, %s)" % nm},
                     modifies=["Obs.features", "Track." + DICO], fresh=["ENUCoords"],
                     ensures=[("wf", "twf(self)"),
                              ("listed", "hasname(self, %s)" % nm),
                              ("names", "all(implies(k != %s, hasname(self, k) == old(hasname(self, k))) for k in strs)" % nm),
                              ("values", "all(%s for r in range(0, npts(self)))" % relf("col(self, %s, r)" % nm, "r")),
                              ("returned", "len(result) == npts(self) and all(same(result[r], col(self, %s, r)) for r in range(0, npts(self)))" % nm),
                              ("other-columns", ALLCOLS_SAME % nm),
                              ("other-observations", OTHER_OBS % s_),
                              ("other-tracks", "all(implies(r != self, same(r.%s, old(r.%s))) for r in refs(Track))" % (DICO, DICO))],
                     loops={"1": LoopSpec(inv=[
                         "twf(self)", "hasname(self, name)", "idAF == colidx(self, name)",
                         "unchanged_old('ENUCoords.E', 'ENUCoords.N', 'ENUCoords.U')",
                         "unchanged_except('Track.%s', self)" % DICO,
                         "all(implies(k != name, hasname(self, k) == old(hasname(self, k))) for k in strs)",
                         "all(%s for r in range(0, i))" % relf("cell(self, r, idAF)", "r"),
                         ALLCOLS_SAME % "name",
                         OTHER_OBS % s_])}), variant=variant)


    reg.auto_inline |= {T + "operate"}
    reg.add(Spec(CIN + "estimate_speed", dict(track="Track"), "list[float]",
                 requires=["twf(track)", "npts(track) >= 2", COORDS_OK % t, TIMES_OK % t, "not hasname(track, 'speed')"],
                 modifies=["Obs.features", "Track." + DICO], fresh=["ENUCoords"],
                 ensures=[("wf", "twf(track)"),
                          ("speed-values", "all(%s for r in range(0, npts(track)))" % speedrel("result[r]", "r").replace("self", "track")),
                          ("stored", "hasname(track, 'speed') and len(result) == npts(track) and "
                           "all(same(result[r], col(track, 'speed', r)) for r in range(0, npts(track)))"),
                          ("other-columns", (ALLCOLS_SAME % "'speed'").replace("self", "track")),
                          ("other-observations", OTHER_OBS % t)]))

    reg.add(Spec(CIN + "computeAbsCurv", dict(track="Track"), "list[float]",
                 requires=["twf(track)", "npts(track) >= 1", COORDS_OK % t,
                           "not hasname(track, 'ds')", "not hasname(track, 'abs_curv')"],
                 modifies=["Obs.features", "Track." + DICO], fresh=["ENUCoords"],
                 ensures=[("wf", "twf(track)"),
                          ("length", "len(result) == npts(track)"),
                          ("starts-at-zero", "result[0] == 0"),
                          ("grows-by-leg-length", "all(not isnan(result[r]) and result[r] == result[r - 1] + %s for r in range(1, npts(track)))" % leg("track", "r")),
                          ("never-decreases", "all(result[r] >= result[r - 1] for r in range(1, npts(track)))"),
                          ("stored", "hasname(track, 'abs_curv') and all(same(result[r], col(track, 'abs_curv', r)) for r in range(0, npts(track)))"),
                          ("temporary-removed", "not hasname(track, 'ds')"),
                          ("names", "all(implies(k != 'abs_curv' and k != 'ds', hasname(track, k) == old(hasname(track, k))) for k in strs)"),
                          ("other-columns", "all(implies(hasname(track, k) and k != 'abs_curv', all(same(col(track, k, i), old(col(track, k, i))) "
                           "for i in range(0, npts(track)))) for k in strs)"),
                          ("other-observations", OTHER_OBS % t)]))


FUNCTIONS = ["tracklib.core.obs_coords:ENUCoords.distance2DTo", "tracklib.core.obs:Obs.distance2DTo", A + "ds", A + "speed",
             OPS + "Integrator.execute", T + "addAnalyticalFeature@ds", T + "addAnalyticalFeature@speed",
             CIN + "estimate_speed", CIN + "computeAbsCurv"]
ASSUMPTIONS = ["positions are ENUCoords objects with non-NaN E, N; timestamps well-formed (C03)",
               "math.sqrt: r >= 0 and r*r == x (trusted axiom)"]
