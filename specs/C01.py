"""C01 — the feature table stays aligned with the observations: contracts of the Track feature-table ADT.
The contracts themselves live in specs/track_model.py (shared with the properties that call these methods)."""
from specs import track_model


def register(reg):
    track_model.register(reg)


FUNCTIONS = list(track_model.FUNCTIONS)
ASSUMPTIONS = ["observations of a track are pairwise distinct objects (part of twf; a track built as t + t shares objects)",
               "feature values are floats (A-REAL)"]
