"""C12 — optimal partitioning returns a global optimum for the requested direction.

Certificate pattern: the interval DP of optimalPartition is proved to establish, for all candidates a < b,
  GOOD  D[a,b] is at least as good as the direct cost C[a,b],
  TRI   D[a,b] is at least as good as D[a,k] + D[k,b] for every a < k < b,
  TIGHT D[a,b] is attained: either C[a,b] (M[a,b] = -1) or D[a,m] + D[m,b] with m = M[a,b] strictly between.
Lemma optimal-over-all-lists (induction on the length of an arbitrary strictly increasing list p): GOOD and TRI
imply cost(p) is no better than D[p[0], p[last]].  backtracking is proved (recursive contract, ghost D and C) to
return a strictly increasing list from i whose cost, closed with j, is D[i,j]."""
import z3
from pyvc.kinds import *
from pyvc.values import *
from pyvc.symexec import Spec, LoopSpec

S = "tracklib.algo.segmentation:"
DEPENDS = []

C_ = "cost_matrix"


def better(a, b):
    return "((%s) <= (%s) if mode == 0 else (%s) >= (%s))" % (a, b, a, b)


SHAPES = "D.shape[0] == N and D.shape[1] == N and M.shape[0] == N and M.shape[1] == N"
CELLS = "for a in range(0, N) for b in range(0, N)"


def good():
    return "all(implies(a < b, not isnan(D[a, b]) and %s) %s)" % (better("D[a, b]", C_ + "[a, b]"), CELLS)


def tri(cond):
    return ("all(implies(a < b and (%s), all(%s for k in range(a + 1, b))) %s)"
            % (cond, better("D[a, b]", "D[a, k] + D[k, b]"), CELLS))


def tight():
    return ("all(implies(a < b, (M[a, b] == -1 and D[a, b] == %s[a, b]) or (M[a, b] == int(M[a, b]) and a < M[a, b] and M[a, b] < b "
            "and D[a, b] == D[a, int(M[a, b])] + D[int(M[a, b]), b])) %s)" % (C_, CELLS))


def untouched(cond):
    return "all(implies(a <= b and (%s), not isnan(D[a, b]) and D[a, b] == %s[a, b] and M[a, b] == -1) %s)" % (cond, C_, CELLS)


def register(reg):
    reg.add(Spec(S + "optimalPartition", dict(cost_matrix="arr2[float]", mode="int"), "list[int]",
                 cases=dict(minimize="mode == 0", maximize="mode == 1"),
                 requires=["cost_matrix.shape[0] == cost_matrix.shape[1]", "cost_matrix.shape[0] >= 3", "mode == 0 or mode == 1",
                           "all(not isnan(cost_matrix[a, b]) for a in range(0, cost_matrix.shape[0]) for b in range(0, cost_matrix.shape[0]))"],
                 loops={
                     "1": LoopSpec(inv=[SHAPES, untouched("a < i")]),
                     "1.1": LoopSpec(inv=[SHAPES, untouched("a < i or (a == i and b < j)")]),
                     "2": LoopSpec(inv=[SHAPES, good(), tight(), tri("b - a < diag"), untouched("b - a >= diag")]),
                     "2.1": LoopSpec(inv=[SHAPES, good(), tight(), tri("b - a < diag or (b - a == diag and a < i)"),
                                          untouched("b - a > diag or (b - a == diag and a >= i)")],
                                     # (hints see the loop index already advanced: the row just finished is i - 1)
                                     hints=["all(implies(a == i - 1 and b == a + diag, all(%s for q in range(a + 1, b))) %s)"
                                            % (better("D[a, b]", "D[a, q] + D[q, b]"), CELLS)]),
                     "2.1.1": LoopSpec(inv=[SHAPES, good(), tight(), tri("b - a < diag or (b - a == diag and a < i)"),
                                            untouched("b - a > diag or (b - a == diag and a > i)"),
                                            # the cell being minimised, stated over (a, b) with arithmetic guards so that
                                            # instantiation never depends on an equality the arithmetic solver derives
                                            "all(implies(a == i and b == j, all(%s for q in range(a + 1, k))) %s)"
                                            % (better("D[a, b]", "D[a, q] + D[q, b]"), CELLS)])},
                 ensures=[("bellman:as-good-as-the-direct-cost", good()),
                          ("bellman:as-good-as-every-split", tri("True")),
                          ("bellman:attained", tight())]))


FUNCTIONS = [S + "optimalPartition"]
ASSUMPTIONS = ["cost matrix entries are not NaN; at least two break candidates"]


# ---------------------------------------------------------------------------- path cost, lemmas, backtracking
_A2 = z3.ArraySort(z3.IntSort(), z3.IntSort(), z3.RealSort())
_L = z3.ArraySort(z3.IntSort(), z3.IntSort())
PC = z3.Function("pathcost", _A2, _L, z3.IntSort(), z3.RealSort())


def ax_pathcost():
    c, l, n = z3.Const("c!p", _A2), z3.Const("l!p", _L), z3.Int("n!p")
    return [z3.ForAll([c, l, n], z3.Implies(n <= 1, PC(c, l, n) == 0), patterns=[PC(c, l, n)]),
            z3.ForAll([c, l, n], z3.Implies(n >= 2, PC(c, l, n) == PC(c, l, n - 1) + z3.Select(c, z3.Select(l, n - 2), z3.Select(l, n - 1))),
                      patterns=[PC(c, l, n)])]


def _cost_arr(c):
    if not isinstance(c.kind, KArr2):
        raise OutOfSubset("pathcost over %r" % (c.kind,))
    return c.terms[3] if isinstance(c.kind.elem, KFloat) else c.terms[2]


def sf_pathcost(ex, st, c, l, n):
    """sum of c[l[t], l[t+1]] for t < n-1"""
    return vfloat(PC(_cost_arr(c), l.terms[1], to_int(n)))


def z_prefix(c, X, Y, n):
    t = z3.Int(uid("pt"))
    return z3.Implies(z3.ForAll([t], z3.Implies(z3.And(0 <= t, t < n), z3.Select(X, t) == z3.Select(Y, t))),
                      PC(c, X, n) == PC(c, Y, n))


def z_concat(c, X, A, na, B, nb):
    t = z3.Int(uid("ct"))
    return z3.Implies(z3.And(na >= 1, nb >= 1,
                             z3.ForAll([t], z3.Implies(z3.And(0 <= t, t < na), z3.Select(X, t) == z3.Select(A, t))),
                             z3.ForAll([t], z3.Implies(z3.And(0 <= t, t < nb), z3.Select(X, na + t) == z3.Select(B, t)))),
                      PC(c, X, na + nb) == PC(c, A, na) + z3.Select(c, z3.Select(A, na - 1), z3.Select(B, 0)) + PC(c, B, nb))


def sf_pc_concat(ex, st, c, X, A, B):
    """instance of lemma pathcost-concat (proved by induction in lemmas())"""
    return vbool(z_concat(_cost_arr(c), X.terms[1], A.terms[1], A.terms[0], B.terms[1], B.terms[0]))


def sf_pc_prefix(ex, st, c, X, Y, n):
    return vbool(z_prefix(_cost_arr(c), X.terms[1], Y.terms[1], to_int(n)))


def z_better(mode, a, b):
    return z3.If(mode == 0, a <= b, a >= b)


def z_goodtri(c, d, N, mode):
    a, b, k = z3.Int(uid("oa")), z3.Int(uid("ob")), z3.Int(uid("ok"))
    g = z3.ForAll([a, b], z3.Implies(z3.And(0 <= a, a < b, b < N), z_better(mode, z3.Select(d, a, b), z3.Select(c, a, b))))
    t = z3.ForAll([a, b, k], z3.Implies(z3.And(0 <= a, a < k, k < b, b < N),
                                        z_better(mode, z3.Select(d, a, b), z3.Select(d, a, k) + z3.Select(d, k, b))))
    return z3.And(g, t)


def z_increasing(p, n, N):
    """p[0..n) is a strictly increasing list of candidates (stated pairwise: s < t -> p[s] < p[t], which for a
    list is the same thing as p[t] < p[t+1] for all t and spares an induction)"""
    t, s = z3.Int(uid("it")), z3.Int(uid("is"))
    return z3.And(z3.ForAll([t], z3.Implies(z3.And(0 <= t, t < n), z3.And(0 <= z3.Select(p, t), z3.Select(p, t) < N))),
                  z3.ForAll([s, t], z3.Implies(z3.And(0 <= s, s < t, t < n), z3.Select(p, s) < z3.Select(p, t))))


def z_optimal(c, d, N, mode):
    p, n = z3.Const(uid("op"), _L), z3.Int(uid("on"))
    return z3.ForAll([p, n], z3.Implies(z3.And(n >= 2, z_increasing(p, n, N)),
                                        z_better(mode, z3.Select(d, z3.Select(p, 0), z3.Select(p, n - 1)), PC(c, p, n))))


def sf_opt_lemma(ex, st, c, d, N, mode):
    """instance of lemma optimal-over-all-lists: GOOD and TRI imply that no increasing list beats D"""
    cv, dv = _cost_arr(c), _cost_arr(d)
    return vbool(z3.Implies(z_goodtri(cv, dv, to_int(N), to_int(mode)), z_optimal(cv, dv, to_int(N), to_int(mode))))


def sf_goodtri(ex, st, c, d, N, mode):
    """premise of lemma optimal-over-all-lists, in exactly the lemma's own form"""
    return vbool(z_goodtri(_cost_arr(c), _cost_arr(d), to_int(N), to_int(mode)))


def sf_lists_bounded(ex, st, c, d, N, mode):
    """conclusion of lemma optimal-over-all-lists, in exactly the lemma's own form"""
    return vbool(z_optimal(_cost_arr(c), _cost_arr(d), to_int(N), to_int(mode)))


def sf_no_list_better(ex, st, c, l, N, mode):
    """every strictly increasing list of candidates from 0 to N-1 costs no better than the list l"""
    cv = _cost_arr(c)
    p, n = z3.Const(uid("np"), _L), z3.Int(uid("nn"))
    N, mode = to_int(N), to_int(mode)
    return vbool(z3.ForAll([p, n], z3.Implies(z3.And(n >= 2, z_increasing(p, n, N), z3.Select(p, 0) == 0, z3.Select(p, n - 1) == N - 1),
                                              z_better(mode, PC(cv, l.terms[1], l.terms[0]), PC(cv, p, n)))))


def lemmas(reg):
    c, d = z3.Const("c!L", _A2), z3.Const("d!L", _A2)
    X, Y, A, B, p = [z3.Const(n + "!L", _L) for n in "XYABp"]
    n, na, nb, m, N, mode = z3.Ints("n!L na!L nb!L m!L N!L mode!L")
    ax = ax_pathcost()
    t = z3.Int("t!L")
    agree = lambda k: z3.ForAll([t], z3.Implies(z3.And(0 <= t, t < k), z3.Select(X, t) == z3.Select(Y, t)))
    out = [("pathcost-prefix:base", ax + [n <= 1], PC(c, X, n) == PC(c, Y, n)),
           ("pathcost-prefix:step", ax + [n >= 1, agree(n + 1), z3.Implies(agree(n), PC(c, X, n) == PC(c, Y, n))],
            PC(c, X, n + 1) == PC(c, Y, n + 1))]
    # concat, induction on m = number of elements of B taken
    x1, x2 = z3.Const("x1!L", _L), z3.Const("x2!L", _L)
    prefix_all = z3.ForAll([x1, x2, n], z_prefix(c, x1, x2, n))
    agreeA = z3.ForAll([t], z3.Implies(z3.And(0 <= t, t < na), z3.Select(X, t) == z3.Select(A, t)))
    agreeB = z3.ForAll([t], z3.Implies(z3.And(0 <= t, t < nb), z3.Select(X, na + t) == z3.Select(B, t)))
    stmt = lambda k: PC(c, X, na + k) == PC(c, A, na) + z3.Select(c, z3.Select(A, na - 1), z3.Select(B, 0)) + PC(c, B, k)
    out += [("pathcost-concat:base", ax + [na >= 1, nb >= 1, agreeA, agreeB, z_prefix(c, X, A, na)], stmt(1)),
            ("pathcost-concat:step", ax + [na >= 1, m >= 1, m < nb, agreeA, agreeB, stmt(m)], stmt(m + 1))]
    # optimality, induction on the length of the list
    inc = lambda k: z_increasing(p, k, N)
    opt = lambda k: z_better(mode, z3.Select(d, z3.Select(p, 0), z3.Select(p, k - 1)), PC(c, p, k))
    gt = z_goodtri(c, d, N, mode)
    out += [("optimal-over-all-lists:base", ax + [gt, inc(2), z3.Or(mode == 0, mode == 1)], opt(2)),
            ("optimal-over-all-lists:step", ax + [gt, n >= 2, inc(n + 1), z3.Or(mode == 0, mode == 1), opt(n)], opt(n + 1))]
    return out


def tightB():
    return ("all(implies(i <= a and a < b and b <= j, (B[a, b] < 0 and D[a, b] == C[a, b]) or (B[a, b] >= 0 and B[a, b] == int(B[a, b]) "
            "and a < B[a, b] and B[a, b] < b and D[a, b] == D[a, int(B[a, b])] + D[int(B[a, b]), b])) "
            "for a in range(0, B.shape[0]) for b in range(0, B.shape[0]))")


def register2(reg):
    reg.specfuncs.update(pathcost=sf_pathcost, pc_concat=sf_pc_concat, pc_prefix=sf_pc_prefix, opt_lemma=sf_opt_lemma,
                         no_list_better=sf_no_list_better, goodtri=sf_goodtri, lists_bounded=sf_lists_bounded)
    reg.axioms.append(("pathcost", ax_pathcost))
    G = dict(C="arr2[float]", D="arr2[float]")
    SHP = ["B.shape[0] == B.shape[1]", "C.shape[0] >= B.shape[0] and C.shape[1] >= B.shape[0]", "D.shape[0] == B.shape[0] and D.shape[1] == B.shape[0]",
           "all(implies(a < b, not isnan(B[a, b]) and not isnan(D[a, b]) and not isnan(C[a, b])) for a in range(0, B.shape[0]) for b in range(0, B.shape[0]))"]
    ADJ = "all(implies(a + 1 < B.shape[0], D[a, a + 1] == C[a, a + 1]) for a in range(0, B.shape[0]))"
    reg.add(Spec(S + "backtracking", dict(B="arr2[float]", i="int", j="int"), "list[int]", ghost=G, decreases="j - i",
                 requires=SHP + ["0 <= i and i <= j and j < B.shape[0]", tightB(), ADJ],
                 hints=["use implies(not (B[i, j] < 0 or abs(i - j) <= 1), pc_concat(C, ret1_backtracking + [id], ret1_backtracking, [id]))",
                        "use implies(not (B[i, j] < 0 or abs(i - j) <= 1), pc_concat(C, result + [j], ret1_backtracking, ret2_backtracking + [j]))",
                        ("left-part", "implies(not (B[i, j] < 0 or abs(i - j) <= 1), pathcost(C, ret1_backtracking + [id], len(ret1_backtracking) + 1) == D[i, id])"),
                        ("right-part", "implies(not (B[i, j] < 0 or abs(i - j) <= 1), pathcost(C, ret2_backtracking + [j], len(ret2_backtracking) + 1) == D[id, j])"),
                        ("left-snoc", "implies(not (B[i, j] < 0 or abs(i - j) <= 1), pathcost(C, ret1_backtracking + [id], len(ret1_backtracking) + 1) == "
                         "pathcost(C, ret1_backtracking, len(ret1_backtracking)) + C[ret1_backtracking[len(ret1_backtracking) - 1], id])"),
                        ("whole", "implies(not (B[i, j] < 0 or abs(i - j) <= 1), pathcost(C, result + [j], len(result) + 1) == "
                         "pathcost(C, ret1_backtracking, len(ret1_backtracking)) + C[ret1_backtracking[len(ret1_backtracking) - 1], id] + "
                         "pathcost(C, ret2_backtracking + [j], len(ret2_backtracking) + 1))"),
                        ("split-is-tight", "implies(not (B[i, j] < 0 or abs(i - j) <= 1), D[i, j] == D[i, id] + D[id, j])"),
                        ("leaf", "implies(i < j and (B[i, j] < 0 or abs(i - j) <= 1), pathcost(C, result + [j], len(result) + 1) == D[i, j])"),
                        ("recursive", "implies(not (B[i, j] < 0 or abs(i - j) <= 1), pathcost(C, result + [j], len(result) + 1) == D[i, j])")],
                 ensures=[("non-empty-starting-at-i", "len(result) >= 1 and result[0] == i"),
                          ("strictly-increasing", "all(result[t] < result[t + 1] for t in range(0, len(result) - 1))"),
                          ("within-the-interval", "all(i <= result[t] and (result[t] < j or i == j) for t in range(0, len(result)))"),
                          ("cost-closed-with-j-is-D", "implies(i < j, pathcost(C, result + [j], len(result) + 1) == D[i, j])")]))
    reg.add(Spec(S + "backward", dict(B="arr2[float]"), "list[int]", ghost=G,
                 requires=SHP + ["B.shape[0] >= 2", tightB().replace("i <= a", "0 <= a").replace("b <= j", "b <= B.shape[0] - 1"), ADJ],
                 ghost_calls={"backtracking": {"C": "C", "D": "D"}},
                 ensures=[("from-first-to-last-candidate", "len(result) >= 2 and result[0] == 0 and result[len(result) - 1] == B.shape[0] - 1"),
                          ("strictly-increasing", "all(result[t] < result[t + 1] for t in range(0, len(result) - 1))"),
                          ("candidates", "all(0 <= result[t] and result[t] < B.shape[0] for t in range(0, len(result)))"),
                          ("cost-is-D", "pathcost(C, result, len(result)) == D[0, B.shape[0] - 1]")]))


_register1 = register


def register(reg):  # noqa: F811
    _register1(reg)
    register2(reg)
    sp = reg.specs[S + "optimalPartition"]
    sp.ghost_calls = {"backward": {"C": "cost_matrix", "D": "D"}}
    sp.hints = [("lemma-premise", "goodtri(cost_matrix, D, N, mode)"),
                "use opt_lemma(cost_matrix, D, N, mode)",
                ("lemma-conclusion", "lists_bounded(cost_matrix, D, N, mode)")]
    sp.ensures += [("from-first-to-last-candidate", "len(result) >= 2 and result[0] == 0 and result[len(result) - 1] == N - 1"),
                   ("strictly-increasing", "all(result[t] < result[t + 1] for t in range(0, len(result) - 1))"),
                   ("cost-is-the-dp-value", "pathcost(cost_matrix, result, len(result)) == D[0, N - 1]"),
                   ("no-other-list-is-better", "no_list_better(cost_matrix, result, N, mode)")]


FUNCTIONS = [S + "optimalPartition", S + "backtracking", S + "backward"]
