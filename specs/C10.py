"""C10 — map-matched positions lie on a real edge within the search radius.

Deductive core: mapping.__distToNode -- the distances from the matched point to the edge's two end nodes measured
along the edge -- against its definition over the edge's curvilinear abscissa, and lemma on-segment-split: for a
point on segment i of the geometry the two distances add up to the last abscissa, i.e. to the edge's planimetric
length (abs_curv is proved cumulative by C17's computeAbsCurv contract).  The matching loop itself (candidate
search, projection, HMM decoding: contracts of C08 / C20 / C09) is composed by the bounded stand-in only."""
import z3
from pyvc.kinds import *
from pyvc.values import *
from pyvc.symexec import Spec, LoopSpec
from specs import track_model, C17

Q = "tracklib.algo.mapping:"
DEPENDS = []


def register(reg):
    C17.register(reg)
    AC = "col(track, 'abs_curv', %s)"
    reg.add(Spec(Q + "__distToNode", dict(track="Track", coord="ENUCoords", i="int", end="int"), "opt[float]",
                 requires=["twf(track)", "hasname(track, 'abs_curv')", "0 <= i and i + 1 < npts(track)",
                           "not isnan(coord.E) and not isnan(coord.N)",
                           "all(not isnan(X(track, r)) and not isnan(Y(track, r)) for r in range(0, npts(track)))"],
                 fresh=["ENUCoords"],
                 ensures=[("to-the-source-node-along-the-edge",
                           "implies(end == 0, result is not None and same(result, %s + d2d(X(track, i), Y(track, i), coord.E, coord.N)))" % (AC % "i")),
                          ("to-the-target-node-along-the-edge",
                           "implies(end == 1, result is not None and same(result, %s - %s + d2d(X(track, i + 1), Y(track, i + 1), coord.E, coord.N)))"
                           % (AC % "npts(track) - 1", AC % "(i + 1)"))]))


def lemmas(reg):
    """on-segment-split: P = A + s (B - A), 0 <= s <= 1  ==>  |AP| + |PB| = |AB|   (distances as non-negative square roots)"""
    ax, ay, bx, by, s, dAP, dPB, dAB = z3.Reals("ax ay bx by s dAP dPB dAB")
    px, py = ax + s * (bx - ax), ay + s * (by - ay)
    L2 = (bx - ax) * (bx - ax) + (by - ay) * (by - ay)
    hyp = [0 <= s, s <= 1, dAB >= 0, dAB * dAB == L2, dAP >= 0, dAP * dAP == (px - ax) * (px - ax) + (py - ay) * (py - ay),
           dPB >= 0, dPB * dPB == (bx - px) * (bx - px) + (by - py) * (by - py)]
    return [("on-segment-split:first-part", hyp, dAP * dAP == (s * dAB) * (s * dAB)),
            ("on-segment-split:second-part", hyp, dPB * dPB == ((1 - s) * dAB) * ((1 - s) * dAB)),
            ("on-segment-split", hyp + [dAP == s * dAB, dPB == (1 - s) * dAB], dAP + dPB == dAB),
            ("equal-squares-of-non-negatives", [dAP >= 0, s * dAB >= 0, dAP * dAP == (s * dAB) * (s * dAB)], dAP == s * dAB)]


FUNCTIONS = [Q + "__distToNode"]
ASSUMPTIONS = ["__distToNode: the edge geometry carries the feature abs_curv (computeAbsCurv, C17); positions are ENU without NaN",
               "__mapOnNetwork's loop (neighbourhood candidates, projection, radius test, HMM decoding) is bounded only",
               "math.sqrt: r >= 0 and r*r == x (trusted axiom)"]
