"""C10 — map-matched positions lie on a real edge within the search radius.

Deductive core: mapping.__distToNode -- the distances from the matched point to the edge's two end nodes measured
along the edge -- against its definition over the edge's curvilinear abscissa, and lemma on-segment-split: for a
point on segment i of the geometry the two distances add up to the last abscissa, i.e. to the edge's planimetric
length (abs_curv is proved cumulative by C17's computeAbsCurv contract).

The candidate loop of __mapOnNetwork is a REGION contract: for every observation a non-empty row of states; every state
is either the unmatched marker (own position, -1, -1, -1), alone in its row, or (p, e, d0, d1) with e an edge position
returned by the spatial index, p the nearest point of a non-degenerate segment v of that edge's geometry to the
observation (contract of mapping.__projOnTrack, C20), at squared distance < search_radius^2, and d0 / d1 the
distances to the edge's end nodes given by __distToNode for that segment.  HMM decoding (C09) is composed by the
bounded stand-in only."""
import z3
from pyvc.kinds import *
from pyvc.values import *
from pyvc.symexec import Spec, LoopSpec
from specs import track_model, C17

Q = "tracklib.algo.mapping:"
DEPENDS = []


def register(reg):
    C17.register(reg)
    AC = "col(track, 'abs_curv', %s)"
    reg.add(Spec(Q + "__distToNode", dict(track="Track", coord="ENUCoords", i="int", end="int"), "opt[float]",
                 requires=["twf(track)", "hasname(track, 'abs_curv')", "0 <= i and i + 1 < npts(track)",
                           "not isnan(coord.E) and not isnan(coord.N)",
                           "all(not isnan(X(track, r)) and not isnan(Y(track, r)) for r in range(0, npts(track)))"],
                 fresh=["ENUCoords"],
                 ensures=[("to-the-source-node-along-the-edge",
                           "implies(end == 0, result is not None and same(result, %s + d2d(X(track, i), Y(track, i), coord.E, coord.N)))" % (AC % "i")),
                          ("to-the-target-node-along-the-edge",
                           "implies(end == 1, result is not None and same(result, %s - %s + d2d(X(track, i + 1), Y(track, i + 1), coord.E, coord.N)))"
                           % (AC % "npts(track) - 1", AC % "(i + 1)"))]))

    # ---------------------------------------------------------------- the candidate loop of __mapOnNetwork (REGION)
    # For every observation: the candidate states.  Each state is (matched point, edge position, distance to the edge's
    # source node, distance to its target node); the unmatched marker (own position, -1, -1, -1) is used only when no
    # candidate passed the radius test.  The spatial index is opaque here (trusted, C08 proves its coverage separately): it
    # returns positions of edges of the network (predicate edgepos).
    from specs import C20
    C20.register(reg)
    reg.field("Network", "EDGES", "dict[any,Edge]")
    reg.field("Network", "_Network__idx_edges", "list[any]")
    reg.field("Network", "spatial_index", "SpatialIndex")
    reg.field("SpatialIndex", "csize", "int")
    reg.field("SpatialIndex", "lsize", "int")
    reg.field("Edge", "geom", "Track")
    reg.auto_inline |= {"tracklib.core.network:Network.getEdgeId"}
    EDGEPOS = z3.Function("edgepos", z3.IntSort(), z3.BoolSort())
    reg.specfuncs["edgepos"] = lambda ex, st, n: vbool(EDGEPOS(to_int(n)))
    reg.add(Spec("tracklib.core.spatial_index:SpatialIndex.neighborhood", dict(self="SpatialIndex", obj="ENUCoords", unit="int"), "list[int]",
                 trusted=True, fresh=["ENUCoords"],
                 ensures=["all(edgepos(result[q]) for q in range(0, len(result)))"]))
    G_ = "network.EDGES[network._Network__idx_edges[%s]].geom"
    n = "npts(track)"

    def seg(g, k, i):
        return "X(%(g)s, %(k)s), Y(%(g)s, %(k)s), X(%(g)s, %(k)s + 1), Y(%(g)s, %(k)s + 1), X(track, %(i)s), Y(track, %(i)s)" % dict(g=g, k=k, i=i)

    def nonskip(g, k):
        return "(abs(X(%(g)s, %(k)s) - X(%(g)s, %(k)s + 1)) + abs(Y(%(g)s, %(k)s) - Y(%(g)s, %(k)s + 1)) >= 1e-16)" % dict(g=g, k=k)
    GE = G_ % "e_"
    GEOM_OK = ("all(implies(edgepos(e_), 0 <= e_ and e_ < len(network._Network__idx_edges) and network._Network__idx_edges[e_] in network.EDGES and "
               "twf(%(g)s) and hasname(%(g)s, 'abs_curv') and npts(%(g)s) >= 2 and %(g)s is not track and "
               "all(not isnan(X(%(g)s, r)) and not isnan(Y(%(g)s, r)) for r in range(0, npts(%(g)s))) and "
               "any(%(ns)s for k in range(0, npts(%(g)s) - 1))) for e_ in ints)") % dict(g=GE, ns=nonskip(GE, "k"))
    BOUNDED = ("all(implies(edgepos(e_) and %s, d2seg(%s) < 1e300 * 1e300) for e_ in ints for r in range(0, %s) for k in range(0, npts(%s) - 1))"
               % (nonskip(GE, "k"), seg(GE, "k", "r"), n, GE))
    ST = "STATES[%s][%s]"
    GS = G_ % (ST % ("I0", "C0") + "[1]")

    def matched_at(I, C):
        s = ST % (I, C)
        v = "VS_[%s][%s]" % (I, C)
        g = G_ % (s + "[1]")
        return ("edgepos(%(s)s[1]) and 0 <= %(v)s and %(v)s < npts(%(g)s) - 1 and %(ns)s and "
                "%(s)s[0].E == nearx(%(sg)s) and %(s)s[0].N == neary(%(sg)s) and d2seg(%(sg)s) < search_radius * search_radius and "
                "%(s)s[2] is not None and same(%(s)s[2], col(%(g)s, 'abs_curv', %(v)s) + d2d(X(%(g)s, %(v)s), Y(%(g)s, %(v)s), %(s)s[0].E, %(s)s[0].N)) and "
                "%(s)s[3] is not None and same(%(s)s[3], col(%(g)s, 'abs_curv', npts(%(g)s) - 1) - col(%(g)s, 'abs_curv', %(v)s + 1) + "
                "d2d(X(%(g)s, %(v)s + 1), Y(%(g)s, %(v)s + 1), %(s)s[0].E, %(s)s[0].N))") % dict(s=s, v=v, g=g, ns=nonskip(g, v), sg=seg(g, v, I))

    def cand(rows, extra="True"):
        s = ST % ("I0", "C0")
        v = "VS_[I0][C0]"
        matched = ("edgepos(%(s)s[1]) and 0 <= %(v)s and %(v)s < npts(%(g)s) - 1 and %(ns)s and "
                   "%(s)s[0].E == nearx(%(sg)s) and %(s)s[0].N == neary(%(sg)s) and d2seg(%(sg)s) < search_radius * search_radius and "
                   "%(s)s[2] is not None and same(%(s)s[2], col(%(g)s, 'abs_curv', %(v)s) + d2d(X(%(g)s, %(v)s), Y(%(g)s, %(v)s), %(s)s[0].E, %(s)s[0].N)) and "
                   "%(s)s[3] is not None and same(%(s)s[3], col(%(g)s, 'abs_curv', npts(%(g)s) - 1) - col(%(g)s, 'abs_curv', %(v)s + 1) + "
                   "d2d(X(%(g)s, %(v)s + 1), Y(%(g)s, %(v)s + 1), %(s)s[0].E, %(s)s[0].N))") % dict(s=s, v=v, g=GS, ns=nonskip(GS, v), sg=seg(GS, v, "I0"))
        unmatched = "%(s)s[1] == -1 and %(s)s[0] is obs(track, I0).position and len(STATES[I0]) == 1" % dict(s=s)
        return "implies(0 <= I0 and I0 < %s and 0 <= C0 and C0 < len(STATES[I0]) and (%s), (%s) or (%s))" % (rows, extra, unmatched, matched)
    SHAPE = ("len(VS_) == len(STATES) and all(len(VS_[r]) == len(STATES[r]) for r in range(0, len(STATES))) and "
             "all(isold(STATES[r][c][0]) for r in range(0, len(STATES)) for c in range(0, len(STATES[r])))")
    KEEP = "unchanged_old_class('ENUCoords') and unchanged_old_class('Obs') and unchanged_old_class('Track') and unchanged_old_class('Edge') and unchanged_old_class('Network')"
    SK = "tuple[ENUCoords,int,opt[float],opt[float]]"
    reg.add(Spec(Q + "__mapOnNetwork", dict(track="Track", network="Network", STATES="list[list[%s]]" % SK, search_radius="float"), "none",
                 ghost=dict(I0="int", C0="int", VS_="list[list[int]]", E0="list[int]"),
                 region=("for i in to_run:", "model = HMM()"), let=dict(to_run="range(len(track))", debug="False"),
                 requires=["len(STATES) == 0", "len(VS_) == 0", "len(E0) == 0", "twf(track)", "not isnan(search_radius) and search_radius > 0",
                           "network.spatial_index.csize > 0 and network.spatial_index.lsize > 0",
                           "all(not isnan(X(track, r)) and not isnan(Y(track, r)) for r in range(0, %s))" % n,
                           GEOM_OK, BOUNDED],
                 fresh=["ENUCoords"],
                 at={"STATES.append([])": ["ghost VS_ = VS_ + [E0]", ("earlier-rows-kept", cand("i"))],
                     "(p, d, v) = __projOnTrack(track[i].position, eg)": ["use sq_mono(d, search_radius)",
                                                                            ("candidates-kept-by-the-projection", cand("i + 1"))],
                     "STATES[-1].append((p, elem, __distToNode(eg, p, v, 0), __distToNode(eg, p, v, 1)))": [
                         "ghost VS_[len(VS_) - 1] = VS_[len(VS_) - 1] + [v]",
                         ("shape-after-the-new-candidate", "len(STATES) == i + 1 and " + SHAPE),
                         ("the-new-candidate", matched_at("i", "(len(STATES[i]) - 1)")),
                         ("earlier-candidates-kept", "all(STATES[i][c][1] != -1 for c in range(0, len(STATES[i])))"),
                         ("candidates-of-earlier-observations-kept", cand("i + 1", "I0 < i")),
                         ("earlier-candidates-of-this-observation-kept", cand("i + 1", "I0 == i and C0 < len(STATES[i]) - 1")),
                         ("all-candidates-so-far", cand("i + 1"))],
                     "STATES[-1].append((track[i].position, -1, -1, -1))": ["ghost VS_[len(VS_) - 1] = VS_[len(VS_) - 1] + [-1]"]},
                 loops={"1": LoopSpec(inv=["len(STATES) == i", SHAPE, "all(len(STATES[r]) >= 1 for r in range(0, i))", cand("i"), KEEP]),
                        "1.1": LoopSpec(inv=["len(STATES) == i + 1", SHAPE, "all(len(STATES[r]) >= 1 for r in range(0, i))", cand("i + 1"),
                                             "all(STATES[i][c][1] != -1 for c in range(0, len(STATES[i])))", KEEP])},
                 ensures=[("one-row-of-states-per-observation", "len(STATES) == %s and all(len(STATES[r]) >= 1 for r in range(0, %s))" % (n, n)),
                          ("every-state-is-a-point-of-an-edge-within-the-radius-or-the-unmatched-marker", cand(n))]))


def lemmas(reg):
    """on-segment-split: P = A + s (B - A), 0 <= s <= 1  ==>  |AP| + |PB| = |AB|   (distances as non-negative square roots)"""
    ax, ay, bx, by, s, dAP, dPB, dAB = z3.Reals("ax ay bx by s dAP dPB dAB")
    px, py = ax + s * (bx - ax), ay + s * (by - ay)
    L2 = (bx - ax) * (bx - ax) + (by - ay) * (by - ay)
    hyp = [0 <= s, s <= 1, dAB >= 0, dAB * dAB == L2, dAP >= 0, dAP * dAP == (px - ax) * (px - ax) + (py - ay) * (py - ay),
           dPB >= 0, dPB * dPB == (bx - px) * (bx - px) + (by - py) * (by - py)]
    return [("on-segment-split:first-part", hyp, dAP * dAP == (s * dAB) * (s * dAB)),
            ("on-segment-split:second-part", hyp, dPB * dPB == ((1 - s) * dAB) * ((1 - s) * dAB)),
            ("on-segment-split", hyp + [dAP == s * dAB, dPB == (1 - s) * dAB], dAP + dPB == dAB),
            ("equal-squares-of-non-negatives", [dAP >= 0, s * dAB >= 0, dAP * dAP == (s * dAB) * (s * dAB)], dAP == s * dAB)]


FUNCTIONS = [Q + "__distToNode", Q + "__mapOnNetwork"]
ASSUMPTIONS = ["__distToNode: the edge geometry carries the feature abs_curv (computeAbsCurv, C17); positions are ENU without NaN",
               "__mapOnNetwork: the candidate loop is under contract as a REGION (from `for i in to_run:` to `model = HMM()`), debug = False; the "
               "statements before it (obs_noise feature, module globals STATES / net) and the HMM set-up and decoding after it are outside the region "
               "(decoding picks one listed candidate per epoch: C09)",
               "in that region SpatialIndex.neighborhood is an opaque TRUSTED contract: it returns positions of edges of the network (predicate edgepos); "
               "which edges it must return is C08's coverage theorem, not used here",
               "region preconditions: every edge position has an entry in EDGES whose geometry is a well-formed track of >= 2 numeric fixes carrying "
               "abs_curv, with a non-degenerate segment, distinct from the matched track; squared distances below 1e600; search radius > 0",
               "the region uses the contract of mapping.__projOnTrack / proj_polyligne / proj_segment (C20), whose [vertical] obligations are the KNOWN "
               "FINDING C20-vertical-segment: the statements about the matched point hold for edge geometries without vertical segments "
               "(with one, the real code returns a wrong foot or raises ZeroDivisionError: known finding C10-vertical-segment)",
               "HMM decoding and the several-tracks-per-call wrapper are bounded only",
               "math.sqrt: r >= 0 and r*r == x (trusted axiom)"]
