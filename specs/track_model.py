"""Shared class model of Track / Obs / ENUCoords and contracts of the Track feature-table ADT (C01).

Abstract state of a Track T (DESIGN §6 C01):
    pts  = T._Track__POINTS            list of Obs references
    dico = T._Track__analyticalFeaturesDico    name -> column index
    n = len(pts), m = len(dico)
twf(T) (representation invariant):
    the pts[i] are pairwise distinct objects; every pts[i].features has length m;
    dico maps its keys injectively into [0, m); no key is a reserved name (x y z t timestamp idx).
col(T, name, i) = pts[i].features[dico[name]].
"""
import z3
from pyvc.kinds import *
from pyvc.values import *
from pyvc.symexec import Spec, LoopSpec
from pyvc import strings, dicts

T = "tracklib.core.track:Track."
RESERVED = ["x", "y", "z", "t", "timestamp", "idx"]
PTS, DICO = "_Track__POINTS", "_Track__analyticalFeaturesDico"


def _deref(t):
    return opt_get(t) if isinstance(t.kind, KOpt) else t       # optional track used under a "not None" guard


def pts_of(ex, st, t):
    return ex.read_field(st, _deref(t), PTS)


def dico_of(ex, st, t):
    return ex.read_field(st, _deref(t), DICO)


def z_reserved(k):
    return z3.Or(*[k == strings.code(s) for s in RESERVED])


def sf_reserved(ex, st, name):
    return vbool(z_reserved(name.terms[0]))


def sf_pts(ex, st, t):
    return pts_of(ex, st, t)


def sf_npts(ex, st, t):
    return vint(pts_of(ex, st, t).terms[0])


def sf_nfeat(ex, st, t):
    return vint(dicts.D(dico_of(ex, st, t)).size)


def sf_dico(ex, st, t):
    return dico_of(ex, st, t)


def feats(ex, st, o):
    return ex.read_field(st, o, "features")


def sf_twf(ex, st, t):
    p = pts_of(ex, st, t)
    d = dicts.D(dico_of(ex, st, t))
    n, arr = p.terms[0], p.terms[1]
    i, j = z3.Int(uid("wi")), z3.Int(uid("wj"))
    k1, k2 = z3.Int(uid("wk")), z3.Int(uid("wk"))
    val = d.vals[0]
    oi = vref(z3.Select(arr, i), "Obs")
    fl = feats(ex, st, oi)
    # "the observations are pairwise distinct", in one of two equivalent forms: where the formula is a hypothesis, the
    # Skolemised "some function maps every observation back to its index" (instantiated once per index term instead of
    # once per pair of index terms); where it has to be proved, or the position is unknown, the pairwise form
    pol, assumed = getattr(ex, "call_pol", 0), getattr(ex, "assumed", False)
    if (assumed and pol == 1) or (not assumed and pol == -1):
        w = z3.Function(uid("posw"), z3.IntSort(), z3.IntSort())
        distinct = z3.ForAll([i], implies(and_(i >= 0, i < n), w(z3.Select(arr, i)) == i))
    else:
        distinct = z3.ForAll([i, j], implies(and_(i >= 0, i < j, j < n), z3.Select(arr, i) != z3.Select(arr, j)))
    return vbool(and_(
        n >= 0,
        z3.ForAll([i], implies(and_(i >= 0, i < n), fl.terms[0] == d.size)),
        distinct,
        z3.ForAll([k1], implies(z3.Select(d.dom, k1), and_(z3.Select(val, k1) >= 0, z3.Select(val, k1) < d.size,
                                                           not_(z_reserved(k1))))),
        z3.ForAll([k1, k2], implies(and_(z3.Select(d.dom, k1), z3.Select(d.dom, k2), k1 != k2),
                                    z3.Select(val, k1) != z3.Select(val, k2)))))


def sf_col(ex, st, t, name, i):
    """value read under `name` at observation i (feature names only)."""
    p = pts_of(ex, st, t)
    d = dico_of(ex, st, t)
    o = vref(z3.Select(p.terms[1], to_int(i)), "Obs")
    c = dicts.get(d, name)
    return list_get(feats(ex, st, o), to_int(c))


def sf_cell(ex, st, t, i, c):
    p = pts_of(ex, st, t)
    o = vref(z3.Select(p.terms[1], to_int(i)), "Obs")
    return list_get(feats(ex, st, o), to_int(c))


def _coord(field):
    def f(ex, st, t, i):
        p = pts_of(ex, st, t)
        o = vref(z3.Select(p.terms[1], to_int(i)), "Obs")
        pos = ex.read_field(st, o, "position")
        return ex.read_field(st, pos, field)
    return f


def sf_obs(ex, st, t, i):
    p = pts_of(ex, st, t)
    return vref(z3.Select(p.terms[1], to_int(i)), "Obs")


def sf_tstamp(ex, st, t, i):
    p = pts_of(ex, st, t)
    o = vref(z3.Select(p.terms[1], to_int(i)), "Obs")
    return ex.read_field(st, o, "timestamp")


def sf_hasname(ex, st, t, name):
    return vbool(dicts.contains(dico_of(ex, st, t), name))


def sf_colidx(ex, st, t, name):
    return dicts.get(dico_of(ex, st, t), name)


def sf_dpos(ex, st, t, k):
    d = dicts.D(dico_of(ex, st, t))
    return vint(z3.Select(d.pos, k.terms[0]))


def sf_dolen(ex, st, t):
    return vint(dicts.D(dico_of(ex, st, t)).olen)


def sf_dslot(ex, st, t, q):
    d = dicts.D(dico_of(ex, st, t))
    return Val(STR, [z3.Select(d.order, to_int(q))])


def register_model(reg):
    """class fields + spec functions; no contracts"""
    from specs import C03
    if "wf" not in reg.specfuncs:
        C03.register(reg)
    reg.field("Track", PTS, "list[Obs]")
    reg.field("Track", DICO, "dict[str,int]")
    reg.field("Track", "uid", "any")
    reg.field("Track", "tid", "any")
    reg.field("Track", "base", "opt[ECEFCoords]")
    reg.field("Track", "no_data_value", "opt[float]")
    reg.field("Obs", "position", "ENUCoords")
    reg.field("Obs", "timestamp", "ObsTime")
    reg.field("Obs", "features", "list[float]")
    for f in ("gdop", "pdop", "vdop", "hdop", "tdop", "nb_sats", "mask", "code", "azimut", "elevation"):
        reg.field("Obs", f, "int")
    for f in ("E", "N", "U"):
        reg.field("ENUCoords", f, "float")
    reg.specfuncs.update(reserved=sf_reserved, pts=sf_pts, npts=sf_npts, nfeat=sf_nfeat, dico=sf_dico, twf=sf_twf,
                         col=sf_col, cell=sf_cell, X=_coord("E"), Y=_coord("N"), Z=_coord("U"), obs=sf_obs,
                         tstamp=sf_tstamp, hasname=sf_hasname, colidx=sf_colidx, dpos=sf_dpos, dolen=sf_dolen, dslot=sf_dslot)
    E = "tracklib.core.obs_coords:ENUCoords."
    reg.auto_inline |= {E + m for m in ("getX", "getY", "getZ", "setX", "setY", "setZ", "__init__")}
    reg.auto_inline |= {T + m for m in ("size", "getObs", "getFirstObs", "getLastObs", "getObsList", "hasAnalyticalFeature", "_Track__controlName",
                                        "__len__")}
    reg.auto_inline |= {"tracklib.core.obs:Obs.__init__"}


FEATNAME = "not reserved(%s)"
ALLCOLS_SAME = ("all(implies(hasname(self, k) and k != %s, all(same(col(self, k, i), old(col(self, k, i))) "
                "for i in range(0, npts(self)))) for k in strs)")
COORDS = ["ENUCoords.E", "ENUCoords.N", "ENUCoords.U"]
SHAPE_SAME = "same(pts(self), old(pts(self)))"


def register(reg):
    register_model(reg)
    S = dict(self="Track")

    # ---------------------------------------------------------------- reads
    reg.add(Spec(T + "getObsAnalyticalFeature", dict(self="Track", af_name="str", i="int"), "float",
                 requires=["twf(self)", "0 <= i and i < npts(self)", "af_name != 'timestamp'",
                           "implies(af_name == 't', wf(tstamp(self, i)))"],
                 raises={"AnalyticalFeatureError": "not hasname(self, af_name) and not reserved(af_name)"},
                 ensures=[("x", "implies(af_name == 'x', same(result, X(self, i)))"),
                          ("y", "implies(af_name == 'y', same(result, Y(self, i)))"),
                          ("z", "implies(af_name == 'z', same(result, Z(self, i)))"),
                          ("t", "implies(af_name == 't', result == abstime(tstamp(self, i)))"),
                          ("idx", "implies(af_name == 'idx', result == i)"),
                          ("feature", "implies(not reserved(af_name), same(result, col(self, af_name, i)))")]))

    reg.add(Spec(T + "getListAnalyticalFeatures", S, "list[str]", requires=[],
                 ensures=[("as-many-as-listed", "len(result) == nfeat(self)"),
                          ("only-listed", "all(hasname(self, result[i]) for i in range(0, len(result)))"),
                          ("every-listed", "all(implies(hasname(self, k), any(result[i] == k for i in range(0, len(result)))) for k in strs)"),
                          ("distinct", "all(implies(i < j, result[i] != result[j]) for i in range(0, len(result)) for j in range(0, len(result)))")]))

    # ---------------------------------------------------------------- single-cell write
    reg.add(Spec(T + "setObsAnalyticalFeature", dict(self="Track", af_name="str", i="int", val="float"), "none",
                 requires=["twf(self)", "0 <= i and i < npts(self)", "af_name != 't' and af_name != 'timestamp' and af_name != 'idx'"],
                 raises={"AnalyticalFeatureError": "not hasname(self, af_name) and not reserved(af_name)"},
                 modifies=["Obs.features"] + COORDS,
                 ensures=[("wf", "twf(self)"),
                          ("x", "implies(af_name == 'x', same(X(self, i), val) and unchanged_except('ENUCoords.E', obs(self, i).position) "
                                "and unchanged('ENUCoords.N', 'ENUCoords.U', 'Obs.features'))"),
                          ("y", "implies(af_name == 'y', same(Y(self, i), val) and unchanged_except('ENUCoords.N', obs(self, i).position) "
                                "and unchanged('ENUCoords.E', 'ENUCoords.U', 'Obs.features'))"),
                          ("z", "implies(af_name == 'z', same(Z(self, i), val) and unchanged_except('ENUCoords.U', obs(self, i).position) "
                                "and unchanged('ENUCoords.E', 'ENUCoords.N', 'Obs.features'))"),
                          ("feature-written", "implies(not reserved(af_name), same(col(self, af_name, i), val))"),
                          ("feature-row-others", "implies(not reserved(af_name), all(implies(c != colidx(self, af_name), "
                           "same(cell(self, i, c), old(cell(self, i, c)))) for c in range(0, nfeat(self))))"),
                          ("feature-frame", "implies(not reserved(af_name), unchanged_except('Obs.features', obs(self, i)) and "
                           "unchanged('ENUCoords.E', 'ENUCoords.N', 'ENUCoords.U'))")]))

    # ---------------------------------------------------------------- create / update / remove
    reg.add(Spec(T + "createAnalyticalFeature", dict(self="Track", name="str", val_init="float"), "none",
                 requires=["twf(self)"],
                 raises={"AnalyticalFeatureError": "reserved(name) or npts(self) <= 0"},
                 modifies=["Obs.features", "Track." + DICO],
                 ensures=[("wf", "twf(self)"),
                          ("existing-name-untouched", "implies(old(hasname(self, name)), unchanged('Obs.features', 'Track.%s'))" % DICO),
                          ("listed", "hasname(self, name)"),
                          ("names", "all(implies(k != name, hasname(self, k) == old(hasname(self, k))) for k in strs)"),
                          ("count", "nfeat(self) == old(nfeat(self)) + (0 if old(hasname(self, name)) else 1)"),
                          ("initialised", "implies(not old(hasname(self, name)), all(same(col(self, name, i), val_init) for i in range(0, npts(self))))"),
                          ("other-columns", ALLCOLS_SAME % "name"),
                          ("other-tracks", "all(implies(r != self, same(r.%s, old(r.%s))) for r in refs(Track))" % (DICO, DICO)),
                          ("other-observations", "all(implies(all(obs(self, i) != o for i in range(0, npts(self))), "
                           "untouched(o, 'Obs.features')) for o in refs(Obs))")],
                 loops={"1": LoopSpec(inv=["False"]),      # list initialiser: excluded by the parameter kind (val_init is a float)
                        "2": LoopSpec(inv=[
                            "unchanged_except('Track.%s', self)" % DICO,
                            "all(len(obs(self, r).features) == old(nfeat(self)) + (1 if r < i else 0) for r in range(0, npts(self)))",
                            "all(same(cell(self, r, old(nfeat(self))), val_init) for r in range(0, i))",
                            "all(same(cell(self, r, c), old(cell(self, r, c))) for r in range(0, npts(self)) for c in range(0, old(nfeat(self))))",
                            "all(implies(all(obs(self, q) != o for q in range(0, npts(self))), untouched(o, 'Obs.features')) for o in refs(Obs))"])}))


    _more(reg)
    # bracket reads: track[name, i] and track[i]
    reg.add(Spec(T + "__getitem__", dict(self="Track", n="tuple[str,int]"), "float",
                 requires=["twf(self)", "0 <= n[1] and n[1] < npts(self)", "not reserved(n[0]) and hasname(self, n[0])"],
                 ensures=[("feature-value", "same(result, col(self, n[0], n[1]))")]), variant="name_index")
    reg.add(Spec(T + "__getitem__", dict(self="Track", n="int"), "Obs",
                 requires=["0 <= n and n < npts(self)"],
                 ensures=[("the-observation", "result is obs(self, n)")]), variant="index")

    # bracket assignment: track[name, i] = v, track[i, name] = v, track[name] = list / scalar / "#DELETE"
    SETMOD = ["Obs.features", "Track." + DICO] + COORDS
    CELL_REQ = ["twf(self)", "0 <= %(i)s and %(i)s < npts(self)", "not reserved(%(k)s) and hasname(self, %(k)s)"]
    for variant, kind, k, i in (("name_index", "tuple[str,int]", "n[0]", "n[1]"), ("index_name", "tuple[int,str]", "n[1]", "n[0]")):
        reg.add(Spec(T + "__setitem__", dict(self="Track", n=kind, obs="float"), "none", modifies=SETMOD,
                     requires=[r % dict(i=i, k=k) for r in CELL_REQ],
                     ensures=[("wf", "twf(self)"),
                              ("cell-written", "same(col(self, %s, %s), obs)" % (k, i)),
                              ("rest-of-the-row", "all(implies(c != colidx(self, %s), same(cell(self, %s, c), old(cell(self, %s, c)))) for c in range(0, nfeat(self)))" % (k, i, i)),
                              ("nothing-else", "unchanged_except('Obs.features', obs(self, %s)) and unchanged('ENUCoords.E', 'ENUCoords.N', 'ENUCoords.U', 'Track.%s')" % (i, DICO))]),
                variant=variant)
    OTHER_OBS_ = ("all(implies(all(obs(self, q) != o for q in range(0, npts(self))), untouched(o, 'Obs.features')) for o in refs(Obs))")
    OTHER_TRACKS_ = "all(implies(r != self, same(r.%s, old(r.%s))) for r in refs(Track))" % (DICO, DICO)
    for variant, kind, val in (("name_list", "list[float]", "obs[i]"), ("name_scalar", "float", "obs")):
        reg.add(Spec(T + "__setitem__", dict(self="Track", n="str", obs=kind), "none", modifies=SETMOD,
                     requires=["twf(self)", "not reserved(n)", "npts(self) >= 1"] + (["len(obs) >= npts(self)"] if variant == "name_list" else []),
                     ensures=[("wf", "twf(self)"),
                              ("listed", "hasname(self, n)"),
                              ("names", "all(implies(k != n, hasname(self, k) == old(hasname(self, k))) for k in strs)"),
                              ("values-written", "all(same(col(self, n, i), %s) for i in range(0, npts(self)))" % val),
                              ("other-columns", ALLCOLS_SAME % "n"),
                              ("other-observations", OTHER_OBS_), ("other-tracks", OTHER_TRACKS_),
                              ("coordinates", "unchanged('ENUCoords.E', 'ENUCoords.N', 'ENUCoords.U')")]), variant=variant)
    reg.add(Spec(T + "__setitem__", dict(self="Track", n="str", obs="str"), "none", modifies=SETMOD,
                 requires=["twf(self)", "not reserved(n)", "hasname(self, n)", "obs == '#DELETE'"],
                 ensures=[("wf", "twf(self)"),
                          ("unlisted", "not hasname(self, n)"),
                          ("names", "all(implies(k != n, hasname(self, k) == old(hasname(self, k))) for k in strs)"),
                          ("other-columns", ALLCOLS_SAME % "n"),
                          ("other-observations", OTHER_OBS_), ("other-tracks", OTHER_TRACKS_),
                          ("coordinates", "unchanged('ENUCoords.E', 'ENUCoords.N', 'ENUCoords.U')")]), variant="delete")


def sf_first_is_hash(ex, st, name):
    strings.code("#")
    return vbool(strings.FIRST_IS_HASH(name.terms[0]))


def _more(reg):
    S = dict(self="Track")
    reg.specfuncs.update(first_is_hash=sf_first_is_hash)
    # the expression evaluator is abstract here (bounded only): it leaves a well-formed table and may add / remove names
    reg.add(Spec(T + "_Track__evaluate", dict(self="Track", expression="str", external="list[any]"), "any", trusted=True,
                 requires=["twf(self)"], modifies=["Obs.features", "Track." + DICO, "ENUCoords.E", "ENUCoords.N", "ENUCoords.U"],
                 ensures=["twf(self)"]))
    HAD = "any(SUPPRESS_AF[q] == k for q in range(0, len(SUPPRESS_AF)))"
    reg.add(Spec(T + "operate", dict(self="Track", operator="str"), "any",
                 requires=["twf(self)"],
                 modifies=["Obs.features", "Track." + DICO, "ENUCoords.E", "ENUCoords.N", "ENUCoords.U"],
                 locals=dict(arg1="list[any]"),
                 loops={"1": LoopSpec(inv=[
                     "twf(self)",
                     "all(implies(hasname(self, k), %s) for k in strs)" % HAD,
                     "all(hasname(self, SUPPRESS_AF[q]) == (q >= _k or not first_is_hash(SUPPRESS_AF[q])) for q in range(0, len(SUPPRESS_AF)))",
                     "all(implies(i_ < j_, SUPPRESS_AF[i_] != SUPPRESS_AF[j_]) for i_ in range(0, len(SUPPRESS_AF)) for j_ in range(0, len(SUPPRESS_AF)))",
                     "all(not reserved(SUPPRESS_AF[q]) for q in range(0, len(SUPPRESS_AF)))"])},
                 ensures=[("wf", "twf(self)"),
                          ("no-evaluator-temporary-remains-listed", "all(implies(hasname(self, k), not first_is_hash(k)) for k in strs)")]),
            variant="expression")
    OTHER_OBS = ("all(implies(all(obs(self, q) != o for q in range(0, npts(self))), untouched(o, 'Obs.features')) "
                 "for o in refs(Obs))")
    OTHER_TRACKS = "all(implies(r != self, same(r.%s, old(r.%s))) for r in refs(Track))" % (DICO, DICO)

    # list initialiser variant of create
    reg.add(Spec(T + "createAnalyticalFeature", dict(self="Track", name="str", val_init="list[float]"), "none",
                 requires=["twf(self)", "len(val_init) >= npts(self)"],
                 raises={"AnalyticalFeatureError": "reserved(name) or npts(self) <= 0"},
                 modifies=["Obs.features", "Track." + DICO],
                 ensures=[("wf", "twf(self)"),
                          ("existing-name-untouched", "implies(old(hasname(self, name)), unchanged('Obs.features', 'Track.%s'))" % DICO),
                          ("listed", "hasname(self, name)"),
                          ("names", "all(implies(k != name, hasname(self, k) == old(hasname(self, k))) for k in strs)"),
                          ("count", "nfeat(self) == old(nfeat(self)) + (0 if old(hasname(self, name)) else 1)"),
                          ("initialised", "implies(not old(hasname(self, name)), all(same(col(self, name, i), val_init[i]) for i in range(0, npts(self))))"),
                          ("other-columns", ALLCOLS_SAME % "name"),
                          ("other-tracks", OTHER_TRACKS),
                          ("other-observations", OTHER_OBS)],
                 loops={"2": LoopSpec(inv=["False"]),
                        "1": LoopSpec(inv=[
                            "unchanged_except('Track.%s', self)" % DICO,
                            "all(len(obs(self, r).features) == old(nfeat(self)) + (1 if r < i else 0) for r in range(0, npts(self)))",
                            "all(same(cell(self, r, old(nfeat(self))), val_init[r]) for r in range(0, i))",
                            "all(same(cell(self, r, c), old(cell(self, r, c))) for r in range(0, npts(self)) for c in range(0, old(nfeat(self))))",
                            OTHER_OBS])}), variant="list")

    for variant, kind, val in ((None, "float", "new_val"), ("list", "list[float]", "new_val[%s]")):
        v = (lambda i: val % i) if "%s" in val else (lambda i: val)
        reg.add(Spec(T + "updateAnalyticalFeature", dict(self="Track", name="str", new_val=kind), "none",
                     requires=["twf(self)", "not reserved(name)"] + (["len(new_val) >= npts(self)"] if variant else []),
                     raises={"AnalyticalFeatureError": "not hasname(self, name) or npts(self) <= 0"},
                     modifies=["Obs.features"],
                     ensures=[("wf", "twf(self)"),
                              ("written", "all(same(col(self, name, i), %s) for i in range(0, npts(self)))" % v("i")),
                              ("other-columns", ALLCOLS_SAME % "name"),
                              ("other-observations", OTHER_OBS)],
                     loops={("2" if variant else "1"): LoopSpec(inv=["False"]),
                            ("1" if variant else "2"): LoopSpec(inv=[
                                "all(len(obs(self, r).features) == nfeat(self) for r in range(0, npts(self)))",
                                "all(same(cell(self, r, colidx(self, name)), %s) for r in range(0, i))" % v("r"),
                                "all(implies(c != colidx(self, name), same(cell(self, r, c), old(cell(self, r, c)))) "
                                "for r in range(0, npts(self)) for c in range(0, nfeat(self)))",
                                OTHER_OBS])}), variant=variant)

    # remove: the column disappears everywhere, higher indices shift down, every other name reads as before
    IDAF = "old(colidx(self, name))"
    reg.add(Spec(T + "removeAnalyticalFeature", dict(self="Track", name="str"), "none",
                 requires=["twf(self)", "not reserved(name)"],
                 raises={"AnalyticalFeatureError": "not hasname(self, name)"},
                 modifies=["Obs.features", "Track." + DICO],
                 ensures=[("wf", "twf(self)"),
                          ("unlisted", "not hasname(self, name)"),
                          ("names", "all(implies(k != name, hasname(self, k) == old(hasname(self, k))) for k in strs)"),
                          ("count", "nfeat(self) == old(nfeat(self)) - 1"),
                          ("other-columns", ALLCOLS_SAME % "name"),
                          ("other-tracks", OTHER_TRACKS),
                          ("other-observations", OTHER_OBS)],
                 loops={"1": LoopSpec(inv=[
                            "unchanged('Track.%s')" % DICO,
                            "all(len(obs(self, r).features) == nfeat(self) - (1 if r < i else 0) for r in range(0, npts(self)))",
                            "all(same(cell(self, r, c), old(cell(self, r, c))) for r in range(0, npts(self)) for c in range(0, %s))" % IDAF,
                            "all(same(cell(self, r, c), old(cell(self, r, c + 1))) for r in range(0, i) for c in range(%s, nfeat(self) - 1))" % IDAF,
                            "all(same(cell(self, r, c), old(cell(self, r, c))) for r in range(i, npts(self)) for c in range(%s, nfeat(self)))" % IDAF,
                            OTHER_OBS]),
                        "2": LoopSpec(index="s", inv=[
                            "unchanged_except('Track.%s', self)" % DICO,
                            "nfeat(self) == old(nfeat(self)) - 1",
                            "all(hasname(self, k) == (old(hasname(self, k)) and k != name) for k in strs)",
                            "all(implies(hasname(self, k), colidx(self, k) == old(colidx(self, k)) - "
                            "(1 if (dpos(self, k) < s and old(colidx(self, k)) > %s) else 0)) for k in strs)" % IDAF,
                            "all(dpos(self, k) == old(dpos(self, k)) for k in strs)", "dolen(self) == old(dolen(self))",
                            "all(dslot(self, q) == old(dslot(self, q)) for q in ints)"])}))

    # whole-column read
    reg.add(Spec(T + "getAnalyticalFeature", dict(self="Track", af_name="str"), "list[float]",
                 requires=["twf(self)", "af_name != 'timestamp'",
                           "implies(af_name == 't', all(wf(tstamp(self, i)) for i in range(0, npts(self))))"],
                 raises={"AnalyticalFeatureError": "not hasname(self, af_name) and not reserved(af_name)"},
                 locals=dict(AF="list[float]"),
                 ensures=[("length", "len(result) == npts(self)"),
                          ("x", "implies(af_name == 'x', all(same(result[i], X(self, i)) for i in range(0, npts(self))))"),
                          ("y", "implies(af_name == 'y', all(same(result[i], Y(self, i)) for i in range(0, npts(self))))"),
                          ("z", "implies(af_name == 'z', all(same(result[i], Z(self, i)) for i in range(0, npts(self))))"),
                          ("t", "implies(af_name == 't', all(result[i] == abstime(tstamp(self, i)) for i in range(0, npts(self))))"),
                          ("idx", "implies(af_name == 'idx', all(result[i] == i for i in range(0, npts(self))))"),
                          ("feature", "implies(not reserved(af_name), all(same(result[i], col(self, af_name, i)) for i in range(0, npts(self))))")],
                 loops={"1": LoopSpec(inv=["len(AF) == i", "all(same(AF[r], X(self, r)) for r in range(0, i))"]),
                        "2": LoopSpec(inv=["len(AF) == i", "all(same(AF[r], Y(self, r)) for r in range(0, i))"]),
                        "3": LoopSpec(inv=["len(AF) == i", "all(same(AF[r], Z(self, r)) for r in range(0, i))"]),
                        "4": LoopSpec(inv=["len(AF) == i", "all(AF[r] == abstime(tstamp(self, r)) for r in range(0, i))"]),
                        "5": LoopSpec(inv=["False"]),
                        "6": LoopSpec(inv=["len(AF) == i", "all(AF[r] == r for r in range(0, i))"]),
                        "7": LoopSpec(inv=["len(AF) == i", "all(same(AF[r], col(self, af_name, r)) for r in range(0, i))"])}))

    # utils.addListToAF: writes a whole column through setObsAnalyticalFeature
    reg.add(Spec("tracklib.core.utils:addListToAF", dict(track="Track", af_name="str", array="list[float]"), "none",
                 requires=["twf(track)", "not reserved(af_name)", "len(array) >= npts(track)"],
                 raises={"AnalyticalFeatureError": "not hasname(track, af_name) and npts(track) > 0"},
                 modifies=["Obs.features"] + COORDS,
                 hints=[("distinct-columns", "all(implies(hasname(track, k) and k != af_name and hasname(track, af_name), "
                         "colidx(track, k) != colidx(track, af_name) and 0 <= colidx(track, k) and colidx(track, k) < nfeat(track)) for k in strs)")],
                 ensures=[("wf", "twf(track)"),
                          ("written", "all(same(col(track, af_name, i), array[i]) for i in range(0, npts(track)))"),
                          ("other-columns", (ALLCOLS_SAME % "af_name").replace("self", "track")),
                          ("other-observations", OTHER_OBS.replace("self", "track")),
                          ("coordinates", "unchanged('ENUCoords.E', 'ENUCoords.N', 'ENUCoords.U')")],
                 loops={"1": LoopSpec(inv=[
                     "twf(track)", "unchanged('ENUCoords.E', 'ENUCoords.N', 'ENUCoords.U')",
                     "i == 0 or hasname(track, af_name)",
                     "all(same(cell(track, r, colidx(track, af_name)), array[r]) for r in range(0, i))",
                     "all(implies(c != colidx(track, af_name), same(cell(track, r, c), old(cell(track, r, c)))) "
                     "for r in range(0, npts(track)) for c in range(0, nfeat(track)))",
                     OTHER_OBS.replace("self", "track")])}))


FUNCTIONS = [T + n for n in ("getObsAnalyticalFeature", "getListAnalyticalFeatures", "setObsAnalyticalFeature",
                             "createAnalyticalFeature", "createAnalyticalFeature@list",
                             "updateAnalyticalFeature", "updateAnalyticalFeature@list", "removeAnalyticalFeature",
                             "getAnalyticalFeature", "__getitem__@name_index", "__getitem__@index", "operate@expression",
                             "__setitem__@name_index", "__setitem__@index_name", "__setitem__@name_list", "__setitem__@name_scalar", "__setitem__@delete")] + ["tracklib.core.utils:addListToAF"]
