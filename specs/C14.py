"""C14 — coordinate conversions round-trip and agree with the WGS84 ellipsoid.

Proved (real arithmetic, sin^2 + cos^2 = 1): GeoCoords.toECEFCoords equals the closed-form WGS84 formulas; the real
ENUCoords.toECEFCoords and ECEFCoords.toENUCoords, composed by three proof harnesses (convert there and back; convert
the base itself), are exact inverses of each other for any base and map the base to (0, 0, 0) -- whatever
base.toGeoCoords() returns, since both directions obtain the rotation angles from the same deterministic call.
Not decided deductively (bounded only): the geodetic inverse (Bowring) and the Lambert-93 inverse are numerical
approximations; "to 1e-9 degree and 1 mm" is an accuracy claim over atan2 / pow / exp in IEEE arithmetic."""
import z3
from pyvc.kinds import *
from pyvc.values import *
from pyvc.symexec import Spec, LoopSpec
from pyvc import mathlib

OC = "tracklib.core.obs_coords:"
DEPENDS = []
R_ = z3.RealSort()
GLON = z3.Function("geodetic_lon_deg", R_, R_, R_, R_)     # what ECEFCoords.toGeoCoords returns, as functions of X, Y, Z
GLAT = z3.Function("geodetic_lat_deg", R_, R_, R_, R_)
GHGT = z3.Function("geodetic_hgt", R_, R_, R_, R_)


def _xyz(ex, st, p):
    return [to_float(ex.read_field(st, p, f))[1] for f in ("X", "Y", "Z")]


def register(reg):
    for f in ("X", "Y", "Z"):
        reg.field("ECEFCoords", f, "real")
    for f in ("E", "N", "U"):
        reg.field("ENUCoords", f, "float")
    for f in ("lon", "lat", "hgt"):
        reg.field("GeoCoords", f, "real")
    reg.specfuncs.update(glon=lambda ex, st, p: vfloat(GLON(*_xyz(ex, st, p))), glat=lambda ex, st, p: vfloat(GLAT(*_xyz(ex, st, p))),
                         ghgt=lambda ex, st, p: vfloat(GHGT(*_xyz(ex, st, p))),
                         sin=lambda ex, st, x: (ex.ctx.math_used.add("sincos"), vfloat(mathlib.SIN(to_float(x)[1])))[1],
                         cos=lambda ex, st, x: (ex.ctx.math_used.add("sincos"), vfloat(mathlib.COS(to_float(x)[1])))[1])
    reg.auto_inline |= {OC + "ECEFCoords.__init__", OC + "ENUCoords.__init__", OC + "GeoCoords.__init__", OC + "ECEFCoords.toECEFCoords"}
    # trusted: deepcopy gives a fresh object with the same coordinates; the geodetic inverse is a deterministic function
    reg.add(Spec(OC + "ECEFCoords.copy", dict(self="ECEFCoords"), "ECEFCoords", trusted=True, fresh=["ECEFCoords"],
                 ensures=["isnew(result)", "result.X == self.X and result.Y == self.Y and result.Z == self.Z"]))
    reg.add(Spec(OC + "ECEFCoords.toGeoCoords", dict(self="ECEFCoords"), "GeoCoords", trusted=True, fresh=["GeoCoords"],
                 ensures=["isnew(result)", "result.lon == glon(self) and result.lat == glat(self) and result.hgt == ghgt(self)"]))

    # closed-form WGS84: X = (N + h) cos(phi) cos(lam), Y = (N + h) cos(phi) sin(lam), Z = ((1 - e^2) N + h) sin(phi),
    # N = a / sqrt(1 - e^2 sin^2(phi)), e^2 = f (2 - f)
    A_, F_ = "Re", "Fe"        # the module constants of obs_coords.py (semi-major axis, flattening)
    E2 = "(%s * (2 - %s))" % (F_, F_)
    PHI, LAM = "(self.lat * 3.141592653589793 / 180.0)", "(self.lon * 3.141592653589793 / 180.0)"
    NN = "(%s / sqrt(1 - %s * sin(%s) * sin(%s)))" % (A_, E2, PHI, PHI)
    reg.add(Spec(OC + "GeoCoords.toECEFCoords", dict(self="GeoCoords"), "ECEFCoords", fresh=["ECEFCoords"],
                 requires=["1 - %s * sin(%s) * sin(%s) > 0" % (E2, PHI, PHI)],
                 at={"e = math.sqrt(Fe * (2 - Fe))": [("eccentricity-squared", "e * e == %s" % E2)],
                     "n = Re / math.sqrt(1 - (e * math.sin(lat)) ** 2)": [
                         ("same-radicand", "1 - (e * sin(lat)) * (e * sin(lat)) == 1 - %s * sin(%s) * sin(%s)" % (E2, PHI, PHI)),
                         ("prime-vertical-radius", "n == %s" % NN)]},
                 ensures=[("new-object", "isnew(result)"),
                          ("X", "result.X == (%s + self.hgt) * cos(%s) * cos(%s)" % (NN, PHI, LAM)),
                          ("Y", "result.Y == (%s + self.hgt) * cos(%s) * sin(%s)" % (NN, PHI, LAM)),
                          ("Z", "result.Z == ((1 - %s) * %s + self.hgt) * sin(%s)" % (E2, NN, PHI))]))

    # rotations ENU <-> ECEF about the base
    BL, BP = "(glon(base) * 3.141592653589793 / 180.0)", "(glat(base) * 3.141592653589793 / 180.0)"
    reg.add(Spec(OC + "ECEFCoords.toENUCoords", dict(self="ECEFCoords", base="ECEFCoords"), "ENUCoords", fresh=["ENUCoords", "ECEFCoords", "GeoCoords"], frame_axiom=True,
                 ensures=[("new-object", "isnew(result)"),
                          ("east", "result.E == -(self.X - base.X) * sin(%s) + (self.Y - base.Y) * cos(%s)" % (BL, BL)),
                          ("north", "result.N == -(self.X - base.X) * cos(%s) * sin(%s) - (self.Y - base.Y) * sin(%s) * sin(%s) + (self.Z - base.Z) * cos(%s)"
                           % (BL, BP, BL, BP, BP)),
                          ("up", "result.U == (self.X - base.X) * cos(%s) * cos(%s) + (self.Y - base.Y) * sin(%s) * cos(%s) + (self.Z - base.Z) * sin(%s)"
                           % (BL, BP, BL, BP, BP))]))
    reg.add(Spec(OC + "ENUCoords.toECEFCoords", dict(self="ENUCoords", base="ECEFCoords"), "ECEFCoords", fresh=["ENUCoords", "ECEFCoords", "GeoCoords"], frame_axiom=True,
                 requires=["not isnan(self.E) and not isnan(self.N) and not isnan(self.U)"],
                 ensures=[("new-object", "isnew(result)"),
                          ("X", "result.X == -self.E * sin(%s) - self.N * cos(%s) * sin(%s) + self.U * cos(%s) * cos(%s) + base.X" % (BL, BL, BP, BL, BP)),
                          ("Y", "result.Y == self.E * cos(%s) - self.N * sin(%s) * sin(%s) + self.U * sin(%s) * cos(%s) + base.Y" % (BL, BL, BP, BL, BP)),
                          ("Z", "result.Z == self.N * cos(%s) + self.U * sin(%s) + base.Z" % (BP, BP))]))

    # proof harnesses: the real conversions composed
    reg.add_harness("enu_to_ecef_and_back", "def enu_to_ecef_and_back(p, base):\n    q = p.toECEFCoords(base)\n    r = q.toENUCoords(base)\n    return r\n")
    reg.add(Spec("harness:enu_to_ecef_and_back", dict(p="ENUCoords", base="ECEFCoords"), "ENUCoords", fresh=["ENUCoords", "ECEFCoords", "GeoCoords"],
                 requires=["not isnan(p.E) and not isnan(p.N) and not isnan(p.U)"],
                 ensures=[("east-restored", "result.E == p.E"), ("north-restored", "result.N == p.N"), ("up-restored", "result.U == p.U")]))
    reg.add_harness("ecef_to_enu_and_back", "def ecef_to_enu_and_back(p, base):\n    q = p.toENUCoords(base)\n    r = q.toECEFCoords(base)\n    return r\n")
    reg.add(Spec("harness:ecef_to_enu_and_back", dict(p="ECEFCoords", base="ECEFCoords"), "ECEFCoords", fresh=["ENUCoords", "ECEFCoords", "GeoCoords"],
                 hints=["use mul_eq(SP * SP + CP * CP, 1, CL * CL * DX)", "use mul_eq(SP * SP + CP * CP, 1, SL * CL * DY)", "use mul_eq(SL * SL + CL * CL, 1, DX)",
                        "use mul_eq(SP * SP + CP * CP, 1, SL * SL * DY)", "use mul_eq(SP * SP + CP * CP, 1, CL * SL * DX)", "use mul_eq(SL * SL + CL * CL, 1, DY)",
                        "use mul_eq(SP * SP + CP * CP, 1, DZ)",
                        ("q-east", "q.E == -DX * SL + DY * CL"),
                        ("q-north", "q.N == -DX * CL * SP - DY * SL * SP + DZ * CP"),
                        ("q-up", "q.U == DX * CL * CP + DY * SL * CP + DZ * SP"),
                        ("r-Y", "r.Y == q.E * CL - q.N * SL * SP + q.U * SL * CP + base.Y"),
                        ("Y-polynomial", "r.Y - base.Y == DY * (CL * CL) + (SP * SP + CP * CP) * (SL * SL * DY) + (SP * SP + CP * CP) * (CL * SL * DX) - SL * CL * DX"),
                        ("Y-collected", "r.Y - base.Y == DY * (CL * CL) + SL * SL * DY"),
                        ("Y-unit-circle", "r.Y - base.Y == (SL * SL + CL * CL) * DY"),
                        ("r-X", "r.X == -q.E * SL - q.N * CL * SP + q.U * CL * CP + base.X"),
                        ("X-polynomial", "r.X - base.X == DX * (SL * SL) + (SP * SP + CP * CP) * (CL * CL * DX) + (SP * SP + CP * CP) * (SL * CL * DY) - SL * CL * DY"),
                        ("X-collected", "r.X - base.X == DX * (SL * SL) + CL * CL * DX"),
                        ("X-unit-circle", "r.X - base.X == (SL * SL + CL * CL) * DX"),
                        ("r-Z", "r.Z == q.N * CP + q.U * SP + base.Z"),
                        ("Z-polynomial", "r.Z - base.Z == (SP * SP + CP * CP) * DZ")],
                 ensures=[("X-restored", "result.X == p.X"), ("Y-restored", "result.Y == p.Y"), ("Z-restored", "result.Z == p.Z")]))
    reg.add_harness("base_in_its_own_frame", "def base_in_its_own_frame(base):\n    return base.toENUCoords(base)\n")
    reg.add(Spec("harness:base_in_its_own_frame", dict(base="ECEFCoords"), "ENUCoords", fresh=["ENUCoords", "ECEFCoords", "GeoCoords"],
                 ensures=[("origin", "result.E == 0 and result.N == 0 and result.U == 0")]))


    sp = reg.specs["harness:ecef_to_enu_and_back"]
    rep = {"SL": "sin(%s)" % BL, "CL": "cos(%s)" % BL, "SP": "sin(%s)" % BP, "CP": "cos(%s)" % BP,
           "DX": "(p.X - base.X)", "DY": "(p.Y - base.Y)", "DZ": "(p.Z - base.Z)"}
    hs = []
    for h in sp.hints:
        name, text = h if isinstance(h, tuple) else (None, h)
        for k, v in rep.items():
            text = text.replace(k, v)
        hs.append((name, text) if name else text)
    sp.hints = hs


USES_LIB = True
FUNCTIONS = [OC + "GeoCoords.toECEFCoords", OC + "ECEFCoords.toENUCoords", OC + "ENUCoords.toECEFCoords",
             "harness:enu_to_ecef_and_back", "harness:ecef_to_enu_and_back", "harness:base_in_its_own_frame"]
ASSUMPTIONS = ["math.sin / math.cos: uninterpreted with sin^2 + cos^2 = 1; math.sqrt: r >= 0 and r*r == x (trusted axioms)",
               "copy.deepcopy of a coordinate object returns a fresh object with the same fields (trusted)",
               "ECEFCoords.toGeoCoords (Bowring's closed form) is a deterministic function of (X, Y, Z): its ACCURACY is not proved (bounded sweep only)",
               "Lambert-93 and whole-track conversions: bounded only",
               "proof harnesses (three 2-line drivers in specs/C14.py) only sequence calls of the real conversion methods"]
