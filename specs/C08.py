"""C08 — the grid spatial index never omits a feature that is geometrically there.

Leaves under contract: isSegmentIntersects (exact sign test), SpatialIndex.__getCell (None iff outside; else the
normalised coordinates, clamped to the grid size), groundDistanceToUnits (the returned number of cells covers the
ground distance along BOTH axes), __neighboringcells (every in-grid cell within u of (i, j) is returned),
__cellsCrossSegment (every cell that contains a point of the segment is returned: nested-loop invariant + the
real-arithmetic completeness lemma)."""
import z3
from pyvc.kinds import *
from pyvc.values import *
from pyvc.symexec import Spec, LoopSpec
from specs import C20, track_model

G = "tracklib.util.geometry:"
SI = "tracklib.core.spatial_index:SpatialIndex."
DEPENDS = []


def z_line(s, x, y):
    """value at (x, y) of the cartesian equation of the line through segment s = (x1, y1, x2, y2)"""
    x1, y1, x2, y2 = s
    a, b = y2 - y1, -(x2 - x1)
    return a * x + b * y - (a * x1 + b * y1)


def z_intersects(s1, s2):
    return z3.And(z_line(s1, s2[0], s2[1]) * z_line(s1, s2[2], s2[3]) <= 0,
                  z_line(s2, s1[0], s1[1]) * z_line(s2, s1[2], s1[3]) <= 0)


def sf_intersects(ex, st, a, b):
    ra = [to_float(list_get(a, z3.IntVal(k)))[1] for k in range(4)]
    rb = [to_float(list_get(b, z3.IntVal(k)))[1] for k in range(4)]
    return vbool(z_intersects(ra, rb))


def register(reg):
    C20.register(reg)
    track_model.register_model(reg)
    reg.specfuncs.update(intersects=sf_intersects)
    reg.auto_inline |= {G + "__eval"}
    for f in ("xmin", "xmax", "ymin", "ymax", "dX", "dY"):
        reg.field("SpatialIndex", f, "real")
    reg.field("SpatialIndex", "csize", "int")
    reg.field("SpatialIndex", "lsize", "int")
    reg.field("SpatialIndex", "grid", "list[list[list[int]]]")
    S4 = ["len(segment1) == 4 and len(segment2) == 4",
          "all(not isnan(segment1[k]) and not isnan(segment2[k]) for k in range(0, 4))"]
    reg.add(Spec(G + "isSegmentIntersects", dict(segment1="list[float]", segment2="list[float]"), "bool", requires=S4,
                 ensures=[("sign-test-on-both-lines", "result == intersects(segment1, segment2)")]))

    WF = ["self.dX > 0 and self.dY > 0", "self.csize >= 1 and self.lsize >= 1", "self.xmin < self.xmax and self.ymin < self.ymax"]
    reg.add(Spec(SI + "groundDistanceToUnits", dict(self="SpatialIndex", distance="float"), "int",
                 requires=WF + ["not isnan(distance) and distance >= 0"],
                 hints=["use mul_mono(distance / min(self.dX, self.dY), result, self.dX)",
                        "use mul_mono(distance / min(self.dX, self.dY), result, self.dY)",
                        "use div_cancel(distance / min(self.dX, self.dY), min(self.dX, self.dY), distance, 1)",
                        "use mul_mono(min(self.dX, self.dY), self.dX, distance / min(self.dX, self.dY))",
                        "use mul_mono(min(self.dX, self.dY), self.dY, distance / min(self.dX, self.dY))",
                        "use mul_nonneg(distance / min(self.dX, self.dY), min(self.dX, self.dY))"],
                 ensures=[("at-least-one", "result >= 1"),
                          ("covers-the-distance-along-x", "result * self.dX > distance"),
                          ("covers-the-distance-along-y", "result * self.dY > distance")]))

    INSIDE = "(self.xmin <= coord.E and coord.E <= self.xmax and self.ymin <= coord.N and coord.N <= self.ymax)"
    reg.add(Spec(SI + "_SpatialIndex__getCell", dict(self="SpatialIndex", coord="ENUCoords"), "opt[tuple[float,float]]",
                 requires=WF + ["not isnan(coord.E) and not isnan(coord.N)"],
                 ensures=[("none-iff-outside", "(result is None) == (not %s)" % INSIDE),
                          ("normalised-x", "implies(result is not None, not isnan(result[0]) and 0 <= result[0] and result[0] <= self.csize and "
                           "(result[0] * self.dX == coord.E - self.xmin or (result[0] == self.csize and result[0] * self.dX <= coord.E - self.xmin)))"),
                          ("normalised-y", "implies(result is not None, not isnan(result[1]) and 0 <= result[1] and result[1] <= self.lsize and "
                           "(result[1] * self.dY == coord.N - self.ymin or (result[1] == self.lsize and result[1] * self.dY <= coord.N - self.ymin)))")]))

    reg.add(Spec(SI + "_SpatialIndex__neighboringcells", dict(self="SpatialIndex", i="int", j="int", u="int"), "list[tuple[int,int]]",
                 requires=WF + ["0 <= i and i < self.csize and 0 <= j and j < self.lsize", "u >= 0"],
                 locals=dict(NC="list[tuple[int,int]]"),
                 loops={"1": LoopSpec(inv=["all(implies(imin <= a and a < ii and jmin <= b and b < jmax, any(NC[q] == (a, b) for q in range(0, len(NC)))) "
                                           "for a in ints for b in ints)",
                                           "all(0 <= NC[q][0] and NC[q][0] < self.csize and 0 <= NC[q][1] and NC[q][1] < self.lsize for q in range(0, len(NC)))"]),
                        "1.1": LoopSpec(inv=["all(implies(jmin <= b and b < jmax and ((imin <= a and a < ii) or (a == ii and b < jj)), "
                                             "any(NC[q] == (a, b) for q in range(0, len(NC)))) for a in ints for b in ints)",
                                             "all(0 <= NC[q][0] and NC[q][0] < self.csize and 0 <= NC[q][1] and NC[q][1] < self.lsize for q in range(0, len(NC)))"])},
                 ensures=[("every-cell-within-u-units",
                           "all(implies(0 <= a and a < self.csize and 0 <= b and b < self.lsize and i - u <= a and a <= i + u and j - u <= b and b <= j + u, "
                           "any(result[q] == (a, b) for q in range(0, len(result)))) for a in ints for b in ints)"),
                          ("only-grid-cells", "all(0 <= result[q][0] and result[q][0] < self.csize and 0 <= result[q][1] and result[q][1] < self.lsize "
                           "for q in range(0, len(result)))")]))


    # ---------------------------------------------------------------- cells crossed by a segment (grid units)
    # Ghost inputs A0, B0, S0 are arbitrary: "for every point P(S0) of the segment and the cell (A0, B0) containing it".
    X1, Y1, X2, Y2 = "coord1[0]", "coord1[1]", "coord2[0]", "coord2[1]"
    PX = "(%s + S0 * (%s - %s))" % (X1, X2, X1)
    PY = "(%s + S0 * (%s - %s))" % (Y1, Y2, Y1)
    INCELL = ("((A0 <= %s and %s < A0 + 1) or (%s == self.csize and A0 == self.csize - 1)) and "
              "((B0 <= %s and %s < B0 + 1) or (%s == self.lsize and B0 == self.lsize - 1))" % (PX, PX, PX, PY, PY, PY))
    MEM = "any(CELLS[q] == (A0, B0) for q in range(0, len(CELLS)))"
    SEG = "[%s, %s, %s, %s]" % (X1, Y1, X2, Y2)
    COND = ("((A0 < %s and %s < A0 + 1 and A0 < %s and %s < A0 + 1 and B0 < %s and %s < B0 + 1 and B0 < %s and %s < B0 + 1) or "
            "intersects([A0, B0, A0 + 1, B0], %s) or intersects([A0, B0, A0, B0 + 1], %s) or "
            "intersects([A0, B0 + 1, A0 + 1, B0 + 1], %s) or intersects([A0 + 1, B0, A0 + 1, B0 + 1], %s))"
            % (X1, X1, X2, X2, Y1, Y1, Y2, Y2, SEG, SEG, SEG, SEG))
    GRIDPT = ["not isnan(%s) and not isnan(%s) and not isnan(%s) and not isnan(%s)" % (X1, Y1, X2, Y2),
              "0 <= %s and %s <= self.csize and 0 <= %s and %s <= self.csize" % (X1, X1, X2, X2),
              "0 <= %s and %s <= self.lsize and 0 <= %s and %s <= self.lsize" % (Y1, Y1, Y2, Y2)]
    GH = "(0 <= S0 and S0 <= 1 and 0 <= A0 and A0 < self.csize and 0 <= B0 and B0 < self.lsize and %s)" % INCELL
    BETW = ["use mul_nonneg(S0, %s - %s)" % (X2, X1), "use mul_nonneg(S0, %s - %s)" % (X1, X2),
            "use mul_nonneg(1 - S0, %s - %s)" % (X2, X1), "use mul_nonneg(1 - S0, %s - %s)" % (X1, X2),
            "use mul_nonneg(S0, %s - %s)" % (Y2, Y1), "use mul_nonneg(S0, %s - %s)" % (Y1, Y2),
            "use mul_nonneg(1 - S0, %s - %s)" % (Y2, Y1), "use mul_nonneg(1 - S0, %s - %s)" % (Y1, Y2),
            "use distrib(1, S0, %s - %s)" % (X2, X1), "use distrib(1, S0, %s - %s)" % (Y2, Y1),
            ("point-between-the-ends-x", "implies(%s, min(%s, %s) <= %s and %s <= max(%s, %s))" % (GH, X1, X2, PX, PX, X1, X2)),
            ("point-between-the-ends-y", "implies(%s, min(%s, %s) <= %s and %s <= max(%s, %s))" % (GH, Y1, Y2, PY, PY, Y1, Y2)),
            ("cell-in-the-scanned-range", "implies(%s, xmin <= A0 and A0 <= xmax and ymin <= B0 and B0 <= ymax)" % GH),
            ("cell-satisfies-the-crossing-test", "implies(%s, %s)" % (GH, COND))]
    reg.add(Spec(SI + "_SpatialIndex__cellsCrossSegment", dict(self="SpatialIndex", coord1="tuple[float,float]", coord2="tuple[float,float]"),
                 "list[tuple[int,int]]", ghost=dict(A0="int", B0="int", S0="real"),
                 requires=WF + GRIDPT,
                 locals=dict(CELLS="list[tuple[int,int]]"),
                 loops={"1": LoopSpec(inv=["implies(xmin <= A0 and A0 < i and ymin <= B0 and B0 <= ymax and %s, %s)" % (COND, MEM),
                                           "all(0 <= CELLS[q][0] and CELLS[q][0] < self.csize and 0 <= CELLS[q][1] and CELLS[q][1] < self.lsize for q in range(0, len(CELLS)))"]),
                        "1.1": LoopSpec(inv=["implies(xmin <= A0 and (A0 < i or (A0 == i and B0 < j)) and ymin <= B0 and B0 <= ymax and %s, %s)" % (COND, MEM),
                                             "all(0 <= CELLS[q][0] and CELLS[q][0] < self.csize and 0 <= CELLS[q][1] and CELLS[q][1] < self.lsize for q in range(0, len(CELLS)))"])},
                 hints=BETW,
                 ensures=[("cell-containing-a-point-of-the-segment-is-returned",
                           "implies(%s, any(result[q] == (A0, B0) for q in range(0, len(result))))" % GH),
                          ("only-grid-cells", "all(0 <= result[q][0] and result[q][0] < self.csize and 0 <= result[q][1] and result[q][1] < self.lsize "
                           "for q in range(0, len(result)))")]))


    # ---------------------------------------------------------------- registration and point query
    reg.field("SpatialIndex", "inventaire", "set[tuple[int,int,int]]")
    IN = lambda d, i, j: "any(self.grid[%s][%s][q_] == %s for q_ in range(0, len(self.grid[%s][%s])))" % (i, j, d, i, j)
    GWF = ["len(self.grid) == self.csize", "all(len(self.grid[i_]) == self.lsize for i_ in range(0, self.csize))"]
    INVENT = ("all(implies(0 <= i_ and i_ < self.csize and 0 <= j_ and j_ < self.lsize and (i_, j_, d_) in self.inventaire, %s) "
              "for i_ in ints for j_ in ints for d_ in ints)" % IN("d_", "i_", "j_"))
    GROWS = ("all(implies(0 <= i_ and i_ < self.csize and 0 <= j_ and j_ < self.lsize and old(%s), %s) "
             "for i_ in ints for j_ in ints for d_ in ints)" % (IN("d_", "i_", "j_"), IN("d_", "i_", "j_")))
    # cells only grow, stated without an existential: every cell keeps its old content as a prefix
    GROWS = ("all(len(self.grid[i_][j_]) >= old(len(self.grid[i_][j_])) and all(self.grid[i_][j_][q_] == old(self.grid[i_][j_][q_]) "
             "for q_ in range(0, old(len(self.grid[i_][j_])))) for i_ in range(0, self.csize) for j_ in range(0, self.lsize))")
    OTHERS = "unchanged_except('SpatialIndex.grid', self) and unchanged_except('SpatialIndex.inventaire', self)"
    reg.add(Spec(SI + "_SpatialIndex__addSegment", dict(self="SpatialIndex", coord1="tuple[float,float]", coord2="tuple[float,float]", data="int"),
                 "none", ghost=dict(A0="int", B0="int", S0="real"),
                 requires=WF + GRIDPT + GWF + [INVENT],
                 modifies=["SpatialIndex.grid", "SpatialIndex.inventaire"],
                 locals=dict(G0="list[list[list[int]]]", V0="set[tuple[int,int,int]]"),
                 at={"i = cell[0]": ["ghost G0 = self.grid", "ghost V0 = self.inventaire"],
                     "self.inventaire.add((i, j, data))": [
                         ("other-cells-as-before", "all(implies(i_ != i or j_ != j, same(self.grid[i_][j_], G0[i_][j_])) "
                          "for i_ in range(0, self.csize) for j_ in range(0, self.lsize))"),
                         ("this-cell-extended", "len(self.grid[i][j]) == len(G0[i][j]) + 1 and self.grid[i][j][len(G0[i][j])] == data and "
                          "all(self.grid[i][j][q_] == G0[i][j][q_] for q_ in range(0, len(G0[i][j])))"),
                         ("shape-kept", " and ".join(GWF)),
                         ("inventory-extended", "all(((i_, j_, d_) in self.inventaire) == (((i_, j_, d_) in V0) or (i_ == i and j_ == j and d_ == data)) "
                          "for i_ in ints for j_ in ints for d_ in ints)")]},
                 loops={"1": LoopSpec(inv=GWF + [INVENT, GROWS, OTHERS,
                                                 "implies(any(CELLS[q] == (A0, B0) for q in range(0, _k)), %s)" % IN("data", "A0", "B0")],
                                      hints=[("cells-keep-their-prefix",
                                              "all(len(self.grid[i_][j_]) >= len(G0[i_][j_]) and all(self.grid[i_][j_][q_] == G0[i_][j_][q_] "
                                              "for q_ in range(0, len(G0[i_][j_]))) for i_ in range(0, self.csize) for j_ in range(0, self.lsize))"),
                                             ("new-inventory-entries-are-registered",
                                              "all(implies((i_, j_, d_) in self.inventaire and not ((i_, j_, d_) in V0), i_ == i and j_ == j and d_ == data) "
                                              "for i_ in ints for j_ in ints for d_ in ints)"),
                                             ("current-cell-in-grid", "0 <= i and i < self.csize and 0 <= j and j < self.lsize"),
                                             ("inventoried-means-registered", "implies((i, j, data) in V0, any(G0[i][j][q_] == data for q_ in range(0, len(G0[i][j]))))"),
                                             ("already-registered-stays", "implies(any(G0[i][j][q_] == data for q_ in range(0, len(G0[i][j]))), " + IN("data", "i", "j") + ")"),
                                             ("appended-at-the-end", "implies(not any(G0[i][j][q_] == data for q_ in range(0, len(G0[i][j]))) and not ((i, j, data) in V0), "
                                              "len(self.grid[i][j]) == len(G0[i][j]) + 1 and self.grid[i][j][len(G0[i][j])] == data)"),
                                             ("else-appended", "implies(not any(G0[i][j][q_] == data for q_ in range(0, len(G0[i][j]))) and not ((i, j, data) in V0), " + IN("data", "i", "j") + ")"),
                                             ("datum-is-in-the-current-cell", IN("data", "i", "j"))])},
                 ensures=[("grid-shape", " and ".join(GWF)), ("inventory-consistent", INVENT), ("cells-only-grow", GROWS),
                          ("registered-in-the-cell-of-every-point-of-the-segment", "implies(%s, %s)" % (GH, IN("data", "A0", "B0"))),
                          ("other-indexes-untouched", OTHERS)]))

    reg.add(Spec(SI + "request", dict(self="SpatialIndex", obj="int", j="int"), "list[int]",
                 requires=GWF + ["0 <= obj and obj < self.csize and 0 <= j and j < self.lsize"],
                 ensures=[("content-of-the-cell", "same(result, self.grid[obj][j])")]), variant=None)
    CX = "min(math.floor((obj.E - self.xmin) / self.dX), self.csize - 1)"
    CY = "min(math.floor((obj.N - self.ymin) / self.dY), self.lsize - 1)"
    EXACT = ["self.xmax - self.xmin == self.csize * self.dX", "self.ymax - self.ymin == self.lsize * self.dY"]
    reg.add(Spec(SI + "request", dict(self="SpatialIndex", obj="ENUCoords"), "list[int]",
                 requires=WF + GWF + EXACT + ["not isnan(obj.E) and not isnan(obj.N)",
                                              "self.xmin <= obj.E and obj.E <= self.xmax and self.ymin <= obj.N and obj.N <= self.ymax"],
                 hints=["use mul_mono((obj.E - self.xmin) / self.dX, self.csize, self.dX)", "use mul_mono(self.csize, (obj.E - self.xmin) / self.dX, self.dX)",
                        "use mul_mono((obj.N - self.ymin) / self.dY, self.lsize, self.dY)", "use mul_mono(self.lsize, (obj.N - self.ymin) / self.dY, self.dY)",
                        "use div_cancel((obj.E - self.xmin) / self.dX, self.dX, obj.E - self.xmin, 1)",
                        "use div_cancel((obj.N - self.ymin) / self.dY, self.dY, obj.N - self.ymin, 1)",
                        "use mul_nonneg((obj.E - self.xmin) / self.dX, self.dX)", "use mul_nonneg((obj.N - self.ymin) / self.dY, self.dY)"],
                 ensures=[("content-of-the-cell-containing-the-point", "same(result, self.grid[%s][%s])" % (CX, CY))]), variant="coord")


    # addFeature: every point of every segment of the track gets the feature number registered in its cell.
    # Ghost K0 (segment index), S0 (parameter), A0/B0 (the cell of that ground point) are arbitrary.
    GXk = "((X(track, %s) - self.xmin) / self.dX)"
    GYk = "((Y(track, %s) - self.ymin) / self.dY)"
    PGX = "((X(track, K0) + S0 * (X(track, K0 + 1) - X(track, K0)) - self.xmin) / self.dX)"
    PGY = "((Y(track, K0) + S0 * (Y(track, K0 + 1) - Y(track, K0)) - self.ymin) / self.dY)"
    INCELL_G = ("((A0 <= %s and %s < A0 + 1) or (%s == self.csize and A0 == self.csize - 1)) and "
                "((B0 <= %s and %s < B0 + 1) or (%s == self.lsize and B0 == self.lsize - 1))" % (PGX, PGX, PGX, PGY, PGY, PGY))
    GHG = ("(0 <= K0 and K0 + 1 < npts(track) and 0 <= S0 and S0 <= 1 and 0 <= A0 and A0 < self.csize and 0 <= B0 and B0 < self.lsize and %s)" % INCELL_G)
    INSIDE_ALL = ("all(not isnan(X(track, r)) and not isnan(Y(track, r)) and self.xmin <= X(track, r) and X(track, r) <= self.xmax and "
                  "self.ymin <= Y(track, r) and Y(track, r) <= self.ymax for r in range(0, npts(track)))")
    reg.add(Spec(SI + "addFeature", dict(self="SpatialIndex", track="Track", num="int"), "none",
                 ghost=dict(K0="int", S0="real", A0="int", B0="int"),
                 requires=WF + GWF + EXACT + [INVENT, INSIDE_ALL],
                 modifies=["SpatialIndex.grid", "SpatialIndex.inventaire"],
                 at={"p2 = self.__getCell(coord2)": [
                         "use div_cancel(%s, self.dX, X(track, i - 1) - self.xmin, 1)" % (GXk % "i - 1"),
                         "use div_cancel(%s, self.dX, X(track, i) - self.xmin, 1)" % (GXk % "i"),
                         "use div_cancel(%s, self.dY, Y(track, i - 1) - self.ymin, 1)" % (GYk % "i - 1"),
                         "use div_cancel(%s, self.dY, Y(track, i) - self.ymin, 1)" % (GYk % "i"),
                         "use div_cancel(%s, self.dX, X(track, K0) + S0 * (X(track, K0 + 1) - X(track, K0)) - self.xmin, 1)" % PGX,
                         "use div_cancel(%s, self.dY, Y(track, K0) + S0 * (Y(track, K0 + 1) - Y(track, K0)) - self.ymin, 1)" % PGY,
                         ("first-end-in-grid-units", "p1 is not None and p1[0] * self.dX == X(track, i - 1) - self.xmin and p1[1] * self.dY == Y(track, i - 1) - self.ymin"),
                         ("second-end-in-grid-units", "p2 is not None and p2[0] * self.dX == X(track, i) - self.xmin and p2[1] * self.dY == Y(track, i) - self.ymin"),
                         "use distrib(p1[0] + S0 * (p2[0] - p1[0]), %s, self.dX)" % PGX,
                         "use distrib(p1[1] + S0 * (p2[1] - p1[1]), %s, self.dY)" % PGY,
                         ("same-point-in-grid-units-x", "implies(i - 1 == K0, (p1[0] + S0 * (p2[0] - p1[0])) * self.dX == %s * self.dX)" % PGX),
                         ("same-point-in-grid-units-y", "implies(i - 1 == K0, (p1[1] + S0 * (p2[1] - p1[1])) * self.dY == %s * self.dY)" % PGY),
                         "use mul_cancel(self.dX, p1[0] + S0 * (p2[0] - p1[0]), %s)" % PGX,
                         "use mul_cancel(self.dY, p1[1] + S0 * (p2[1] - p1[1]), %s)" % PGY,
                         ("affine-map-commutes-with-interpolation",
                          "implies(i - 1 == K0, p1[0] + S0 * (p2[0] - p1[0]) == %s and p1[1] + S0 * (p2[1] - p1[1]) == %s)" % (PGX, PGY))]},
                 loops={"1": LoopSpec(inv=GWF + [INVENT, GROWS, OTHERS,
                                                 "(i == 0 and coord1 is None) or (i > 0 and coord1 is not None and coord1 == obs(track, i - 1).position)",
                                                 "implies(%s and K0 + 1 < i, %s)" % (GHG, IN("num", "A0", "B0"))])},
                 ensures=[("grid-shape", " and ".join(GWF)), ("inventory-consistent", INVENT), ("cells-only-grow", GROWS),
                          ("registered-in-the-cell-of-every-point-of-every-segment", "implies(%s, %s)" % (GHG, IN("num", "A0", "B0"))),
                          ("other-indexes-untouched", OTHERS)],
                 ghost_calls={"_SpatialIndex__addSegment": {"A0": "A0", "B0": "B0", "S0": "S0"}}))


    # ---------------------------------------------------------------- track query: request(track)
    # every datum registered in the cell of any point of any segment of the query track is returned.  Ghost D0 = the
    # datum, (A0, B0) = the cell, K0 / S0 = the segment and the parameter of the point (all arbitrary).
    # __addCellValuesInTAB appends to the caller's list: it is inlined, the final list is written back (Python aliasing).
    INTAB = "any(TAB[q_] == %s for q_ in range(0, len(TAB)))"
    reg.add(Spec(SI + "_SpatialIndex__addCellValuesInTAB", dict(self="SpatialIndex", TAB="list[int]", cell="tuple[int,int]"), "none", inline=True,
                 locals=dict(TAB_IN="list[int]"),
                 at={"values = self.request(cell[0], cell[1])": ["ghost TAB_IN = TAB"]},
                 loops={"1": LoopSpec(inv=["len(TAB) >= len(TAB_IN) and all(TAB[q_] == TAB_IN[q_] for q_ in range(0, len(TAB_IN)))",
                                           "all(%s for r_ in range(0, _k))" % (INTAB % "values[r_]")])}))
    reg.add(Spec(SI + "request", dict(self="SpatialIndex", obj="Track"), "list[int]",
                 ghost=dict(K0="int", S0="real", A0="int", B0="int", D0="int"),
                 requires=WF + GWF + EXACT + [INSIDE_ALL.replace("track", "obj")], locals=dict(TAB="list[int]"),
                 at={"coord2 = self.__getCell(pos2)": [
                         "use div_cancel(%s, self.dX, X(obj, i - 1) - self.xmin, 1)" % (GXk % "i - 1").replace("track", "obj"),
                         "use div_cancel(%s, self.dX, X(obj, i) - self.xmin, 1)" % (GXk % "i").replace("track", "obj"),
                         "use div_cancel(%s, self.dY, Y(obj, i - 1) - self.ymin, 1)" % (GYk % "i - 1").replace("track", "obj"),
                         "use div_cancel(%s, self.dY, Y(obj, i) - self.ymin, 1)" % (GYk % "i").replace("track", "obj"),
                         "use div_cancel(%s, self.dX, X(obj, K0) + S0 * (X(obj, K0 + 1) - X(obj, K0)) - self.xmin, 1)" % PGX.replace("track", "obj"),
                         "use div_cancel(%s, self.dY, Y(obj, K0) + S0 * (Y(obj, K0 + 1) - Y(obj, K0)) - self.ymin, 1)" % PGY.replace("track", "obj"),
                         ("first-end-in-grid-units", "coord1 is not None and coord1[0] * self.dX == X(obj, i - 1) - self.xmin and coord1[1] * self.dY == Y(obj, i - 1) - self.ymin"),
                         ("second-end-in-grid-units", "coord2 is not None and coord2[0] * self.dX == X(obj, i) - self.xmin and coord2[1] * self.dY == Y(obj, i) - self.ymin"),
                         "use distrib(coord1[0] + S0 * (coord2[0] - coord1[0]), %s, self.dX)" % PGX.replace("track", "obj"),
                         "use distrib(coord1[1] + S0 * (coord2[1] - coord1[1]), %s, self.dY)" % PGY.replace("track", "obj"),
                         ("same-point-in-grid-units-x", "implies(i - 1 == K0, (coord1[0] + S0 * (coord2[0] - coord1[0])) * self.dX == %s * self.dX)" % PGX.replace("track", "obj")),
                         ("same-point-in-grid-units-y", "implies(i - 1 == K0, (coord1[1] + S0 * (coord2[1] - coord1[1])) * self.dY == %s * self.dY)" % PGY.replace("track", "obj")),
                         "use mul_cancel(self.dX, coord1[0] + S0 * (coord2[0] - coord1[0]), %s)" % PGX.replace("track", "obj"),
                         "use mul_cancel(self.dY, coord1[1] + S0 * (coord2[1] - coord1[1]), %s)" % PGY.replace("track", "obj"),
                         ("affine-map-commutes-with-interpolation",
                          "implies(i - 1 == K0, coord1[0] + S0 * (coord2[0] - coord1[0]) == %s and coord1[1] + S0 * (coord2[1] - coord1[1]) == %s)"
                          % (PGX.replace("track", "obj"), PGY.replace("track", "obj")))]},
                 loops={"2": LoopSpec(inv=["(i == 0 and pos1 is None) or (i > 0 and pos1 is not None and pos1 is obs(obj, i - 1).position)",
                                           "implies(%s and K0 + 1 < i and %s, %s)" % (GHG.replace("track", "obj"), IN("D0", "A0", "B0"), INTAB % "D0")]),
                        "2.1": LoopSpec(inv=["implies(%s and K0 + 1 < i and %s, %s)" % (GHG.replace("track", "obj"), IN("D0", "A0", "B0"), INTAB % "D0"),
                                             "implies(any(CELLS[q] == (A0, B0) for q in range(0, _k)) and %s, %s)" % (IN("D0", "A0", "B0"), INTAB % "D0")])},
                 ghost_calls={"_SpatialIndex__cellsCrossSegment": {"A0": "A0", "B0": "B0", "S0": "S0"}},
                 ensures=[("every-datum-of-the-cell-of-every-point-of-every-segment-is-returned",
                           "implies(%s and %s, any(result[q_] == D0 for q_ in range(0, len(result))))" % (GHG.replace("track", "obj"), IN("D0", "A0", "B0")))]),
            variant="track")

    # ---------------------------------------------------------------- segment query: request([coord1, coord2])
    SGX = "((obj[0].E + S0 * (obj[1].E - obj[0].E) - self.xmin) / self.dX)"
    SGY = "((obj[0].N + S0 * (obj[1].N - obj[0].N) - self.ymin) / self.dY)"
    INCELL_S = ("((A0 <= %s and %s < A0 + 1) or (%s == self.csize and A0 == self.csize - 1)) and "
                "((B0 <= %s and %s < B0 + 1) or (%s == self.lsize and B0 == self.lsize - 1))" % (SGX, SGX, SGX, SGY, SGY, SGY))
    GHS = "(0 <= S0 and S0 <= 1 and 0 <= A0 and A0 < self.csize and 0 <= B0 and B0 < self.lsize and %s)" % INCELL_S
    INSIDE_2 = ("len(obj) == 2 and all(not isnan(obj[r].E) and not isnan(obj[r].N) and self.xmin <= obj[r].E and obj[r].E <= self.xmax and "
                "self.ymin <= obj[r].N and obj[r].N <= self.ymax for r in range(0, 2))")
    reg.add(Spec(SI + "request", dict(self="SpatialIndex", obj="list[ENUCoords]"), "list[int]",
                 ghost=dict(S0="real", A0="int", B0="int", D0="int"),
                 requires=WF + GWF + EXACT + [INSIDE_2], locals=dict(TAB="list[int]"),
                 at={"p2 = self.__getCell(coord2)": [
                         "use div_cancel((obj[0].E - self.xmin) / self.dX, self.dX, obj[0].E - self.xmin, 1)",
                         "use div_cancel((obj[1].E - self.xmin) / self.dX, self.dX, obj[1].E - self.xmin, 1)",
                         "use div_cancel((obj[0].N - self.ymin) / self.dY, self.dY, obj[0].N - self.ymin, 1)",
                         "use div_cancel((obj[1].N - self.ymin) / self.dY, self.dY, obj[1].N - self.ymin, 1)",
                         "use div_cancel(%s, self.dX, obj[0].E + S0 * (obj[1].E - obj[0].E) - self.xmin, 1)" % SGX,
                         "use div_cancel(%s, self.dY, obj[0].N + S0 * (obj[1].N - obj[0].N) - self.ymin, 1)" % SGY,
                         ("first-end-in-grid-units", "p1 is not None and p1[0] * self.dX == obj[0].E - self.xmin and p1[1] * self.dY == obj[0].N - self.ymin"),
                         ("second-end-in-grid-units", "p2 is not None and p2[0] * self.dX == obj[1].E - self.xmin and p2[1] * self.dY == obj[1].N - self.ymin"),
                         "use distrib(p1[0] + S0 * (p2[0] - p1[0]), %s, self.dX)" % SGX,
                         "use distrib(p1[1] + S0 * (p2[1] - p1[1]), %s, self.dY)" % SGY,
                         ("same-point-in-grid-units-x", "(p1[0] + S0 * (p2[0] - p1[0])) * self.dX == %s * self.dX" % SGX),
                         ("same-point-in-grid-units-y", "(p1[1] + S0 * (p2[1] - p1[1])) * self.dY == %s * self.dY" % SGY),
                         "use mul_cancel(self.dX, p1[0] + S0 * (p2[0] - p1[0]), %s)" % SGX,
                         "use mul_cancel(self.dY, p1[1] + S0 * (p2[1] - p1[1]), %s)" % SGY,
                         ("affine-map-commutes-with-interpolation", "p1[0] + S0 * (p2[0] - p1[0]) == %s and p1[1] + S0 * (p2[1] - p1[1]) == %s" % (SGX, SGY))]},
                 loops={"1": LoopSpec(inv=["implies(any(CELLS[q] == (A0, B0) for q in range(0, _k)) and %s, %s)" % (IN("D0", "A0", "B0"), INTAB % "D0")])},
                 ghost_calls={"_SpatialIndex__cellsCrossSegment": {"A0": "A0", "B0": "B0", "S0": "S0"}},
                 ensures=[("every-datum-of-the-cell-of-every-point-of-the-segment-is-returned",
                           "implies(%s and %s, any(result[q_] == D0 for q_ in range(0, len(result))))" % (GHS, IN("D0", "A0", "B0")))]),
            variant="segment")

    # ---------------------------------------------------------------- neighbourhood query (unit given)
    NEAR = "(0 <= A0 and A0 < self.csize and 0 <= B0 and B0 < self.lsize and %s - unit <= A0 and A0 <= %s + unit and %s - unit <= B0 and B0 <= %s + unit)"
    FALSE_LOOPS = {k: LoopSpec(inv=["False"]) for k in ("2", "2.1", "3", "3.1", "4", "4.1", "4.2", "4.2.1", "5", "5.1")}
    loops_ij = dict(FALSE_LOOPS)
    loops_ij["1"] = LoopSpec(inv=["implies(any(NC[q] == (A0, B0) for q in range(0, _k)) and %s, D0 in TAB)" % IN("D0", "A0", "B0")])
    reg.add(Spec(SI + "neighborhood", dict(self="SpatialIndex", obj="int", j="int", unit="int"), "list[int]",
                 ghost=dict(A0="int", B0="int", D0="int"),
                 requires=WF + GWF + ["0 <= obj and obj < self.csize and 0 <= j and j < self.lsize", "unit >= 0"],
                 locals=dict(TAB="set[int]"), loops=loops_ij,
                 ensures=[("every-datum-of-every-cell-within-unit-cells",
                           "implies(%s and %s, any(result[q] == D0 for q in range(0, len(result))))" % (NEAR % ("obj", "obj", "j", "j"), IN("D0", "A0", "B0")))]))
    reg.add(Spec(SI + "neighborhood", dict(self="SpatialIndex", obj="ENUCoords", unit="int"), "list[int]",
                 ghost=dict(A0="int", B0="int", D0="int"),
                 requires=WF + GWF + EXACT + ["not isnan(obj.E) and not isnan(obj.N)", "unit >= 0",
                                              "self.xmin <= obj.E and obj.E <= self.xmax and self.ymin <= obj.N and obj.N <= self.ymax"],
                 fresh=["ENUCoords"], loops=dict(FALSE_LOOPS, **{"1": LoopSpec(inv=["False"])}),
                 hints=["use mul_mono((obj.E - self.xmin) / self.dX, self.csize, self.dX)", "use mul_mono(self.csize, (obj.E - self.xmin) / self.dX, self.dX)",
                        "use mul_mono((obj.N - self.ymin) / self.dY, self.lsize, self.dY)", "use mul_mono(self.lsize, (obj.N - self.ymin) / self.dY, self.dY)",
                        "use div_cancel((obj.E - self.xmin) / self.dX, self.dX, obj.E - self.xmin, 1)",
                        "use div_cancel((obj.N - self.ymin) / self.dY, self.dY, obj.N - self.ymin, 1)",
                        "use mul_nonneg((obj.E - self.xmin) / self.dX, self.dX)", "use mul_nonneg((obj.N - self.ymin) / self.dY, self.dY)"],
                 ensures=[("every-datum-of-every-cell-within-unit-cells-of-the-query-cell",
                           "implies(%s and %s, any(result[q] == D0 for q in range(0, len(result))))" % (NEAR % (CX, CX, CY, CY), IN("D0", "A0", "B0")))]),
            variant="coord")


def lemmas(reg):
    """ground-distance-to-cells: if a point q is within ground distance d of p and u cells cover d along both axes
    (u*dX > d, u*dY > d: groundDistanceToUnits), then the cell of q is within u cells of the cell of p."""
    px, py, qx, qy, d, dX, dY, xmin, ymin = z3.Reals("px qx0 qx qy d dX dY xmin ymin")
    u, cs, ls = z3.Ints("u cs ls")
    fl = lambda e, name: z3.Int(name)
    fpx, fqx, fpy, fqy = z3.Ints("fpx fqx fpy fqy")
    gx = lambda x: (x - xmin) / dX
    gy = lambda y: (y - ymin) / dY
    hyps = [dX > 0, dY > 0, d >= 0, u * dX > d, u * dY > d, cs >= 1, ls >= 1,
            (qx - px) * (qx - px) + (qy - py) * (qy - py) <= d * d,
            fpx <= gx(px), gx(px) < fpx + 1, fqx <= gx(qx), gx(qx) < fqx + 1,
            fpy <= gy(py), gy(py) < fpy + 1, fqy <= gy(qy), gy(qy) < fqy + 1]
    cell = lambda f, n: z3.If(f < n - 1, f, n - 1)
    return [("ground-distance-to-cells:x", hyps, z3.And(cell(fpx, cs) - u <= cell(fqx, cs), cell(fqx, cs) <= cell(fpx, cs) + u)),
            ("ground-distance-to-cells:y", hyps, z3.And(cell(fpy, ls) - u <= cell(fqy, ls), cell(fqy, ls) <= cell(fpy, ls) + u))]


USES_LIB = True
FUNCTIONS = [G + "isSegmentIntersects", SI + "_SpatialIndex__cellsCrossSegment", SI + "neighborhood", SI + "neighborhood@coord", SI + "_SpatialIndex__addSegment", SI + "request", SI + "request@coord", SI + "request@track", SI + "request@segment",
             SI + "addFeature", SI + "groundDistanceToUnits", SI + "_SpatialIndex__getCell", SI + "_SpatialIndex__neighboringcells"]
ASSUMPTIONS = ["grid geometry: dX, dY > 0, at least one cell per axis, positive extent",
               "request(track): the query track lies inside the indexed extent; __addCellValuesInTAB is inlined and its in-place append is written "
               "back to the caller's list (aliasing made explicit)",
               "positions are ENUCoords with non-NaN coordinates"]
