"""C08 — the grid spatial index never omits a feature that is geometrically there.

Leaves under contract: isSegmentIntersects (exact sign test), SpatialIndex.__getCell (None iff outside; else the
normalised coordinates, clamped to the grid size), groundDistanceToUnits (the returned number of cells covers the
ground distance along BOTH axes), __neighboringcells (every in-grid cell within u of (i, j) is returned),
__cellsCrossSegment (every cell that contains a point of the segment is returned: nested-loop invariant + the
real-arithmetic completeness lemma)."""
import z3
from pyvc.kinds import *
from pyvc.values import *
from pyvc.symexec import Spec, LoopSpec
from specs import C20, track_model

G = "tracklib.util.geometry:"
SI = "tracklib.core.spatial_index:SpatialIndex."
DEPENDS = []


def z_line(s, x, y):
    """value at (x, y) of the cartesian equation of the line through segment s = (x1, y1, x2, y2)"""
    x1, y1, x2, y2 = s
    a, b = y2 - y1, -(x2 - x1)
    return a * x + b * y - (a * x1 + b * y1)


def z_intersects(s1, s2):
    return z3.And(z_line(s1, s2[0], s2[1]) * z_line(s1, s2[2], s2[3]) <= 0,
                  z_line(s2, s1[0], s1[1]) * z_line(s2, s1[2], s1[3]) <= 0)


def sf_intersects(ex, st, a, b):
    ra = [to_float(list_get(a, z3.IntVal(k)))[1] for k in range(4)]
    rb = [to_float(list_get(b, z3.IntVal(k)))[1] for k in range(4)]
    return vbool(z_intersects(ra, rb))


def register(reg):
    C20.register(reg)
    track_model.register_model(reg)
    reg.specfuncs.update(intersects=sf_intersects)
    reg.auto_inline |= {G + "__eval"}
    for f in ("xmin", "xmax", "ymin", "ymax", "dX", "dY"):
        reg.field("SpatialIndex", f, "real")
    reg.field("SpatialIndex", "csize", "int")
    reg.field("SpatialIndex", "lsize", "int")
    reg.field("SpatialIndex", "grid", "list[list[list[int]]]")
    S4 = ["len(segment1) == 4 and len(segment2) == 4",
          "all(not isnan(segment1[k]) and not isnan(segment2[k]) for k in range(0, 4))"]
    reg.add(Spec(G + "isSegmentIntersects", dict(segment1="list[float]", segment2="list[float]"), "bool", requires=S4,
                 ensures=[("sign-test-on-both-lines", "result == intersects(segment1, segment2)")]))

    WF = ["self.dX > 0 and self.dY > 0", "self.csize >= 1 and self.lsize >= 1", "self.xmin < self.xmax and self.ymin < self.ymax"]
    reg.add(Spec(SI + "groundDistanceToUnits", dict(self="SpatialIndex", distance="float"), "int",
                 requires=WF + ["not isnan(distance) and distance >= 0"],
                 hints=["use mul_mono(distance / min(self.dX, self.dY), result, self.dX)",
                        "use mul_mono(distance / min(self.dX, self.dY), result, self.dY)",
                        "use div_cancel(distance / min(self.dX, self.dY), min(self.dX, self.dY), distance, 1)",
                        "use mul_mono(min(self.dX, self.dY), self.dX, distance / min(self.dX, self.dY))",
                        "use mul_mono(min(self.dX, self.dY), self.dY, distance / min(self.dX, self.dY))",
                        "use mul_nonneg(distance / min(self.dX, self.dY), min(self.dX, self.dY))"],
                 ensures=[("at-least-one", "result >= 1"),
                          ("covers-the-distance-along-x", "result * self.dX > distance"),
                          ("covers-the-distance-along-y", "result * self.dY > distance")]))

    INSIDE = "(self.xmin <= coord.E and coord.E <= self.xmax and self.ymin <= coord.N and coord.N <= self.ymax)"
    reg.add(Spec(SI + "_SpatialIndex__getCell", dict(self="SpatialIndex", coord="ENUCoords"), "opt[tuple[float,float]]",
                 requires=WF + ["not isnan(coord.E) and not isnan(coord.N)"],
                 ensures=[("none-iff-outside", "(result is None) == (not %s)" % INSIDE),
                          ("normalised-x", "implies(result is not None, not isnan(result[0]) and 0 <= result[0] and result[0] <= self.csize and "
                           "(result[0] * self.dX == coord.E - self.xmin or (result[0] == self.csize and result[0] * self.dX <= coord.E - self.xmin)))"),
                          ("normalised-y", "implies(result is not None, not isnan(result[1]) and 0 <= result[1] and result[1] <= self.lsize and "
                           "(result[1] * self.dY == coord.N - self.ymin or (result[1] == self.lsize and result[1] * self.dY <= coord.N - self.ymin)))")]))

    reg.add(Spec(SI + "_SpatialIndex__neighboringcells", dict(self="SpatialIndex", i="int", j="int", u="int"), "list[tuple[int,int]]",
                 requires=WF + ["0 <= i and i < self.csize and 0 <= j and j < self.lsize", "u >= 0"],
                 locals=dict(NC="list[tuple[int,int]]"),
                 loops={"1": LoopSpec(inv=["all(implies(imin <= a and a < ii and jmin <= b and b < jmax, any(NC[q] == (a, b) for q in range(0, len(NC)))) "
                                           "for a in ints for b in ints)",
                                           "all(0 <= NC[q][0] and NC[q][0] < self.csize and 0 <= NC[q][1] and NC[q][1] < self.lsize for q in range(0, len(NC)))"]),
                        "1.1": LoopSpec(inv=["all(implies(jmin <= b and b < jmax and ((imin <= a and a < ii) or (a == ii and b < jj)), "
                                             "any(NC[q] == (a, b) for q in range(0, len(NC)))) for a in ints for b in ints)",
                                             "all(0 <= NC[q][0] and NC[q][0] < self.csize and 0 <= NC[q][1] and NC[q][1] < self.lsize for q in range(0, len(NC)))"])},
                 ensures=[("every-cell-within-u-units",
                           "all(implies(0 <= a and a < self.csize and 0 <= b and b < self.lsize and i - u <= a and a <= i + u and j - u <= b and b <= j + u, "
                           "any(result[q] == (a, b) for q in range(0, len(result)))) for a in ints for b in ints)"),
                          ("only-grid-cells", "all(0 <= result[q][0] and result[q][0] < self.csize and 0 <= result[q][1] and result[q][1] < self.lsize "
                           "for q in range(0, len(result)))")]))


    # ---------------------------------------------------------------- cells crossed by a segment (grid units)
    # Ghost inputs A0, B0, S0 are arbitrary: "for every point P(S0) of the segment and the cell (A0, B0) containing it".
    X1, Y1, X2, Y2 = "coord1[0]", "coord1[1]", "coord2[0]", "coord2[1]"
    PX = "(%s + S0 * (%s - %s))" % (X1, X2, X1)
    PY = "(%s + S0 * (%s - %s))" % (Y1, Y2, Y1)
    INCELL = ("((A0 <= %s and %s < A0 + 1) or (%s == self.csize and A0 == self.csize - 1)) and "
              "((B0 <= %s and %s < B0 + 1) or (%s == self.lsize and B0 == self.lsize - 1))" % (PX, PX, PX, PY, PY, PY))
    MEM = "any(CELLS[q] == (A0, B0) for q in range(0, len(CELLS)))"
    SEG = "[%s, %s, %s, %s]" % (X1, Y1, X2, Y2)
    COND = ("((A0 < %s and %s < A0 + 1 and A0 < %s and %s < A0 + 1 and B0 < %s and %s < B0 + 1 and B0 < %s and %s < B0 + 1) or "
            "intersects([A0, B0, A0 + 1, B0], %s) or intersects([A0, B0, A0, B0 + 1], %s) or "
            "intersects([A0, B0 + 1, A0 + 1, B0 + 1], %s) or intersects([A0 + 1, B0, A0 + 1, B0 + 1], %s))"
            % (X1, X1, X2, X2, Y1, Y1, Y2, Y2, SEG, SEG, SEG, SEG))
    GRIDPT = ["not isnan(%s) and not isnan(%s) and not isnan(%s) and not isnan(%s)" % (X1, Y1, X2, Y2),
              "0 <= %s and %s <= self.csize and 0 <= %s and %s <= self.csize" % (X1, X1, X2, X2),
              "0 <= %s and %s <= self.lsize and 0 <= %s and %s <= self.lsize" % (Y1, Y1, Y2, Y2)]
    BETW = ["use mul_nonneg(S0, %s - %s)" % (X2, X1), "use mul_nonneg(S0, %s - %s)" % (X1, X2),
            "use mul_nonneg(1 - S0, %s - %s)" % (X2, X1), "use mul_nonneg(1 - S0, %s - %s)" % (X1, X2),
            "use mul_nonneg(S0, %s - %s)" % (Y2, Y1), "use mul_nonneg(S0, %s - %s)" % (Y1, Y2),
            "use mul_nonneg(1 - S0, %s - %s)" % (Y2, Y1), "use mul_nonneg(1 - S0, %s - %s)" % (Y1, Y2),
            "use distrib(1, S0, %s - %s)" % (X2, X1), "use distrib(1, S0, %s - %s)" % (Y2, Y1),
            ("point-between-the-ends-x", "min(%s, %s) <= %s and %s <= max(%s, %s)" % (X1, X2, PX, PX, X1, X2)),
            ("point-between-the-ends-y", "min(%s, %s) <= %s and %s <= max(%s, %s)" % (Y1, Y2, PY, PY, Y1, Y2)),
            ("cell-in-the-scanned-range", "xmin <= A0 and A0 <= xmax and ymin <= B0 and B0 <= ymax"),
            ("cell-satisfies-the-crossing-test", COND)]
    reg.add(Spec(SI + "_SpatialIndex__cellsCrossSegment", dict(self="SpatialIndex", coord1="tuple[float,float]", coord2="tuple[float,float]"),
                 "list[tuple[int,int]]", ghost=dict(A0="int", B0="int", S0="real"),
                 requires=WF + GRIDPT + ["0 <= S0 and S0 <= 1", "0 <= A0 and A0 < self.csize and 0 <= B0 and B0 < self.lsize", INCELL],
                 locals=dict(CELLS="list[tuple[int,int]]"),
                 loops={"1": LoopSpec(inv=["implies(xmin <= A0 and A0 < i and ymin <= B0 and B0 <= ymax and %s, %s)" % (COND, MEM),
                                           "all(0 <= CELLS[q][0] and CELLS[q][0] < self.csize and 0 <= CELLS[q][1] and CELLS[q][1] < self.lsize for q in range(0, len(CELLS)))"]),
                        "1.1": LoopSpec(inv=["implies(xmin <= A0 and (A0 < i or (A0 == i and B0 < j)) and ymin <= B0 and B0 <= ymax and %s, %s)" % (COND, MEM),
                                             "all(0 <= CELLS[q][0] and CELLS[q][0] < self.csize and 0 <= CELLS[q][1] and CELLS[q][1] < self.lsize for q in range(0, len(CELLS)))"])},
                 hints=BETW,
                 ensures=[("cell-containing-a-point-of-the-segment-is-returned", "any(result[q] == (A0, B0) for q in range(0, len(result)))"),
                          ("only-grid-cells", "all(0 <= result[q][0] and result[q][0] < self.csize and 0 <= result[q][1] and result[q][1] < self.lsize "
                           "for q in range(0, len(result)))")]))


USES_LIB = True
FUNCTIONS = [G + "isSegmentIntersects", SI + "_SpatialIndex__cellsCrossSegment", SI + "groundDistanceToUnits", SI + "_SpatialIndex__getCell", SI + "_SpatialIndex__neighboringcells"]
ASSUMPTIONS = ["grid geometry: dX, dY > 0, at least one cell per axis, positive extent",
               "positions are ENUCoords with non-NaN coordinates"]
