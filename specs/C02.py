"""C02 — algebraic feature expressions evaluate to ordinary arithmetic on the features.

Deductive part: the operator objects.  Every void operator below is verified against its DOCUMENTED pointwise
definition (the table in the Operator class docstring), written here independently of the code:
    result[i] = F(inputs at i, i-1, i+1, scalar argument)        for every observation i, NaN included,
the result is stored under the output name (created if absent), every other column, coordinate and observation is
unchanged.  The loop invariants are generated from the same formula ("map loops").  Operators built on APPLY
(Inverter, Rectifier, Square, Diode, Sign, Identity, Inverser, Thresholder) are verified with Apply.execute inlined and
their own lambda.  Second batch: Shift (y(t) = x(t - k), NaN outside), ShiftRight / ShiftLeft / ShiftRev through it,
ScalarDivider (x * (1 / k)), ScalarRevDivider (k * (1 / x)) and the read-only aggregates Sum, Averager (folds over the
non-NaN values), Min, Max, Argmax, Zeros, Mse, Rmse; Debiaser from the contracts of Averager and ScalarAdder; Reverser and Log store their result with track[name] = list (Track.__setitem__, C01).
The expression parser / RPN evaluator (string rewriting, recursion over unbounded strings) is bounded only."""
import z3
from pyvc.kinds import *
from pyvc.values import *
from pyvc.symexec import Spec, LoopSpec
from specs import track_model
from specs.track_model import T, DICO, ALLCOLS_SAME

OPS = "tracklib.core.operators:"
DEPENDS = []
N = "npts(track)"
A = "old(col(track, af_input1, %s))"
B = "old(col(track, af_input2, %s))"
U = "old(col(track, af_input, %s))"
OTHER_OBS = ("all(implies(all(obs(track, q) != o for q in range(0, npts(track))), untouched(o, 'Obs.features')) "
             "for o in refs(Obs))")

# name -> (formula of the value at index r, first index of the loop, last index excluded (None = n), edge values)
BINARY = {
    "Adder": "%s + %s" % (A % "r", B % "r"),
    "Substracter": "%s - %s" % (A % "r", B % "r"),
    "Multiplier": "%s * %s" % (A % "r", B % "r"),
    "Divider": "(NAN if %s == 0 else fdiv(%s, %s))" % (B % "r", A % "r", B % "r"),
    "Above": "(1.0 if %s > %s else 0.0)" % (A % "r", B % "r"),
    "Below": "(1.0 if %s < %s else 0.0)" % (A % "r", B % "r"),
    "PointwiseEqualer": "(1 if %s == %s else 0)" % (A % "r", B % "r"),
}
SCALAR = {
    "ScalarAdder": "%s + number" % (U % "r"),
    "ScalarSubstracter": "%s - number" % (U % "r"),
    "ScalarRevSubstracter": "number - %s" % (U % "r"),
    "ScalarMuliplier": "%s * number" % (U % "r"),
    "ScalarBelow": "(1.0 if 0.0 + %s < number else 0.0)" % (U % "r"),
    "ScalarAbove": "(1.0 if 0.0 + %s > number else 0.0)" % (U % "r"),
    "ScalarRevBelow": "(1.0 if 0.0 + number < %s else 0.0)" % (U % "r"),
    "ScalarRevAbove": "(1.0 if 0.0 + number > %s else 0.0)" % (U % "r"),
}
# finite differences: (formula inside, loop range lo, hi offset, NaN at the first index, NaN at the last index)
DIFF = {
    "Differentiator": ("%s - %s" % (U % "r", U % "(r - 1)"), 1, 0, True, False),
    "BackwardFiniteDiff": ("%s - %s" % (U % "r", U % "(r - 1)"), 1, 0, True, False),
    "ForwardFiniteDiff": ("%s - %s" % (U % "(r + 1)", U % "r"), 0, 1, False, True),
    "CenteredFiniteDiff": ("%s - %s" % (U % "(r + 1)", U % "(r - 1)"), 1, 1, True, True),
    "SecondOrderFiniteDiff": ("%s - 2 * %s + %s" % (U % "(r + 1)", U % "r", U % "(r - 1)"), 1, 1, True, True),
}
APPLY = {
    "Inverter": "-%s" % (U % "r"),
    "Square": "%s * %s" % (U % "r", U % "r"),
    "Diode": "%s * (1 if %s > 0 else 0)" % (U % "r", U % "r"),
    "Rectifier": "-%s * (1 if %s < 0 else 0) + %s * (1 if %s > 0 else 0)" % (U % "r", U % "r", U % "r", U % "r"),
    "Sign": "1 * (1 if %s >= 0 else 0) - 1 * (1 if %s < 0 else 0)" % (U % "r", U % "r"),
}


def sf_nan(ex, st):
    return vfloat(float("nan"))


def common(out="af_output"):
    return [("wf", "twf(track)"),
            ("length", "len(result) == " + N),
            ("stored", "hasname(track, %s) and all(same(col(track, %s, r), result[r]) for r in range(0, %s))" % (out, out, N)),
            ("names", "all(implies(k != %s, hasname(track, k) == old(hasname(track, k))) for k in strs)" % out),
            ("other-columns", (ALLCOLS_SAME % out).replace("self", "track")),
            ("other-observations", OTHER_OBS),
            ("coordinates", "unchanged('ENUCoords.E', 'ENUCoords.N', 'ENUCoords.U')")]


def register(reg):
    track_model.register(reg)
    reg.auto_inline |= {T + "operate"}
    MOD = ["Obs.features", "Track." + DICO, "ENUCoords.E", "ENUCoords.N", "ENUCoords.U"]
    funcs = []

    def inputs_ok(names):
        return ["twf(track)", N + " >= 1", "not reserved(af_output)"] + \
               ["not reserved(%s) and hasname(track, %s)" % (n, n) for n in names]

    for cls, f in BINARY.items():
        reg.add(Spec(OPS + cls + ".execute", dict(self=cls, track="Track", af_input1="str", af_input2="str", af_output="str"), "list[float]",
                     requires=inputs_ok(["af_input1", "af_input2"]), modifies=MOD, locals=dict(temp="list[float]"),
                     loops={"1": LoopSpec(inv=["len(temp) == " + N, "all(same(temp[r], %s) for r in range(0, i))" % f])},
                     ensures=[("documented-pointwise-value", "all(same(result[r], %s) for r in range(0, %s))" % (f, N))] + common()))
        funcs.append(OPS + cls + ".execute")
    for cls, f in SCALAR.items():
        reg.add(Spec(OPS + cls + ".execute", dict(self=cls, track="Track", af_input="str", number="float", af_output="str"), "list[float]",
                     requires=inputs_ok(["af_input"]), modifies=MOD, locals=dict(temp="list[float]"),
                     loops={"1": LoopSpec(inv=["len(temp) == " + N, "all(same(temp[r], %s) for r in range(0, i))" % f])},
                     ensures=[("documented-pointwise-value", "all(same(result[r], %s) for r in range(0, %s))" % (f, N))] + common()))
        funcs.append(OPS + cls + ".execute")
    for cls, (f, lo, hi, nan0, nanN) in DIFF.items():
        inside = "%d <= r and r < %s - %d" % (lo, N, hi)
        val = "(%s if (%s) else (NAN if %s else 0.0))" % (f, inside, " or ".join(
            (["r == 0"] if nan0 else []) + (["r == %s - 1" % N] if nanN else [])) or "False")
        reg.add(Spec(OPS + cls + ".execute", dict(self=cls, track="Track", af_input="str", af_output="str"), "list[float]",
                     requires=inputs_ok(["af_input"]), modifies=MOD, locals=dict(temp="list[float]"),
                     loops={"1": LoopSpec(inv=["len(temp) == " + N, "all(same(temp[r], %s) for r in range(%d, i))" % (f, lo),
                                               "all(same(temp[r], 0.0) for r in range(0, %s) if r < %d or r >= i)" % (N, lo)])},
                     ensures=[("documented-pointwise-value", "all(same(result[r], %s) for r in range(0, %s))" % (val, N))] + common()))
        funcs.append(OPS + cls + ".execute")
    # APPLY: generic in its function argument; inlined into the operators built on it
    reg.add(Spec(OPS + "Apply.execute", dict(self="Apply", track="Track", af_input="str", function="func", af_output="str"), "list[float]",
                 inline=True, locals=dict(temp="list[float]"),
                 loops={"1": LoopSpec(inv=["len(temp) == " + N, "all(same(temp[r], function(%s)) for r in range(0, i))" % (U % "r")])}))
    for cls, f in APPLY.items():
        reg.add(Spec(OPS + cls + ".execute", dict(self=cls, track="Track", af_input="str", af_output="str"), "list[float]",
                     requires=inputs_ok(["af_input"]), modifies=MOD,
                     ensures=[("documented-pointwise-value", "all(same(result[r], %s) for r in range(0, %s))" % (f, N))] + common()))
        funcs.append(OPS + cls + ".execute")
    # ---- second batch: shifts, quotients by a scalar, identity / inverse / threshold, aggregates
    SHIFTV = "(NAN if (r - number < 0 or r - number >= %s) else %s)" % (N, U % "(r - number)")
    reg.add(Spec(OPS + "Shift.execute", dict(self="Shift", track="Track", af_input="str", number="int", af_output="str"), "list[float]",
                 requires=inputs_ok(["af_input"]), modifies=MOD, locals=dict(temp="list[float]"),
                 loops={"1": LoopSpec(inv=["len(temp) == " + N, "all(same(temp[r], %s) for r in range(0, i))" % SHIFTV])},
                 ensures=[("documented-pointwise-value", "all(same(result[r], %s) for r in range(0, %s))" % (SHIFTV, N))] + common()))
    funcs.append(OPS + "Shift.execute")
    for cls, k in (("ShiftRight", "1"), ("ShiftLeft", "-1")):
        v = "(NAN if (r - (%s) < 0 or r - (%s) >= %s) else %s)" % (k, k, N, U % ("(r - (%s))" % k))
        reg.add(Spec(OPS + cls + ".execute", dict(self=cls, track="Track", af_input="str", af_output="str"), "list[float]",
                     requires=inputs_ok(["af_input"]), modifies=MOD,
                     ensures=[("documented-pointwise-value", "all(same(result[r], %s) for r in range(0, %s))" % (v, N))] + common()))
        funcs.append(OPS + cls + ".execute")
    reg.add(Spec(OPS + "ShiftRev.execute", dict(self="ShiftRev", track="Track", af_input="str", number="int", af_output="str"), "list[float]",
                 requires=inputs_ok(["af_input"]), modifies=MOD,
                 ensures=[("documented-pointwise-value", "all(same(result[r], %s) for r in range(0, %s))"
                           % ("(NAN if (r + number < 0 or r + number >= %s) else %s)" % (N, U % "(r + number)"), N))] + common()))
    funcs.append(OPS + "ShiftRev.execute")
    APPLY2 = {"Identity": (U % "r", []),
              # 1 / x raises ZeroDivisionError on a zero value (unlike the binary '/' operator, which yields NaN): required away
              "Inverser": ("1.0 / %s" % (U % "r"), ["all(isnan(col(track, af_input, r)) or col(track, af_input, r) != 0 for r in range(0, %s))" % N])}
    for cls, (f, extra) in APPLY2.items():
        reg.add(Spec(OPS + cls + ".execute", dict(self=cls, track="Track", af_input="str", af_output="str"), "list[float]",
                     requires=inputs_ok(["af_input"]) + extra, modifies=MOD,
                     ensures=[("documented-pointwise-value", "all(same(result[r], %s) for r in range(0, %s))" % (f, N))] + common()))
        funcs.append(OPS + cls + ".execute")
    reg.add(Spec(OPS + "ScalarDivider.execute", dict(self="ScalarDivider", track="Track", af_input="str", number="float", af_output="str"), "list[float]",
                 requires=inputs_ok(["af_input"]) + ["isnan(number) or number != 0"], modifies=MOD,
                 ensures=[("documented-pointwise-value", "all(same(result[r], %s * fdiv(1.0, number)) for r in range(0, %s))" % (U % "r", N))] + common()))
    funcs.append(OPS + "ScalarDivider.execute")
    reg.add(Spec(OPS + "ScalarRevDivider.execute", dict(self="ScalarRevDivider", track="Track", af_input="str", number="float", af_output="str"), "list[float]",
                 requires=inputs_ok(["af_input"]) + ["all(isnan(col(track, af_input, r)) or col(track, af_input, r) != 0 for r in range(0, %s))" % N],
                 modifies=MOD,
                 ensures=[("documented-pointwise-value", "all(same(result[r], (1.0 / %s) * number) for r in range(0, %s))" % (U % "r", N))] + common()))
    funcs.append(OPS + "ScalarRevDivider.execute")
    reg.add(Spec(OPS + "Thresholder.execute", dict(self="Thresholder", track="Track", af_input="str", number="float", af_output="str"), "none",
                 requires=inputs_ok(["af_input"]) + ["not isnan(number)"], modifies=MOD,
                 ensures=[("documented-pointwise-value", "all(same(col(track, af_output, r), (NAN if isnan(%s) else (%s if %s < number else number))) for r in range(0, %s))"
                           % (U % "r", U % "r", U % "r", N))] + [c for c in common() if c[0] not in ("length", "stored")]))
    funcs.append(OPS + "Thresholder.execute")
    # operators that store their result with a bracket assignment track[af_output] = list (contract of Track.__setitem__, C01)
    SETITEM = {"Reverser": ("old(col(track, af_input, %s - 1 - r))" % N, "temp[r] == old(col(track, af_input, %s - 1 - r))" % N, "same(temp[r], old(col(track, af_input, %s - 1 - r)))" % N),
               "Log": ("(math.log(%s) if %s > 0 else 0.0)" % (U % "r", U % "r"), None, "same(temp[r], (math.log(%s) if %s > 0 else 0.0))" % (U % "r", U % "r"))}
    for cls, (f, _, invf) in SETITEM.items():
        reg.add(Spec(OPS + cls + ".execute", dict(self=cls, track="Track", af_input="str", af_output="str"), "none",
                     requires=inputs_ok(["af_input"]), modifies=MOD, locals=dict(temp="list[float]"),
                     loops={"1": LoopSpec(inv=["len(temp) == " + N, "all(%s for r in range(0, i))" % invf,
                                               "unchanged('Obs.features', 'Track.%s', 'ENUCoords.E', 'ENUCoords.N', 'ENUCoords.U')" % DICO])},
                     ensures=[("documented-pointwise-value", "all(same(col(track, af_output, r), %s) for r in range(0, %s))" % (f, N))]
                     + [c for c in common() if c[0] not in ("length", "stored")] + [("stored", "hasname(track, af_output)")]))
        funcs.append(OPS + cls + ".execute")
    # aggregates (read-only): XS is a ghost copy of the input column, so that the folds can be written over a list
    AGG_REQ = ["twf(track)", "not reserved(af_input) and hasname(track, af_input)", "len(XS) == " + N,
               "all(same(XS[r], col(track, af_input, r)) for r in range(0, %s))" % N]
    AP = dict(track="Track", af_input="str")
    reg.add(Spec(OPS + "Sum.execute", dict(self="Sum", **AP), "float", ghost=dict(XS="list[float]"), requires=AGG_REQ,
                 loops={"1": LoopSpec(inv=["not isnan(somme)", "somme == sumnn(XS, i)"])},
                 ensures=[("sum-of-the-values-that-are-numbers", "not isnan(result) and result == sumnn(XS, %s)" % N)]))
    reg.add(Spec(OPS + "Averager.execute", dict(self="Averager", **AP), "float", ghost=dict(XS="list[float]"),
                 requires=AGG_REQ + ["countnn(XS, %s) > 0" % N],      # no number at all: ZeroDivisionError (0 / 0)
                 loops={"1": LoopSpec(inv=["not isnan(mean)", "mean == sumnn(XS, i)", "count == countnn(XS, i)"])},
                 ensures=[("mean-of-the-values-that-are-numbers", "not isnan(result) and result == fdiv(sumnn(XS, %s), countnn(XS, %s))" % (N, N))]))
    reg.add(Spec(OPS + "Min.execute", dict(self="Min", **AP), "float", requires=AGG_REQ[:2],
                 loops={"1": LoopSpec(inv=["not isnan(minimum) and minimum <= 1e+300", "all(not (col(track, af_input, q) < minimum) for q in range(0, i))",
                                           "minimum == 1e+300 or any(same(minimum, col(track, af_input, q)) for q in range(0, i))"])},
                 ensures=[("below-every-value", "all(not (col(track, af_input, q) < result) for q in range(0, %s))" % N),
                          ("one-of-the-values-or-the-initial-bound", "result == 1e+300 or any(same(result, col(track, af_input, q)) for q in range(0, %s))" % N)]))
    reg.add(Spec(OPS + "Max.execute", dict(self="Max", **AP), "float", requires=AGG_REQ[:2],
                 loops={"1": LoopSpec(inv=["not isnan(maximum) and maximum >= -1e+300", "all(not (col(track, af_input, q) > maximum) for q in range(0, i))",
                                           "maximum == -1e+300 or any(same(maximum, col(track, af_input, q)) for q in range(0, i))"])},
                 ensures=[("above-every-value", "all(not (col(track, af_input, q) > result) for q in range(0, %s))" % N),
                          ("one-of-the-values-or-the-initial-bound", "result == -1e+300 or any(same(result, col(track, af_input, q)) for q in range(0, %s))" % N)]))
    funcs += [OPS + c + ".execute" for c in ("Sum", "Averager", "Min", "Max")]
    # third batch: Argmax (index of a largest value above -1e300, NaN never selected), Zeros (the indices of the zero values, in order)
    cq = "col(track, af_input, %s)"
    reg.add(Spec(OPS + "Argmax.execute", dict(self="Argmax", **AP), "int", requires=AGG_REQ[:2],
                 loops={"1": LoopSpec(inv=["not isnan(maximum) and maximum >= -1e+300", "0 <= idmax and (idmax < i or idmax == 0)", "implies(maximum == -1e+300, idmax == 0)",
                                           "implies(maximum > -1e+300, idmax < i and same(maximum, %s))" % (cq % "idmax"),
                                           "all(not (%s > maximum) for q in range(0, i))" % (cq % "q"),
                                           "all(implies(q < idmax, not (%s >= maximum and maximum > -1e+300)) for q in range(0, i))" % (cq % "q")])},
                 ensures=[("an-index", "0 <= result and (result < %s or result == 0)" % N),
                          ("largest-of-the-values-above-minus-1e300", "all(implies(%s > -1e+300, %s > -1e+300 and %s >= %s) for q in range(0, %s))"
                           % (cq % "q", cq % "result", cq % "result", cq % "q", N)),
                          ("first-index-of-the-largest", "all(implies(q < result, not (%s >= %s)) for q in range(0, %s))"
                           % (cq % "q", cq % "result", N))]))
    reg.add(Spec(OPS + "Zeros.execute", dict(self="Zeros", **AP), "list[int]", requires=AGG_REQ[:2], locals=dict(zeros="list[int]"),
                 loops={"1": LoopSpec(inv=["all(0 <= zeros[k] and zeros[k] < i and %s == 0 for k in range(0, len(zeros)))" % (cq % "zeros[k]"),
                                           "all(zeros[k] < zeros[k + 1] for k in range(0, len(zeros) - 1))",
                                           "all(implies(%s == 0, any(zeros[k] == q for k in range(0, len(zeros)))) for q in range(0, i))" % (cq % "q")])},
                 ensures=[("only-indices-of-zero-values", "all(0 <= result[k] and result[k] < %s and %s == 0 for k in range(0, len(result)))" % (N, cq % "result[k]")),
                          ("in-increasing-order", "all(result[k] < result[k + 1] for k in range(0, len(result) - 1))"),
                          ("every-zero-value-is-listed", "all(implies(%s == 0, any(result[k] == q for k in range(0, len(result)))) for q in range(0, %s))" % (cq % "q", N))]))
    funcs += [OPS + c + ".execute" for c in ("Argmax", "Zeros")]
    # Mse: mean of the squares of the values that are numbers (SQ: ghost list of the squares), Rmse: its square root through Mse's contract
    SQ_REQ = AGG_REQ[:2] + ["len(SQ) == " + N, "all(same(SQ[r], col(track, af_input, r) * col(track, af_input, r)) for r in range(0, %s))" % N,
                            "countnn(SQ, %s) > 0" % N]      # no number at all: ZeroDivisionError (0 / 0)
    reg.add(Spec(OPS + "Mse.execute", dict(self="Mse", **AP), "float", ghost=dict(SQ="list[float]"), requires=SQ_REQ,
                 loops={"1": LoopSpec(inv=["not isnan(mse)", "mse == sumnn(SQ, i)", "count == countnn(SQ, i)", "mse >= 0", "count >= 0"])},
                 ensures=[("mean-of-the-squares-of-the-values-that-are-numbers",
                           "not isnan(result) and result == fdiv(sumnn(SQ, %s), countnn(SQ, %s))" % (N, N)),
                          ("not-negative", "result >= 0")]))
    reg.add(Spec(OPS + "Rmse.execute", dict(self="Rmse", **AP), "float", ghost=dict(SQ="list[float]"), requires=SQ_REQ,
                 ensures=[("root-of-the-mean-of-the-squares",
                           "not isnan(result) and result >= 0 and result * result == fdiv(sumnn(SQ, %s), countnn(SQ, %s))" % (N, N))]))
    funcs += [OPS + "Mse.execute", OPS + "Rmse.execute"]
    # Debiaser: x - mean(x) through the contracts of Averager and ScalarAdder (Track.operate inlined; callee contracts, not bodies)
    MEAN = "fdiv(sumnn(XS, %s), countnn(XS, %s))" % (N, N)
    reg.add(Spec(OPS + "Debiaser.execute", dict(self="Debiaser", track="Track", af_input="str", af_output="str"), "list[float]",
                 ghost=dict(XS="list[float]"), requires=inputs_ok(["af_input"]) + AGG_REQ[2:] + ["countnn(XS, %s) > 0" % N], modifies=MOD,
                 ensures=[("documented-pointwise-value", "all(same(result[r], %s + (-%s)) for r in range(0, %s))" % (U % "r", MEAN, N))] + common()))
    funcs.append(OPS + "Debiaser.execute")
    reg.specfuncs["NANV"] = sf_nan
    FUNCTIONS[:] = funcs


FUNCTIONS = []
USES_LIB = True
ASSUMPTIONS = ["math.sqrt (Rmse): r >= 0 and r*r == x for x >= 0 (trusted axiom); math.log (Log) is an uninterpreted function of its argument",
               "operator objects: inputs are feature names present in the track (not x, y, z, t, idx), the track has at least one observation",
               "division is real division (uninterpreted fdiv); NaN propagates as in IEEE; no rounding (A-REAL)",
               "Inverser / ScalarRevDivider: no input value is 0, ScalarDivider: the scalar is not 0 (1 / 0 raises ZeroDivisionError there, unlike the binary '/' operator); Averager / Debiaser / Mse / Rmse: at least one value is a number",
               "the expression parser, makeRPN, __evaluateRPN / __applyOperation dispatch, the circular shifts, powers, modulo, the transcendental functions and the remaining aggregates (Median, Variance, StdDev, Mad, Covariance, ...) are bounded only"]
