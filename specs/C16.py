"""C16 — simplification keeps the end points, only drops fixes, honours its tolerance.

Under contract: distance_to_segment, douglas_peucker (recursive contract incl. the tolerance clause), and the whole
Visvalingam chain: triangle_area, aire_visval, Operator.ARGMIN (Argmin.execute, Track.operate), addAnalyticalFeature
bound to aire_visval (real try / except IndexError), removeObs, visvalingam.

distance_to_segment: never fails (degenerate chord included), returns the distance from P to a point of the segment
(the per-coordinate clamp of the foot equals A + clamp(t)(B - A)), so it is an upper bound of nothing smaller than
the true distance to the segment -- which is what the tolerance clause needs -- and it is 0 at the chord's ends."""
import z3
from pyvc.kinds import *
from pyvc.values import *
from pyvc.symexec import Spec, LoopSpec
from specs import track_model

G = "tracklib.util.geometry:"
DEPENDS = []

DOT = "((x0 - x1) * (x2 - x1) + (y0 - y1) * (y2 - y1))"
L2 = "((x2 - x1) * (x2 - x1) + (y2 - y1) * (y2 - y1))"


_LA = z3.ArraySort(z3.IntSort(), z3.IntSort())
IDXIN = z3.Function("index_in", _LA, z3.IntSort(), z3.IntSort(), z3.IntSort())      # position of an object in a list of distinct objects


def ax_idxin():
    """definition of index_in on lists of pairwise distinct references: if l[p] is o (0 <= p < n) then index_in(l, n, o) = p"""
    l, n, o, p, a, b = z3.Const("l!x", _LA), z3.Int("n!x"), z3.Int("o!x"), z3.Int("p!x"), z3.Int("a!x"), z3.Int("b!x")
    dist = z3.ForAll([a, b], z3.Implies(z3.And(0 <= a, a < b, b < n), z3.Select(l, a) != z3.Select(l, b)))
    return [z3.ForAll([l, n, p], z3.Implies(z3.And(dist, 0 <= p, p < n), IDXIN(l, n, z3.Select(l, p)) == p),
                      patterns=[IDXIN(l, n, z3.Select(l, p))])]


def sf_idxin(ex, st, l, o):
    return vint(IDXIN(l.terms[1], l.terms[0], o.terms[0]))


def register(reg):
    track_model.register(reg)
    reg.specfuncs.update(idxin=sf_idxin)
    reg.axioms.append(("index_in", ax_idxin))
    NN = ["not isnan(x0) and not isnan(y0) and not isnan(x1) and not isnan(y1) and not isnan(x2) and not isnan(y2)"]
    P = dict(x0="float", y0="float", x1="float", y1="float", x2="float", y2="float")
    TCW_ = "(0 if (psn / l) <= 0 else (1 if (psn / l) >= 1 else (psn / l)))"
    TC = "(0 if %s <= 0 else (1 if %s >= %s else %s / %s))" % (DOT, DOT, L2, DOT, L2)
    reg.add(Spec(G + "distance_to_segment", P, "float", requires=NN, denotes="dseg",
                 cases=dict(degenerate="x1 == x2 and y1 == y2", proper="x1 != x2 or y1 != y2"),
                 at={"l = math.sqrt((x2 - x1) * (x2 - x1) + (y2 - y1) * (y2 - y1))": [
                         ("length-squared", "l >= 0 and l * l == %s" % L2),
                         "use sq_nonneg(x2 - x1)", "use sq_nonneg(y2 - y1)",
                         ("zero-length-iff-degenerate", "(l == 0) == (x1 == x2 and y1 == y2)")],
                     "yproj = y1 + psn / l * (y2 - y1)": [
                         ("parameter", "psn * l == %s" % DOT),
                         "use div_cancel(psn / l, l * l, %s, 1)" % DOT,
                         ("foot-parameter", "(psn / l) * %s == %s" % (L2, DOT))],
                     "yproj = min(max(yproj, y), Y)": [
                         "use mul_nonneg(psn / l, x2 - x1)", "use mul_nonneg(psn / l, x1 - x2)",
                         "use mul_nonneg(psn / l, y2 - y1)", "use mul_nonneg(psn / l, y1 - y2)",
                         "use mul_nonneg(psn / l - 1, x2 - x1)", "use mul_nonneg(psn / l - 1, x1 - x2)",
                         "use mul_nonneg(psn / l - 1, y2 - y1)", "use mul_nonneg(psn / l - 1, y1 - y2)",
                         "use distrib(psn / l, 1, x2 - x1)", "use distrib(psn / l, 1, y2 - y1)",
                         "use distrib(psn / l, 1, x1 - x2)", "use distrib(psn / l, 1, y1 - y2)",
                         ("clamp-x-is-clamping-the-parameter", "xproj == x1 + (0 if (psn / l) <= 0 else (1 if (psn / l) >= 1 else (psn / l))) * (x2 - x1)"),
                         ("clamp-y-is-clamping-the-parameter", "yproj == y1 + (0 if (psn / l) <= 0 else (1 if (psn / l) >= 1 else (psn / l))) * (y2 - y1)")]},
                 ensures_local=[("distance-to-the-single-point", "implies(x1 == x2 and y1 == y2, result * result == (x0 - x1) * (x0 - x1) + (y0 - y1) * (y0 - y1))"),
                                ("distance-to-a-point-of-the-segment",
                           "implies(x1 != x2 or y1 != y2, result * result == (x0 - (x1 + TCW * (x2 - x1))) * (x0 - (x1 + TCW * (x2 - x1))) + "
                           "(y0 - (y1 + TCW * (y2 - y1))) * (y0 - (y1 + TCW * (y2 - y1))))".replace("TCW", TCW_))],
                 ensures=[("non-negative", "not isnan(result) and result >= 0"),
                          ("zero-at-the-first-end", "implies(x0 == x1 and y0 == y1, result == 0)"),
                          ("zero-at-the-second-end", "implies(x0 == x2 and y0 == y2, result == 0)")]))


    # ---------------------------------------------------------------- Douglas-Peucker (recursive contract)
    from specs import C04
    C04.register(reg)
    S = "tracklib.algo.simplification:"
    n = "npts(track)"
    L = "old(pts(track))"
    reg.auto_inline |= {"tracklib.core.track:Track.getObsList", "tracklib.core.track:Track.__init__"}
    # Track(list, user_id=.., track_id=.., base=..): inline; uid / tid / base are opaque values
    REC = "RECB"

    def seg(k, r, j):
        return "dseg(X(track, %s), Y(track, %s), X(%s, %s), Y(%s, %s), X(%s, %s + 1), Y(%s, %s + 1))" % (k, k, r, j, r, j, r, j, r, j)
    MEMBER = "any(obs(result, q) is %s[p] and %%s for p in range(0, %s))" % (L, n)
    reg.add(Spec(S + "douglas_peucker", dict(track="Track", eps="float"), "Track", decreases="npts(track)",
                 ghost=dict(K0="int"), ghost_calls={"douglas_peucker#1": dict(K0="K0"), "douglas_peucker#2": dict(K0="K0 - imax")},
                 requires=["all(implies(a < b, obs(track, a) is not obs(track, b)) for a in range(0, %s) for b in range(0, %s))" % (n, n),
                           "not isnan(eps) and eps > 0",
                           "all(not isnan(X(track, r)) and not isnan(Y(track, r)) for r in range(0, %s))" % n],
                 fresh=["Track"],
                 # RECB: ghost flag "the recursive branch was taken" (so that the proof steps below do not repeat the code's test)
                 at={"n = len(L)": ["ghost RECB = False"],
                     "XY2 = tracklib.Track(L[imax:n], user_id=track.uid, track_id=track.tid, base=track.base)": ["ghost RECB = True"]},
                 hints=[("left-part-indices", "implies(RECB, all(idxin(%s, obs(ret1_douglas_peucker, q)) == idxin(pts(XY1), obs(ret1_douglas_peucker, q)) "
                         "and idxin(%s, obs(ret1_douglas_peucker, q)) < imax for q in range(0, npts(ret1_douglas_peucker))))" % (L, L)),
                        ("right-part-indices", "implies(RECB, all(idxin(%s, obs(ret2_douglas_peucker, q)) == idxin(pts(XY2), obs(ret2_douglas_peucker, q)) + imax "
                         "and idxin(%s, obs(ret2_douglas_peucker, q)) >= imax for q in range(0, npts(ret2_douglas_peucker))))" % (L, L)),
                        ("small-track-is-returned-whole", "implies(npts(track) <= 2, npts(result) == npts(track) and all(obs(result, q) is old(pts(track))[q] and idxin(old(pts(track)), obs(result, q)) == q "
                         "for q in range(0, npts(track))))"),
                        ("chord-only", "implies(npts(track) > 2 and not RECB, npts(result) == 2 and obs(result, 0) is old(pts(track))[0] and obs(result, 1) is old(pts(track))[npts(track) - 1] and "
                         "idxin(old(pts(track)), obs(result, 0)) == 0 and idxin(old(pts(track)), obs(result, 1)) == npts(track) - 1)"),
                        ("left-part-ordered", "implies(RECB, all(implies(q < q2, idxin(old(pts(track)), obs(ret1_douglas_peucker, q)) < idxin(old(pts(track)), obs(ret1_douglas_peucker, q2))) "
                         "for q in range(0, npts(ret1_douglas_peucker)) for q2 in range(0, npts(ret1_douglas_peucker))))"),
                        ("right-part-ordered", "implies(RECB, all(implies(q < q2, idxin(old(pts(track)), obs(ret2_douglas_peucker, q)) < idxin(old(pts(track)), obs(ret2_douglas_peucker, q2))) "
                         "for q in range(0, npts(ret2_douglas_peucker)) for q2 in range(0, npts(ret2_douglas_peucker))))"),
                        ("left-part-members", "implies(RECB, all(0 <= idxin(old(pts(track)), obs(ret1_douglas_peucker, q)) and old(pts(track))[idxin(old(pts(track)), obs(ret1_douglas_peucker, q))] is obs(ret1_douglas_peucker, q) "
                         "for q in range(0, npts(ret1_douglas_peucker))))"),
                        ("right-part-members", "implies(RECB, all(idxin(old(pts(track)), obs(ret2_douglas_peucker, q)) < npts(track) and old(pts(track))[idxin(old(pts(track)), obs(ret2_douglas_peucker, q))] is obs(ret2_douglas_peucker, q) "
                         "for q in range(0, npts(ret2_douglas_peucker))))"),
                        ("result-length", "implies(RECB, npts(result) == npts(ret1_douglas_peucker) + npts(ret2_douglas_peucker))"),
                        ("result-left", "implies(RECB, all(obs(result, q) is obs(ret1_douglas_peucker, q) for q in range(0, npts(ret1_douglas_peucker))))"),
                        # the same, indexed by the position in the result (so that it can be used from a position of the result)
                        ("left-part-within-tolerance", "implies(%s and imax >= 2 and 0 <= K0 and K0 < imax, any(%s <= eps for j in range(0, npts(ret1_douglas_peucker) - 1)))"
                         % (REC, seg("K0", "ret1_douglas_peucker", "j"))),
                        ("right-part-within-tolerance", "implies(%s and imax <= K0 and K0 < npts(track), any(%s <= eps for j in range(0, npts(ret2_douglas_peucker) - 1)))"
                         % (REC, seg("K0", "ret2_douglas_peucker", "j"))),
                        ("result-right-by-position", "implies(RECB, all(implies(q >= npts(ret1_douglas_peucker), "
                         "obs(result, q) is obs(ret2_douglas_peucker, q - npts(ret1_douglas_peucker))) for q in range(0, npts(result))))")],
                 loops={"1": LoopSpec(inv=["not isnan(dmax) and dmax >= 0", "0 <= imax and imax < n",
                                           "implies(dmax > 0, 1 <= imax and imax <= n - 2)", "implies(imax == 0, dmax == 0)",
                                           "all(dseg(X(track, r), Y(track, r), X(track, 0), Y(track, 0), X(track, n - 1), Y(track, n - 1)) <= dmax for r in range(0, i))"])},
                 ensures=[("new-track", "isnew(result)"),
                          ("same-size-when-at-most-two-fixes", "implies(%s <= 2, npts(result) == %s)" % (n, n)),
                          ("keeps-the-first-fix", "implies(%s >= 1, npts(result) >= 1 and obs(result, 0) is %s[0])" % (n, L)),
                          ("keeps-the-last-fix", "implies(%s >= 1, obs(result, npts(result) - 1) is %s[%s - 1])" % (n, L, n)),
                          ("only-input-fixes", "all(0 <= idxin(%s, obs(result, q)) and idxin(%s, obs(result, q)) < %s and "
                           "%s[idxin(%s, obs(result, q))] is obs(result, q) for q in range(0, npts(result)))" % (L, L, n, L, L)),
                          ("in-the-original-order", "all(implies(q < q2, idxin(%s, obs(result, q)) < idxin(%s, obs(result, q2))) "
                           "for q in range(0, npts(result)) for q2 in range(0, npts(result)))" % (L, L)),
                          # K0 is a ghost parameter (an arbitrary index): the clause holds for every input fix
                          ("every-input-fix-within-the-tolerance-of-the-result",
                           "implies(npts(track) >= 2 and 0 <= K0 and K0 < npts(track), any(%s <= eps for j in range(0, npts(result) - 1)))" % seg("K0", "result", "j")),
                          ("source-unchanged", "same(pts(track), %s)" % L)]))


    # ---------------------------------------------------------------- Visvalingam
    register_visvalingam(reg)


BIGF = "1e+300"


def tri(t, a, b, c):
    return "triarea(X(%s, %s), Y(%s, %s), X(%s, %s), Y(%s, %s), X(%s, %s), Y(%s, %s))" % (t, a, t, a, t, b, t, b, t, c, t, c)


def register_visvalingam(reg):
    from specs.track_model import T, DICO, PTS
    S = "tracklib.algo.simplification:"
    OPS = "tracklib.core.operators:"
    NNC = "all(not isnan(X(track, r)) and not isnan(Y(track, r)) for r in range(0, npts(track)))"
    # triangle_area: a pure function of six floats, denoted triarea(..) in the contracts below
    P6 = dict(x0="float", y0="float", x1="float", y1="float", x2="float", y2="float")
    reg.add(Spec(G + "triangle_area", P6, "float", denotes="triarea",
                 requires=["not isnan(x0) and not isnan(y0) and not isnan(x1) and not isnan(y1) and not isnan(x2) and not isnan(y2)"],
                 ensures=[("non-negative", "not isnan(result) and result >= 0")]))
    # aire_visval(track, i): area of the triangle (i-1, i, i+1); IndexError exactly at the last fix (i-1 = -1 wraps around
    # at the first fix: Python semantics, which is why visvalingam overwrites the value of fix 0)
    reg.add(Spec(G + "aire_visval", dict(track="Track", i="int"), "float", negative_indices=True,
                 requires=["0 <= i and i < npts(track)", NNC],
                 raises={"IndexError": "i + 1 >= npts(track)"},
                 ensures=[("area-of-the-neighbour-triangle", "implies(i >= 1, result == %s)" % tri("track", "i - 1", "i", "i + 1")),
                          ("a-number", "not isnan(result)")]))
    # Operator.ARGMIN: index of a smallest value below 1e300 (NaN never selected)
    c = "col(track, af_input, %s)"
    reg.add(Spec(OPS + "Argmin.execute", dict(self="Argmin", track="Track", af_input="str"), "int",
                 requires=["twf(track)", "hasname(track, af_input)", "not reserved(af_input)"],
                 loops={"1": LoopSpec(inv=["not isnan(minimum) and minimum <= %s" % BIGF, "0 <= idmin and (idmin < i or idmin == 0)",
                                           "implies(minimum < %s, idmin < i and same(minimum, %s))" % (BIGF, c % "idmin"),
                                           "all(not (%s < minimum) for q in range(0, i))" % (c % "q")])},
                 ensures=[("an-index", "0 <= result and (result < npts(track) or result == 0)"),
                          ("smallest-of-the-values-below-1e300", "all(implies(%s < %s, %s < %s and %s <= %s) for q in range(0, npts(track)))"
                           % (c % "q", BIGF, c % "result", BIGF, c % "result", c % "q"))]))
    c2 = "col(self, arg1, %s)"
    reg.add(Spec(T + "operate", dict(self="Track", operator="Argmin", arg1="str"), "int",
                 requires=["twf(self)", "hasname(self, arg1)", "not reserved(arg1)"],
                 ensures=[("an-index", "0 <= result and (result < npts(self) or result == 0)"),
                          ("smallest-of-the-values-below-1e300", "all(implies(%s < %s, %s < %s and %s <= %s) for q in range(0, npts(self)))"
                           % (c2 % "q", BIGF, c2 % "result", BIGF, c2 % "result", c2 % "q"))]), variant="argmin")
    # addAnalyticalFeature(aire_visval, name): the real generic loop with its try / except IndexError, the algorithm fixed to
    # aire_visval: interior fixes get the area of their neighbour triangle, the last fix NaN (IndexError caught)
    from specs.track_model import ALLCOLS_SAME
    OTHER_OBS = ("all(implies(all(obs(self, q) != o for q in range(0, npts(self))), untouched(o, 'Obs.features')) "
                 "for o in refs(Obs))")

    def arel(v, r):
        return "(isnan(%s) if %s == npts(self) - 1 else (not isnan(%s) and implies(%s >= 1, %s == %s)))" % (
            v, r, v, r, v, tri("self", "%s - 1" % r, r, "%s + 1" % r))
    reg.add(Spec(T + "addAnalyticalFeature", dict(self="Track", name="str"), "list[float]", bind=dict(algorithm=G + "aire_visval"),
                 requires=["twf(self)", NNC.replace("track", "self"), "not reserved(name)"],
                 raises={"AnalyticalFeatureError": "npts(self) <= 0 and not hasname(self, name)"},
                 modifies=["Obs.features", "Track." + DICO],
                 ensures=[("wf", "twf(self)"),
                          ("listed", "hasname(self, name)"),
                          ("names", "all(implies(k != name, hasname(self, k) == old(hasname(self, k))) for k in strs)"),
                          ("values", "all(%s for r in range(0, npts(self)))" % arel("col(self, name, r)", "r")),
                          ("other-columns", ALLCOLS_SAME % "name"),
                          ("other-observations", OTHER_OBS),
                          ("other-tracks", "all(implies(r != self, same(r.%s, old(r.%s))) for r in refs(Track))" % (DICO, DICO))],
                 loops={"1": LoopSpec(inv=[
                     "twf(self)", "hasname(self, name)", "idAF == colidx(self, name)",
                     "unchanged_except('Track.%s', self)" % DICO,
                     "all(implies(k != name, hasname(self, k) == old(hasname(self, k))) for k in strs)",
                     "all(%s for r in range(0, i))" % arel("cell(self, r, idAF)", "r"),
                     ALLCOLS_SAME % "name",
                     OTHER_OBS])}), variant="aire_visval")
    # Track.copy = copy.deepcopy (trusted): a new track of new observations with the same content
    reg.add(Spec(T + "copy", dict(self="Track"), "Track", trusted=True, fresh=["Track", "Obs", "ENUCoords", "ObsTime"],
                 ensures=["isnew(result)", "npts(result) == npts(self)",
                          "all(isnew(obs(result, i)) and isnew(obs(result, i).position) and isnew(obs(result, i).timestamp) for i in range(0, npts(self)))",
                          "all(same(X(result, i), X(self, i)) and same(Y(result, i), Y(self, i)) and same(Z(result, i), Z(self, i)) for i in range(0, npts(self)))",
                          "all(samefields(tstamp(result, i), tstamp(self, i)) for i in range(0, npts(self)))",
                          "all(same(obs(result, i).features, obs(self, i).features) for i in range(0, npts(self)))",
                          "same(result.%s, self.%s)" % (DICO, DICO),
                          "implies(twf(self), twf(result))"]))
    # removeObs(index): the fix is taken out, the others keep their order (through removeObsList([index]) and C04's
    # __removeObsListById)
    reg.add(Spec(T + "removeObsList", dict(self="Track", tab="list[int]"), "int", inline=True,
                 loops={"1": LoopSpec(inv=["True"])}))
    reg.add(Spec(T + "removeObs", dict(self="Track", arg="int"), "int",
                 requires=["0 <= arg and arg < npts(self)"], modifies=["Track." + PTS],
                 hints=[("one-fix-less", "result == 1 and npts(self) == old(npts(self)) - 1"),
                        ("fixes-before-stay", "all(pts(self)[p] == old(pts(self))[p] for p in range(0, arg))"),
                        ("fixes-after-move-down", "all(pts(self)[p] == old(pts(self))[p + 1] for p in range(arg, npts(self)))")],
                 ensures=[("one-fix-less", "result == 1 and npts(self) == old(npts(self)) - 1"),
                          ("fixes-before-stay", "all(pts(self)[p] == old(pts(self))[p] for p in range(0, arg))"),
                          ("fixes-after-move-down", "all(pts(self)[p] == old(pts(self))[p + 1] for p in range(arg, npts(self)))"),
                          ("only-this-track", "unchanged_except('Track.%s', self)" % PTS),
                          ("table-stays-well-formed", "implies(old(twf(self)), twf(self))")]))

    # ------------------------------------------------------------ visvalingam itself
    n = "npts(output)"
    AIRE = "col(output, '@aire', %s)"
    IDX = "idxin(P0, obs(output, %s))"
    INV = ["isnew(output) and output is not track", "twf(output)", "hasname(output, '@aire')",
           "2 <= %s and %s <= len(P0)" % (n, n),
           "obs(output, 0) is P0[0]", "obs(output, %s - 1) is P0[len(P0) - 1]" % n,
           # the fixes still present are fixes of the copy, in the copy's order
           "all(0 <= %s and %s < len(P0) and P0[%s] is obs(output, q) for q in range(0, %s))" % (IDX % "q", IDX % "q", IDX % "q", n),
           "all(implies(q < q2, %s < %s) for q in range(0, %s) for q2 in range(0, %s))" % (IDX % "q", IDX % "q2", n, n),
           # their coordinates are those of the corresponding input fixes
           "all(same(X(output, q), X(track, %s)) and same(Y(output, q), Y(track, %s)) and samefields(tstamp(output, q), tstamp(track, %s)) for q in range(0, %s))"
           % (IDX % "q", IDX % "q", IDX % "q", n),
           "all(not isnan(X(output, q)) and not isnan(Y(output, q)) for q in range(0, %s))" % n,
           # the end points carry NaN (never candidates), every interior fix carries a number below 1e300 (a candidate)
           "isnan(%s) and isnan(%s)" % (AIRE % "0", AIRE % (n + " - 1")),
           "all(not isnan(%s) and %s < %s for q in range(1, %s - 1))" % (AIRE % "q", AIRE % "q", BIGF, n),
           # the input is not touched
           "unchanged_old('Obs.features', 'ENUCoords.E', 'ENUCoords.N', 'ENUCoords.U', 'Track.%s', 'Track.%s', 'Obs.position', 'Obs.timestamp')" % (PTS, DICO)]
    nt = "npts(track)"
    UO = "unchanged_old('Obs.features', 'ENUCoords.E', 'ENUCoords.N', 'ENUCoords.U', 'Track.%s', 'Track.%s', 'Obs.position', 'Obs.timestamp')" % (PTS, DICO)
    reg.add(Spec(S + "visvalingam", dict(track="Track", eps="float"), "Track",
                 requires=["twf(track)", nt + " >= 2", NNC, "not isnan(eps)",
                           # no triangle of three input fixes has an area of 1e300 or more (Operator.ARGMIN ignores such values)
                           "all(implies(a < b and b < c, %s < %s) for a in range(0, %s) for b in range(0, %s) for c in range(0, %s) if pattern(%s))"
                           % (tri("track", "a", "b", "c"), BIGF, nt, nt, nt, tri("track", "a", "b", "c"))],
                 fresh=["Track", "Obs", "ENUCoords", "ObsTime"],
                 at={"output = track.copy()": ["ghost P0 = pts(output)", ("input-untouched-by-copy", UO),
                                                ("new-fixes", "all(isnew(obs(output, q)) for q in range(0, npts(output)))")],
                     "output.addAnalyticalFeature(aire_visval, '@aire')": [("input-untouched-by-add", UO), ("same-fixes-after-add", "same(pts(output), P0)")],
                     "output.setObsAnalyticalFeature('@aire', 0, NAN)": [("input-untouched-by-set", UO), ("same-fixes-after-set", "same(pts(output), P0)")],
                     "output.removeObs(id)": [("input-untouched-by-removal", UO),
                                              ("table-after-removal", "twf(output) and hasname(output, '@aire')"),
                                              ("fixes-of-the-copy-after-removal", INV[6]), ("order-after-removal", INV[7]),
                                              ("coordinates-after-removal", INV[8]), ("numbers-after-removal", INV[9]),
                                              ("end-values-after-removal", INV[10]),
                                              ("other-values-after-removal", "all(implies(q != id - 1 and q != id, not isnan(%s) and %s < %s) for q in range(1, %s - 1))"
                                               % (AIRE % "q", AIRE % "q", BIGF, n)),
                                              ("new-left-triangle-is-small", "implies(id > 1, %s < %s)" % (tri("output", "id - 2", "id - 1", "id"), BIGF)),
                                              ("new-right-triangle-is-small", "implies(id < %s - 1, %s < %s)" % (n, tri("output", "id - 1", "id", "id + 1"), BIGF))],
                     "if id > 1:": [("values-after-the-left-update", "all(implies(q != id, not isnan(%s) and %s < %s) for q in range(1, %s - 1))" % (AIRE % "q", AIRE % "q", BIGF, n)),
                                    ("end-values-after-the-left-update", INV[10])],
                     "id = output.operate(Operator.ARGMIN, '@aire')": [
                         ("a-candidate-exists", "%s < %s" % (AIRE % "1", BIGF)),
                         ("argmin-is-an-interior-fix", "1 <= id and id <= %s - 2" % n)]},
                 loops={"1": LoopSpec(inv=INV, decreases=n)},
                 ensures_local=[("keeps-the-first-fix", "obs(result, 0) is P0[0]"),
                                ("keeps-the-last-fix", "obs(result, npts(result) - 1) is P0[len(P0) - 1]"),
                                ("only-fixes-of-the-copy", "all(0 <= %s and %s < len(P0) and P0[%s] is obs(result, q) for q in range(0, npts(result)))"
                                 % ((IDX % "q").replace("output", "result"), (IDX % "q").replace("output", "result"), (IDX % "q").replace("output", "result"))),
                                ("in-the-original-order", "all(implies(q < q2, %s < %s) for q in range(0, npts(result)) for q2 in range(0, npts(result)))"
                                 % ((IDX % "q").replace("output", "result"), (IDX % "q2").replace("output", "result"))),
                                ("each-kept-fix-has-the-position-and-time-of-its-input-fix",
                                 "len(P0) == npts(track) and all(same(X(result, q), X(track, idxin(P0, obs(result, q)))) and same(Y(result, q), Y(track, idxin(P0, obs(result, q)))) and "
                                 "samefields(tstamp(result, q), tstamp(track, idxin(P0, obs(result, q)))) for q in range(0, npts(result)))")],
                 ensures=[("new-track", "isnew(result)"),
                          ("at-least-two-fixes", "2 <= npts(result) and npts(result) <= npts(track)"),
                          ("first-fix-is-the-input's-first", "same(X(result, 0), X(track, 0)) and same(Y(result, 0), Y(track, 0)) and samefields(tstamp(result, 0), tstamp(track, 0))"),
                          ("last-fix-is-the-input's-last", "same(X(result, npts(result) - 1), X(track, npts(track) - 1)) and same(Y(result, npts(result) - 1), Y(track, npts(track) - 1)) "
                           "and samefields(tstamp(result, npts(result) - 1), tstamp(track, npts(track) - 1))"),
                          ("table-well-formed", "twf(result)"),
                          ("source-unchanged", "same(pts(track), old(pts(track)))")]))


USES_LIB = True
FUNCTIONS = [G + "distance_to_segment", "tracklib.algo.simplification:douglas_peucker",
             G + "triangle_area", G + "aire_visval", "tracklib.core.operators:Argmin.execute",
             "tracklib.core.track:Track.operate@argmin", "tracklib.core.track:Track.addAnalyticalFeature@aire_visval", "tracklib.algo.simplification:visvalingam", "tracklib.core.track:Track.removeObs"]
ASSUMPTIONS = ["math.sqrt: r >= 0 and r*r == x (trusted axiom)",
               "distance_to_segment and triangle_area are treated as mathematical functions (dseg, triarea) of their float arguments: justified "
               "by the syntactic purity obligation `pure-function` (no state read, only math.* / min / max / abs called) and by math.sqrt being a function",
               "douglas_peucker: the fixes of the input track are pairwise distinct objects, coordinates are numbers, eps > 0; "
               "'within the tolerance' is dseg(fix, segment) <= eps with dseg the value distance_to_segment computes in real arithmetic",
               "visvalingam: Track.copy (copy.deepcopy) is a TRUSTED contract: a new track of new observations with the same coordinates, timestamps, "
               "feature lists and name table; no triangle of three input fixes has an area of 1e300 or more (Operator.ARGMIN ignores values >= 1e300, "
               "encoded as the symbolic bound BIG); at least two fixes; the result's fixes are the COPIES, related to the input fixes by position and timestamp",
               "list.sort on a one-element list inside removeObsList is the trusted sort model"]
