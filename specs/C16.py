"""C16 — simplification keeps the end points, only drops fixes, honours its tolerance.

distance_to_segment: never fails (degenerate chord included), returns the distance from P to a point of the segment
(the per-coordinate clamp of the foot equals A + clamp(t)(B - A)), so it is an upper bound of nothing smaller than
the true distance to the segment -- which is what the tolerance clause needs -- and it is 0 at the chord's ends."""
import z3
from pyvc.kinds import *
from pyvc.values import *
from pyvc.symexec import Spec, LoopSpec
from specs import track_model

G = "tracklib.util.geometry:"
DEPENDS = []

DOT = "((x0 - x1) * (x2 - x1) + (y0 - y1) * (y2 - y1))"
L2 = "((x2 - x1) * (x2 - x1) + (y2 - y1) * (y2 - y1))"


_LA = z3.ArraySort(z3.IntSort(), z3.IntSort())
IDXIN = z3.Function("index_in", _LA, z3.IntSort(), z3.IntSort(), z3.IntSort())      # position of an object in a list of distinct objects


def ax_idxin():
    """definition of index_in on lists of pairwise distinct references: if l[p] is o (0 <= p < n) then index_in(l, n, o) = p"""
    l, n, o, p, a, b = z3.Const("l!x", _LA), z3.Int("n!x"), z3.Int("o!x"), z3.Int("p!x"), z3.Int("a!x"), z3.Int("b!x")
    dist = z3.ForAll([a, b], z3.Implies(z3.And(0 <= a, a < b, b < n), z3.Select(l, a) != z3.Select(l, b)))
    return [z3.ForAll([l, n, p], z3.Implies(z3.And(dist, 0 <= p, p < n), IDXIN(l, n, z3.Select(l, p)) == p),
                      patterns=[IDXIN(l, n, z3.Select(l, p))])]


def sf_idxin(ex, st, l, o):
    return vint(IDXIN(l.terms[1], l.terms[0], o.terms[0]))


def register(reg):
    track_model.register(reg)
    reg.specfuncs.update(idxin=sf_idxin)
    reg.axioms.append(("index_in", ax_idxin))
    NN = ["not isnan(x0) and not isnan(y0) and not isnan(x1) and not isnan(y1) and not isnan(x2) and not isnan(y2)"]
    P = dict(x0="float", y0="float", x1="float", y1="float", x2="float", y2="float")
    TCW_ = "(0 if (psn / l) <= 0 else (1 if (psn / l) >= 1 else (psn / l)))"
    TC = "(0 if %s <= 0 else (1 if %s >= %s else %s / %s))" % (DOT, DOT, L2, DOT, L2)
    reg.add(Spec(G + "distance_to_segment", P, "float", requires=NN, denotes="dseg",
                 cases=dict(degenerate="x1 == x2 and y1 == y2", proper="x1 != x2 or y1 != y2"),
                 at={"l = math.sqrt((x2 - x1) * (x2 - x1) + (y2 - y1) * (y2 - y1))": [
                         ("length-squared", "l >= 0 and l * l == %s" % L2),
                         "use sq_nonneg(x2 - x1)", "use sq_nonneg(y2 - y1)",
                         ("zero-length-iff-degenerate", "(l == 0) == (x1 == x2 and y1 == y2)")],
                     "yproj = y1 + psn / l * (y2 - y1)": [
                         ("parameter", "psn * l == %s" % DOT),
                         "use div_cancel(psn / l, l * l, %s, 1)" % DOT,
                         ("foot-parameter", "(psn / l) * %s == %s" % (L2, DOT))],
                     "yproj = min(max(yproj, y), Y)": [
                         "use mul_nonneg(psn / l, x2 - x1)", "use mul_nonneg(psn / l, x1 - x2)",
                         "use mul_nonneg(psn / l, y2 - y1)", "use mul_nonneg(psn / l, y1 - y2)",
                         "use mul_nonneg(psn / l - 1, x2 - x1)", "use mul_nonneg(psn / l - 1, x1 - x2)",
                         "use mul_nonneg(psn / l - 1, y2 - y1)", "use mul_nonneg(psn / l - 1, y1 - y2)",
                         "use distrib(psn / l, 1, x2 - x1)", "use distrib(psn / l, 1, y2 - y1)",
                         "use distrib(psn / l, 1, x1 - x2)", "use distrib(psn / l, 1, y1 - y2)",
                         ("clamp-x-is-clamping-the-parameter", "xproj == x1 + (0 if (psn / l) <= 0 else (1 if (psn / l) >= 1 else (psn / l))) * (x2 - x1)"),
                         ("clamp-y-is-clamping-the-parameter", "yproj == y1 + (0 if (psn / l) <= 0 else (1 if (psn / l) >= 1 else (psn / l))) * (y2 - y1)")]},
                 ensures_local=[("distance-to-the-single-point", "implies(x1 == x2 and y1 == y2, result * result == (x0 - x1) * (x0 - x1) + (y0 - y1) * (y0 - y1))"),
                                ("distance-to-a-point-of-the-segment",
                           "implies(x1 != x2 or y1 != y2, result * result == (x0 - (x1 + TCW * (x2 - x1))) * (x0 - (x1 + TCW * (x2 - x1))) + "
                           "(y0 - (y1 + TCW * (y2 - y1))) * (y0 - (y1 + TCW * (y2 - y1))))".replace("TCW", TCW_))],
                 ensures=[("non-negative", "not isnan(result) and result >= 0"),
                          ("zero-at-the-first-end", "implies(x0 == x1 and y0 == y1, result == 0)"),
                          ("zero-at-the-second-end", "implies(x0 == x2 and y0 == y2, result == 0)")]))


    # ---------------------------------------------------------------- Douglas-Peucker (recursive contract)
    from specs import C04
    C04.register(reg)
    S = "tracklib.algo.simplification:"
    n = "npts(track)"
    L = "old(pts(track))"
    reg.auto_inline |= {"tracklib.core.track:Track.getObsList", "tracklib.core.track:Track.__init__"}
    # Track(list, user_id=.., track_id=.., base=..): inline; uid / tid / base are opaque values
    REC = "RECB"

    def seg(k, r, j):
        return "dseg(X(track, %s), Y(track, %s), X(%s, %s), Y(%s, %s), X(%s, %s + 1), Y(%s, %s + 1))" % (k, k, r, j, r, j, r, j, r, j)
    MEMBER = "any(obs(result, q) is %s[p] and %%s for p in range(0, %s))" % (L, n)
    reg.add(Spec(S + "douglas_peucker", dict(track="Track", eps="float"), "Track", decreases="npts(track)",
                 ghost=dict(K0="int"), ghost_calls={"douglas_peucker#1": dict(K0="K0"), "douglas_peucker#2": dict(K0="K0 - imax")},
                 requires=["all(implies(a < b, obs(track, a) is not obs(track, b)) for a in range(0, %s) for b in range(0, %s))" % (n, n),
                           "not isnan(eps) and eps > 0",
                           "all(not isnan(X(track, r)) and not isnan(Y(track, r)) for r in range(0, %s))" % n],
                 fresh=["Track"],
                 # RECB: ghost flag "the recursive branch was taken" (so that the proof steps below do not repeat the code's test)
                 at={"n = len(L)": ["ghost RECB = False"],
                     "XY2 = tracklib.Track(L[imax:n], user_id=track.uid, track_id=track.tid, base=track.base)": ["ghost RECB = True"]},
                 hints=[("left-part-indices", "implies(RECB, all(idxin(%s, obs(ret1_douglas_peucker, q)) == idxin(pts(XY1), obs(ret1_douglas_peucker, q)) "
                         "and idxin(%s, obs(ret1_douglas_peucker, q)) < imax for q in range(0, npts(ret1_douglas_peucker))))" % (L, L)),
                        ("right-part-indices", "implies(RECB, all(idxin(%s, obs(ret2_douglas_peucker, q)) == idxin(pts(XY2), obs(ret2_douglas_peucker, q)) + imax "
                         "and idxin(%s, obs(ret2_douglas_peucker, q)) >= imax for q in range(0, npts(ret2_douglas_peucker))))" % (L, L)),
                        ("small-track-is-returned-whole", "implies(npts(track) <= 2, npts(result) == npts(track) and all(obs(result, q) is old(pts(track))[q] and idxin(old(pts(track)), obs(result, q)) == q "
                         "for q in range(0, npts(track))))"),
                        ("chord-only", "implies(npts(track) > 2 and not RECB, npts(result) == 2 and obs(result, 0) is old(pts(track))[0] and obs(result, 1) is old(pts(track))[npts(track) - 1] and "
                         "idxin(old(pts(track)), obs(result, 0)) == 0 and idxin(old(pts(track)), obs(result, 1)) == npts(track) - 1)"),
                        ("left-part-ordered", "implies(RECB, all(implies(q < q2, idxin(old(pts(track)), obs(ret1_douglas_peucker, q)) < idxin(old(pts(track)), obs(ret1_douglas_peucker, q2))) "
                         "for q in range(0, npts(ret1_douglas_peucker)) for q2 in range(0, npts(ret1_douglas_peucker))))"),
                        ("right-part-ordered", "implies(RECB, all(implies(q < q2, idxin(old(pts(track)), obs(ret2_douglas_peucker, q)) < idxin(old(pts(track)), obs(ret2_douglas_peucker, q2))) "
                         "for q in range(0, npts(ret2_douglas_peucker)) for q2 in range(0, npts(ret2_douglas_peucker))))"),
                        ("left-part-members", "implies(RECB, all(0 <= idxin(old(pts(track)), obs(ret1_douglas_peucker, q)) and old(pts(track))[idxin(old(pts(track)), obs(ret1_douglas_peucker, q))] is obs(ret1_douglas_peucker, q) "
                         "for q in range(0, npts(ret1_douglas_peucker))))"),
                        ("right-part-members", "implies(RECB, all(idxin(old(pts(track)), obs(ret2_douglas_peucker, q)) < npts(track) and old(pts(track))[idxin(old(pts(track)), obs(ret2_douglas_peucker, q))] is obs(ret2_douglas_peucker, q) "
                         "for q in range(0, npts(ret2_douglas_peucker))))"),
                        ("result-length", "implies(RECB, npts(result) == npts(ret1_douglas_peucker) + npts(ret2_douglas_peucker))"),
                        ("result-left", "implies(RECB, all(obs(result, q) is obs(ret1_douglas_peucker, q) for q in range(0, npts(ret1_douglas_peucker))))"),
                        # the same, indexed by the position in the result (so that it can be used from a position of the result)
                        ("left-part-within-tolerance", "implies(%s and imax >= 2 and 0 <= K0 and K0 < imax, any(%s <= eps for j in range(0, npts(ret1_douglas_peucker) - 1)))"
                         % (REC, seg("K0", "ret1_douglas_peucker", "j"))),
                        ("right-part-within-tolerance", "implies(%s and imax <= K0 and K0 < npts(track), any(%s <= eps for j in range(0, npts(ret2_douglas_peucker) - 1)))"
                         % (REC, seg("K0", "ret2_douglas_peucker", "j"))),
                        ("result-right-by-position", "implies(RECB, all(implies(q >= npts(ret1_douglas_peucker), "
                         "obs(result, q) is obs(ret2_douglas_peucker, q - npts(ret1_douglas_peucker))) for q in range(0, npts(result))))")],
                 loops={"1": LoopSpec(inv=["not isnan(dmax) and dmax >= 0", "0 <= imax and imax < n",
                                           "implies(dmax > 0, 1 <= imax and imax <= n - 2)", "implies(imax == 0, dmax == 0)",
                                           "all(dseg(X(track, r), Y(track, r), X(track, 0), Y(track, 0), X(track, n - 1), Y(track, n - 1)) <= dmax for r in range(0, i))"])},
                 ensures=[("new-track", "isnew(result)"),
                          ("same-size-when-at-most-two-fixes", "implies(%s <= 2, npts(result) == %s)" % (n, n)),
                          ("keeps-the-first-fix", "implies(%s >= 1, npts(result) >= 1 and obs(result, 0) is %s[0])" % (n, L)),
                          ("keeps-the-last-fix", "implies(%s >= 1, obs(result, npts(result) - 1) is %s[%s - 1])" % (n, L, n)),
                          ("only-input-fixes", "all(0 <= idxin(%s, obs(result, q)) and idxin(%s, obs(result, q)) < %s and "
                           "%s[idxin(%s, obs(result, q))] is obs(result, q) for q in range(0, npts(result)))" % (L, L, n, L, L)),
                          ("in-the-original-order", "all(implies(q < q2, idxin(%s, obs(result, q)) < idxin(%s, obs(result, q2))) "
                           "for q in range(0, npts(result)) for q2 in range(0, npts(result)))" % (L, L)),
                          # K0 is a ghost parameter (an arbitrary index): the clause holds for every input fix
                          ("every-input-fix-within-the-tolerance-of-the-result",
                           "implies(npts(track) >= 2 and 0 <= K0 and K0 < npts(track), any(%s <= eps for j in range(0, npts(result) - 1)))" % seg("K0", "result", "j")),
                          ("source-unchanged", "same(pts(track), %s)" % L)]))


USES_LIB = True
FUNCTIONS = [G + "distance_to_segment", "tracklib.algo.simplification:douglas_peucker"]
ASSUMPTIONS = ["math.sqrt: r >= 0 and r*r == x (trusted axiom)"]
