"""C16 — simplification keeps the end points, only drops fixes, honours its tolerance.

distance_to_segment: never fails (degenerate chord included), returns the distance from P to a point of the segment
(the per-coordinate clamp of the foot equals A + clamp(t)(B - A)), so it is an upper bound of nothing smaller than
the true distance to the segment -- which is what the tolerance clause needs -- and it is 0 at the chord's ends."""
import z3
from pyvc.kinds import *
from pyvc.values import *
from pyvc.symexec import Spec, LoopSpec
from specs import track_model

G = "tracklib.util.geometry:"
DEPENDS = []

DOT = "((x0 - x1) * (x2 - x1) + (y0 - y1) * (y2 - y1))"
L2 = "((x2 - x1) * (x2 - x1) + (y2 - y1) * (y2 - y1))"


def register(reg):
    track_model.register(reg)
    NN = ["not isnan(x0) and not isnan(y0) and not isnan(x1) and not isnan(y1) and not isnan(x2) and not isnan(y2)"]
    P = dict(x0="float", y0="float", x1="float", y1="float", x2="float", y2="float")
    TCW_ = "(0 if (psn / l) <= 0 else (1 if (psn / l) >= 1 else (psn / l)))"
    TC = "(0 if %s <= 0 else (1 if %s >= %s else %s / %s))" % (DOT, DOT, L2, DOT, L2)
    reg.add(Spec(G + "distance_to_segment", P, "float", requires=NN,
                 cases=dict(degenerate="x1 == x2 and y1 == y2", proper="x1 != x2 or y1 != y2"),
                 at={"l = math.sqrt((x2 - x1) * (x2 - x1) + (y2 - y1) * (y2 - y1))": [
                         ("length-squared", "l >= 0 and l * l == %s" % L2),
                         "use sq_nonneg(x2 - x1)", "use sq_nonneg(y2 - y1)",
                         ("zero-length-iff-degenerate", "(l == 0) == (x1 == x2 and y1 == y2)")],
                     "yproj = y1 + psn / l * (y2 - y1)": [
                         ("parameter", "psn * l == %s" % DOT),
                         "use div_cancel(psn / l, l * l, %s, 1)" % DOT,
                         ("foot-parameter", "(psn / l) * %s == %s" % (L2, DOT))],
                     "yproj = min(max(yproj, y), Y)": [
                         "use mul_nonneg(psn / l, x2 - x1)", "use mul_nonneg(psn / l, x1 - x2)",
                         "use mul_nonneg(psn / l, y2 - y1)", "use mul_nonneg(psn / l, y1 - y2)",
                         "use mul_nonneg(psn / l - 1, x2 - x1)", "use mul_nonneg(psn / l - 1, x1 - x2)",
                         "use mul_nonneg(psn / l - 1, y2 - y1)", "use mul_nonneg(psn / l - 1, y1 - y2)",
                         "use distrib(psn / l, 1, x2 - x1)", "use distrib(psn / l, 1, y2 - y1)",
                         "use distrib(psn / l, 1, x1 - x2)", "use distrib(psn / l, 1, y1 - y2)",
                         ("clamp-x-is-clamping-the-parameter", "xproj == x1 + (0 if (psn / l) <= 0 else (1 if (psn / l) >= 1 else (psn / l))) * (x2 - x1)"),
                         ("clamp-y-is-clamping-the-parameter", "yproj == y1 + (0 if (psn / l) <= 0 else (1 if (psn / l) >= 1 else (psn / l))) * (y2 - y1)")]},
                 ensures=[("non-negative", "not isnan(result) and result >= 0"),
                          ("distance-to-the-single-point", "implies(x1 == x2 and y1 == y2, result * result == (x0 - x1) * (x0 - x1) + (y0 - y1) * (y0 - y1))"),
                          ("distance-to-a-point-of-the-segment",
                           "implies(x1 != x2 or y1 != y2, result * result == (x0 - (x1 + TCW * (x2 - x1))) * (x0 - (x1 + TCW * (x2 - x1))) + "
                           "(y0 - (y1 + TCW * (y2 - y1))) * (y0 - (y1 + TCW * (y2 - y1))))".replace("TCW", TCW_)),
                          ("zero-at-the-first-end", "implies(x0 == x1 and y0 == y1, result == 0)"),
                          ("zero-at-the-second-end", "implies(x0 == x2 and y0 == y2, result == 0)")]))


USES_LIB = True
FUNCTIONS = [G + "distance_to_segment"]
ASSUMPTIONS = ["math.sqrt: r >= 0 and r*r == x (trusted axiom)"]
