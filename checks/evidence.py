"""Write evidence/<id>.json (schema /root/.vp/EVIDENCE.schema.json) from what this run did."""
import json
import os

ROOT = os.path.dirname(os.path.dirname(os.path.abspath(__file__)))

ENCODING_ASSUMPTIONS = [
    "A-REAL: Python floats are modelled as mathematical reals plus a NaN flag (no rounding, overflow, infinities, signed zero)",
    "Python int is unbounded -> SMT Int (exact); // and % have floor semantics",
    "lists/dicts/numpy 2-D arrays have value semantics in the encoding: the verified functions do not alias a container they mutate (checked syntactically by the write-back rule for parameters; otherwise stated as a precondition)",
    "A-ALLOC: object construction returns a reference distinct from all earlier ones",
    "the VC generator (pyvc) and the SMT solvers are trusted; pyvc is validated by differential tests and by deliberate property-breaking changes (DESIGN §9)",
    "termination is proved only where a `decreases` clause is given (otherwise partial correctness)",
]


def claimed_level(prop):
    try:
        m = json.load(open(os.path.join(ROOT, "MANIFEST.json")))
        for c in m["checks"]:
            if c["property_id"] == prop:
                return c["level_claimed"]["category"]
    except Exception:
        pass
    return "other"


def write(prop, tier, seed, ded, bnd, violations, known_hits, undecided, wall):
    level = claimed_level(prop)
    cov = {}
    assumptions = []
    if ded is not None:
        obls = [o for o in ded["obligations"] if o["kind"] != "cover"]
        covers = [o for o in ded["obligations"] if o["kind"] == "cover"]
        cov["obligations"] = len(obls)
        cov["discharged"] = len([o for o in obls if o["verdict"] == "unsat"])
        cov["undecided"] = len([o for o in obls if o["verdict"] == "unknown"])
        cov["refuted"] = len([o for o in obls if o["verdict"] == "sat"])
        cov["checker_cmd"] = ".venv/bin/python -m checks.run %s --tier %s  (pyvc: AST->VC generator over /repo's current source; z3 5.1 / cvc5 1.0 / z3 4.8 portfolio)" % (prop, tier)
        cov["functions_under_contract"] = [dict(function=f["qual"], file=f["path"], ast_sha256_16=f["sha"],
                                                file_sha256=f["file_sha"], obligations=f["n"],
                                                status=("out of subset: " + f["error"]) if f["error"] else "verified against contract",
                                                callees_by_contract=f["called"], callees_inlined=f["inlined"])
                                           for f in ded["functions"]]
        cov["lemmas"] = ded["lemmas"]
        cov["vacuity_covers"] = dict(total=len(covers), satisfiable=len([o for o in covers if o["verdict"] == "sat"]),
                                     undecided=len([o for o in covers if o["verdict"] == "unknown"]))
        by_backend = {}
        for o in obls:
            if o["verdict"] == "unsat":
                by_backend[o["backend"]] = by_backend.get(o["backend"], 0) + 1
        cov["discharged_by_backend"] = by_backend
        cov["solver_time_s"] = ded["solver_time"]
        cov["obligation_list"] = [dict(name=o["name"], kind=o["kind"], verdict=o["verdict"], backend=o["backend"],
                                       time_s=o["time"]) for o in obls]
        cov["trusted_base"] = sorted(set(ded["trusted"])) + ["pyvc encoding (see assumptions)", "z3 5.1.0", "cvc5 1.0.3"]
        cov["extraction_dropped"] = sorted(set(ded["dropped"]))[:60]
        cov["samples"] = [o["name"] for o in obls[:5]]
        assumptions += ded["assumptions"] + ENCODING_ASSUMPTIONS
    if bnd is not None:
        cov["bounded"] = dict(label="bounded stand-in: run-time contract around the real functions; NOT counted in obligations/discharged",
                              evaluations=bnd["evaluations"], distinct_nontrivial=min(bnd["nontrivial"], bnd["distinct"]) if bnd["distinct"] else bnd["nontrivial"],
                              rule=bnd["rule"], bound=bnd["bound"], exhaustive_within_bound=bool(bnd["exhausted"]),
                              samples=bnd["samples"], failures=len(bnd["failures"]), wall_s=round(bnd["wall"], 1))
        cov["evaluations"] = bnd["evaluations"]
        cov["distinct_nontrivial"] = cov["bounded"]["distinct_nontrivial"]
        cov["rule"] = bnd["rule"]
        if "samples" not in cov:
            cov["samples"] = bnd["samples"]
        else:
            cov["samples"] = cov["samples"] + bnd["samples"][:2]
    parts = []
    if ded is not None:
        parts.append("deductive: %d/%d obligations generated from the current source of %d functions (+%d lemmas) discharged"
                     % (cov["discharged"], cov["obligations"], len(ded["functions"]), ded["lemmas"]))
    if bnd is not None:
        parts.append("bounded (not proof): %d evaluations of the run-time contract on the real code within the bound '%s'"
                     % (bnd["evaluations"], bnd["bound"]))
    if undecided:
        parts.append("%d item(s) undecided on this run: %s" % (len(undecided), "; ".join(undecided)[:600]))
    cov["explanation"] = ". ".join(parts) or "nothing ran"
    cov["known_findings_reported"] = sorted({(k.get("id") or k.get("what")) for k, _ in known_hits})
    ev = dict(property_id=prop, tier=tier, seed=seed, level=level, coverage=cov, assumptions=assumptions,
              wall_s=round(wall, 2), violations=len(violations))
    os.makedirs(os.path.join(os.environ.get("VERIF_OUT", ROOT), "evidence"), exist_ok=True)
    with open(os.path.join(os.environ.get("VERIF_OUT", ROOT), "evidence", prop + ".json"), "w") as f:
        json.dump(ev, f, indent=1, default=str)
