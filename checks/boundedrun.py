"""Bounded stand-in runner (DESIGN §4): run-time contracts around the REAL functions on an
enumerated / seeded-random input space with a stated bound.  Never counted as proof."""
import contextlib
import hashlib
import importlib
import io
import json
import multiprocessing as mp
import os
import sys
import time
import traceback

ROOT = os.path.dirname(os.path.dirname(os.path.abspath(__file__)))
BUDGET = {"quick": 75, "thorough": 1500}
CHUNK = 100


def load(prop):
    if not os.path.exists(os.path.join(ROOT, "bounded", prop + ".py")):
        return None
    return importlib.import_module("bounded." + prop)


def _quiet_check(mod, case):
    buf = io.StringIO()
    try:
        with contextlib.redirect_stdout(buf), contextlib.redirect_stderr(buf):
            r = mod.check_case(case)
    except Exception:
        r = ["harness exception: " + traceback.format_exc(limit=6)]
    if isinstance(r, dict):
        return r
    return dict(failures=list(r or []), evaluations=1,
                nontrivial=1 if (not hasattr(mod, "nontrivial") or mod.nontrivial(case)) else 0)


def _work(args):
    prop, chunk = args
    mod = load(prop)
    out = dict(evaluations=0, nontrivial=0, failures=[], hashes=[])
    for case in chunk:
        r = _quiet_check(mod, case)
        out["evaluations"] += r.get("evaluations", 1)
        out["nontrivial"] += r.get("nontrivial", 0)
        if r["failures"]:
            out["failures"].append(dict(case=case, failures=r["failures"][:5]))
        else:
            out["hashes"].append(hashlib.md5(json.dumps(case, sort_keys=True, default=str).encode()).hexdigest()[:12])
    return out


def _init_worker(repo):
    if repo not in sys.path:
        sys.path.insert(0, repo)
    import warnings
    warnings.simplefilter("ignore")


def run(prop, tier, seed, repo):
    mod = load(prop)
    if mod is None:
        return None
    t0 = time.time()
    budget = getattr(mod, "BUDGET_S", BUDGET)[tier]
    out = dict(evaluations=0, nontrivial=0, distinct=0, failures=[], samples=[], exhausted=True, error=None,
               bound=getattr(mod, "BOUND", {}).get(tier) if isinstance(getattr(mod, "BOUND", None), dict) else getattr(mod, "BOUND", ""),
               rule=getattr(mod, "RULE", ""))
    gen = mod.cases(tier, seed)
    seen = set()

    def chunks():
        cur = []
        for c in gen:
            if len(out["samples"]) < 3:
                out["samples"].append(c)
            cur.append(c)
            if len(cur) >= getattr(mod, "CHUNK", CHUNK):
                yield (prop, cur)
                cur = []
            if time.time() - t0 > budget:
                out["exhausted"] = False
                break
        if cur:
            yield (prop, cur)
    ctx = mp.get_context("fork")
    procs = min(16, os.cpu_count() or 4)
    with ctx.Pool(procs, initializer=_init_worker, initargs=(repo,)) as pool:
        for r in pool.imap_unordered(_work, chunks()):
            out["evaluations"] += r["evaluations"]
            out["nontrivial"] += r["nontrivial"]
            out["failures"] += r["failures"]
            seen.update(r["hashes"])
            if len(out["failures"]) > 50:
                out["exhausted"] = False
                pool.terminate()
                break
    out["distinct"] = len(seen) + len(out["failures"])
    out["failures"].sort(key=lambda f: len(json.dumps(f["case"], default=str)))
    out["wall"] = time.time() - t0
    if out["evaluations"] == 0:
        out["error"] = "bounded harness generated no case"
    return out


def replay_model(prop, obligation, repo):
    """Concretise a solver counter-model into cases of the bounded oracle and run the real code."""
    mod = load(prop)
    if mod is None or not hasattr(mod, "concretise"):
        return None
    _init_worker(repo)
    cs = mod.concretise(obligation)
    if cs is None:
        return None
    if isinstance(cs, dict):
        cs = [cs]
    for case in cs:
        r = _quiet_check(mod, case)
        if r["failures"]:
            return case, r["failures"][:5]
    return None
