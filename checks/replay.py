#!/usr/bin/env python
"""Re-run a replay file against the current tree:  python -m checks.replay replays/C03-xxxx.json
Exit 1 while the recorded input still breaks the contract, 0 once it no longer does."""
import json
import os
import sys

ROOT = os.path.dirname(os.path.dirname(os.path.abspath(__file__)))
sys.path.insert(0, ROOT)
REPO = os.environ.get("TRACKLIB_REPO", "/repo")
sys.path.insert(0, REPO)
sys.dont_write_bytecode = True


def main():
    path = sys.argv[1]
    if not os.path.isabs(path) and not os.path.exists(path):
        path = os.path.join(ROOT, path)
    rep = json.load(open(path))
    prop = rep["property"]
    from checks import boundedrun
    if rep.get("case") is not None:
        mod = boundedrun.load(prop)
        boundedrun._init_worker(REPO)
        r = boundedrun._quiet_check(mod, rep["case"])
        if r["failures"]:
            print("STILL FAILING property=%s case=%s" % (prop, json.dumps(rep["case"], default=str)))
            for f in r["failures"]:
                print("   ", f)
            return 1
        print("no longer failing: property=%s" % prop)
        return 0
    # obligation without a concrete input: re-run the deductive part and look the obligation up
    from checks import deductive
    ded = deductive.run(prop, "quick", REPO)
    for o in ded["obligations"]:
        if o["name"] == rep.get("obligation"):
            print("obligation %s: %s (%s)" % (o["name"], o["verdict"], o["backend"]))
            return 1 if o["verdict"] == "sat" else 0
    print("obligation %s is not generated any more" % rep.get("obligation"))
    return 0


if __name__ == "__main__":
    sys.exit(main())
