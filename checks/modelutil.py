"""Reading solver models (as returned by pyvc.solve) back into Python values for replay."""
import re
from fractions import Fraction


def num(v):
    if isinstance(v, list) and len(v) == 2:
        return float(Fraction(v[0], v[1]))
    if isinstance(v, bool):
        return v
    if isinstance(v, (int, float)):
        return v
    return None


def from_candidate(cand):
    """nlsat candidate: scalar inputs + purified reads sel!k <-> '(select in_x.2 3)'."""
    out = dict(cand.get("values", {}))
    sel = cand.get("selects", {})
    for name, sexpr in sel.items():
        m = re.match(r"\(select (\S+) (-?\d+|\(- \d+\))\)$", sexpr.strip())
        if m and name in out:
            idx = m.group(2).replace("(- ", "-").replace(")", "")
            arr = out.setdefault(m.group(1), {"array": {}})
            if isinstance(arr, dict) and "array" in arr:
                arr["array"][idx] = out[name]
    return out


def scalar(model, name, default=None):
    """A scalar input `name` of kind int / float (floats are (nan, value) pairs: name.0, name.1)."""
    if model is None:
        return default
    for key in (name, name + ".1"):
        if key in model:
            v = num(model[key])
            if v is not None:
                if key.endswith(".1") and model.get(name + ".0") is True:
                    return float("nan")
                return v
    return default


def array(model, name, n, default=0.0):
    """First n cells of an input array component (e.g. 'in_segment.2' for the values of list[float] segment)."""
    out = []
    a = (model or {}).get(name)
    cells = a.get("array", {}) if isinstance(a, dict) else {}
    for i in range(n):
        v = num(cells.get(str(i)))
        out.append(default if v is None else v)
    return out


def float_list(model, name, n=None, default=0.0):
    """Input of kind list[float] (len, nan-array, value-array) or list[real] (len, value-array)."""
    ln = scalar(model, name + ".0", None)
    if n is None:
        n = int(ln) if isinstance(ln, (int, float)) and 0 <= ln <= 12 else 4
    comp = name + ".2" if (model or {}).get(name + ".2") is not None else name + ".1"
    return array(model, comp, n, default)
