#!/usr/bin/env python
"""Run the check of one property:  python -m checks.run C03 --tier quick|thorough

Exit codes: 0 held / 1 violation (a `VIOLATION property=<id> replay=<path>` line is printed) /
2 undecided and no bounded stand-in to fall back on / 3 checker error (crash, vacuity guard).
See DESIGN.md §3."""
import argparse
import hashlib
import importlib
import json
import os
import sys
import time
import traceback
import os as _os, sys as _sys
if _os.environ.get("PYTHONHASHSEED") != "0":      # deterministic VC text: set iteration order must not vary between runs
    _os.environ["PYTHONHASHSEED"] = "0"
    _os.execv(_sys.executable, [_sys.executable] + (["-m", "checks.run"] + _sys.argv[1:] if __name__ == "__main__" and _sys.argv[0].endswith("run.py") and __package__ else _sys.argv))

ROOT = os.path.dirname(os.path.dirname(os.path.abspath(__file__)))
sys.path.insert(0, ROOT)
os.environ.setdefault("PYTHONDONTWRITEBYTECODE", "1")
sys.dont_write_bytecode = True
REPO = os.environ.get("TRACKLIB_REPO", "/repo")
if REPO not in sys.path:
    sys.path.insert(0, REPO)


def load_known(prop):
    out = []
    p = os.path.join(ROOT, "known_findings.jsonl")
    if os.path.exists(p):
        for line in open(p):
            line = line.strip()
            if line and not line.startswith("#"):
                e = json.loads(line)
                if e.get("property") == prop and e.get("status") == "known":
                    out.append(e)
    return out


def match_known(known, *, obligation=None, case=None, failure=None):
    for e in known:
        m = e.get("match", {})
        if obligation is not None and "obligations" in m:
            import fnmatch
            if any(fnmatch.fnmatchcase(obligation, pat.replace("[", "[[]")) for pat in m["obligations"]):
                return e
        if case is not None and "case_predicate" in m:
            try:
                if eval(m["case_predicate"], {"__builtins__": __builtins__}, {"case": case, "failure": failure or ""}):
                    return e
            except Exception:
                pass
    return None


def load_baseline(prop):
    """specs/baseline/<prop>.json: per function the hash of the source text (incl. inlined callees) on which
    every obligation was discharged, and the names of those obligations (tools/mkbaseline.py)."""
    p = os.path.join(ROOT, "specs", "baseline", prop + ".json")
    if os.path.exists(p):
        return json.load(open(p))
    return dict(functions={}, discharged=[])


def write_replay(prop, payload):
    d = os.path.join(os.environ.get("VERIF_OUT", ROOT), "replays")
    os.makedirs(d, exist_ok=True)
    h = hashlib.sha256(json.dumps(payload, sort_keys=True, default=str).encode()).hexdigest()[:12]
    path = os.path.join(d, "%s-%s.json" % (prop, h))
    with open(path, "w") as f:
        json.dump(payload, f, indent=1, default=str)
    return os.path.relpath(path, os.environ.get("VERIF_OUT", ROOT))


def main(argv=None):
    ap = argparse.ArgumentParser()
    ap.add_argument("prop")
    ap.add_argument("--tier", default=os.environ.get("VERIF_TIER", "quick"), choices=["quick", "thorough"])
    ap.add_argument("--only", default=None, choices=[None, "deductive", "bounded"])
    args = ap.parse_args(argv)
    prop, tier = args.prop, args.tier
    seed = int(os.environ.get("VERIF_SEED", "20260928"))
    t0 = time.time()
    known = load_known(prop)
    violations, known_hits, undecided, notes = [], [], [], []
    ded = bnd = None
    try:
        if args.only in (None, "deductive"):
            from checks import deductive
            pats = [p_ for k in known for p_ in k.get("match", {}).get("obligations", [])]
            ded = deductive.run(prop, tier, REPO, pats)
        if args.only in (None, "bounded"):
            from checks import boundedrun
            bnd = boundedrun.run(prop, tier, seed, REPO)
    except Exception:
        traceback.print_exc()
        print("CHECKER-ERROR property=%s %s" % (prop, "exception in the checker"))
        return 3

    baseline = load_baseline(prop)
    pending_nofail = []
    # ---------------------------------------------------------------- deductive verdicts
    if ded is not None:
        if ded.get("vacuous"):
            print("CHECKER-ERROR property=%s vacuity guard: %s" % (prop, "; ".join(ded["vacuous"])))
            return 3
        for o in ded["obligations"]:
            if o["verdict"] == "unsat" or o["kind"] == "cover":
                continue
            if o["verdict"] == "sat":
                if not o.get("carry", True):
                    notes.append("DRIFT property=%s obligation=%s (auxiliary clause, not a violation)" % (prop, o["name"]))
                    continue
                k = match_known(known, obligation=o["name"])
                if k is not None:
                    known_hits.append((k, o["name"]))
                    continue
                # replay the counter-model on the real code through the property's oracle
                rep = dict(property=prop, kind="obligation", obligation=o["name"], function=o.get("function"),
                           source_sha=o.get("source_sha"), solver=o.get("backend"), model=o.get("model"),
                           solver_output="sat", tier=tier)
                failing = None
                try:
                    from checks import boundedrun
                    failing = boundedrun.replay_model(prop, o, REPO)
                except Exception as e:
                    rep["concretise_error"] = repr(e)
                if failing:
                    case, fails = failing
                    k = match_known(known, case=case, failure="; ".join(fails))
                    if k is not None:
                        known_hits.append((k, o["name"]))
                        continue
                    rep.update(case=case, failures=fails, replayed=True)
                    path = write_replay(prop, rep)
                    violations.append("VIOLATION property=%s replay=%s obligation=%s" % (prop, path, o["name"]))
                else:
                    rep.update(replayed=False)
                    path = write_replay(prop, rep)
                    violations.append("VIOLATION property=%s replay=%s obligation=%s no-failing-input-found" % (prop, path, o["name"]))
            else:
                k = match_known(known, obligation=o["name"])
                if k is not None:
                    known_hits.append((k, o["name"]))     # an obligation of a recorded finding: not re-litigated
                    continue
                # a candidate counter-model from a weakened formula is believed only if the real code fails on it
                if o.get("candidate_model") and o.get("carry", True):
                    try:
                        from checks import boundedrun, modelutil
                        o2 = dict(o, model=modelutil.from_candidate(o["candidate_model"]))
                        failing = boundedrun.replay_model(prop, o2, REPO)
                    except Exception:
                        failing = None
                    if failing:
                        case, fails = failing
                        if match_known(known, case=case, failure="; ".join(fails)) is None:
                            rep = dict(property=prop, kind="obligation", obligation=o["name"], function=o.get("function"),
                                       solver="z3-nlsat (candidate model, confirmed by replay)", model=o2["model"], case=case,
                                       failures=fails, replayed=True, tier=tier)
                            path = write_replay(prop, rep)
                            violations.append("VIOLATION property=%s replay=%s obligation=%s" % (prop, path, o["name"]))
                            continue
                if o["kind"] != "lemma" and o.get("carry", True) and o.get("eff_sha") is not None \
                        and baseline["functions"].get(o["function"]) not in (None, o["eff_sha"]):
                    # the function's text differs from the text on which all its obligations were discharged, and
                    # this obligation no longer goes through: a failed obligation of changed code (DESIGN §3)
                    rep = dict(property=prop, kind="obligation", obligation=o["name"], function=o.get("function"),
                               source_sha=o.get("source_sha"), baseline_sha=baseline["functions"].get(o["function"]),
                               solver_output="%s (%s) after %.1fs in every back end; discharged on the baseline source"
                                             % (o["verdict"], o.get("detail") or "no model", o.get("time") or 0),
                               replayed=False, tier=tier)
                    pending_nofail.append((o, rep))
                    continue
                undecided.append("UNDECIDED property=%s obligation=%s reason=%s" % (prop, o["name"], o.get("detail") or "unknown"))
        for f in ded["functions"]:
            if f.get("error"):
                undecided.append("UNDECIDED property=%s function=%s reason=%s" % (prop, f["qual"], f["error"]))

    # ---------------------------------------------------------------- bounded verdicts
    if bnd is not None:
        for fl in bnd["failures"]:
            k = match_known(known, case=fl["case"], failure="; ".join(fl["failures"]))
            if k is not None:
                known_hits.append((k, "bounded"))
                continue
            if len([v for v in violations if "bounded" in v]) >= 3:
                continue
            rep = dict(property=prop, kind="bounded", case=fl["case"], failures=fl["failures"], tier=tier, seed=seed)
            path = write_replay(prop, rep)
            violations.append("VIOLATION property=%s replay=%s (bounded stand-in)" % (prop, path))
        if bnd.get("error"):
            print("CHECKER-ERROR property=%s bounded harness: %s" % (prop, bnd["error"]))
            return 3

    # failed obligations of changed code for which the solver gave no model: the bounded stand-in's failing
    # input (if any) is the replayed witness; otherwise the violation is reported without one
    if pending_nofail:
        bounded_viol = [v for v in violations if "(bounded stand-in)" in v]
        for o, rep in pending_nofail[:6]:
            if bounded_viol:
                rep["witness"] = "see the bounded stand-in's replay file(s): " + "; ".join(bounded_viol[:2])
            path = write_replay(prop, rep)
            violations.append("VIOLATION property=%s replay=%s obligation=%s%s" % (
                prop, path, o["name"], "" if bounded_viol else " no-failing-input-found"))

    # ---------------------------------------------------------------- report
    from checks import evidence
    evidence.write(prop, tier, seed, ded, bnd, violations, known_hits, undecided, time.time() - t0)
    for n in notes:
        print(n)
    seen = set()
    for k, what in known_hits:
        key = k.get("id") or k.get("what")
        if key in seen:
            continue
        seen.add(key)
        print("KNOWN-FINDING: property=%s %s" % (prop, k.get("what")))
    for u in undecided:
        print(u)
    if violations:
        for v in violations:
            print(v)
        return 1
    nob = len([o for o in ded["obligations"] if o["kind"] != "cover"]) if ded else 0
    ndis = len([o for o in ded["obligations"] if o["kind"] != "cover" and o["verdict"] == "unsat"]) if ded else 0
    nb = bnd["evaluations"] if bnd else 0
    if undecided and bnd is None:
        print("UNDECIDED property=%s and no bounded stand-in" % prop)
        return 2
    print("OK property=%s obligations=%d discharged=%d bounded_evaluations=%d wall=%.1fs" % (prop, nob, ndis, nb, time.time() - t0))
    return 0


if __name__ == "__main__":
    sys.exit(main())
