"""Deductive part of a check: contracts of specs/<ID>.py against the real source, via pyvc."""
import importlib
import os
import time

from pyvc.extract import Index
from pyvc.symexec import Registry
from pyvc import stdspec
from pyvc.verify import verify_function
from pyvc.solve import solve_all

TIMEOUT = {"quick": 30, "thorough": 150}
ONLY = None      # developer filter (tools/ded.py): substrings of function names


def build_registry(repo, prop):
    idx = Index(repo)
    reg = Registry(idx)
    stdspec.install(reg)
    mod = importlib.import_module("specs." + prop)
    for dep in getattr(mod, "DEPENDS", []):
        importlib.import_module("specs." + dep).register(reg)
    mod.register(reg)
    return idx, reg, mod


def _generate(task):
    """VCs of one function under contract: (function record, obligations with SMT-LIB text, extraction notes)"""
    repo, prop, q = task
    idx, reg, mod = build_registry(repo, prop)
    r = verify_function(reg, q, prop)
    eff = None
    if r.fi is not None:
        import hashlib
        parts = [r.fi.sha()] + [idx.funcs[x].sha() for x in sorted(r.inlined) if x in idx.funcs]
        eff = hashlib.sha256("|".join(parts).encode()).hexdigest()[:16]
    f = dict(qual=q, error=r.error, n=len(r.obligations), eff_sha=eff,
             path=r.fi.path if r.fi else None, sha=r.fi.sha() if r.fi else None,
             file_sha=idx.file_sha.get(r.fi.path) if r.fi else None,
             inlined=r.inlined, called=r.called, trusted=r.trusted)
    return f, r.obligations, r.dropped


def run(prop, tier, repo, short_patterns=()):
    if not os.path.exists(os.path.join(os.path.dirname(os.path.dirname(os.path.abspath(__file__))), "specs", prop + ".py")):
        return None
    t0 = time.time()
    idx, reg, mod = build_registry(repo, prop)
    out = dict(functions=[], obligations=[], vacuous=[], lemmas=0, dropped=[], trusted=set(), inlined=set(),
               assumptions=list(getattr(mod, "ASSUMPTIONS", [])))
    todo = []
    quals = [q for q in getattr(mod, "FUNCTIONS", []) if not ONLY or any(x in q for x in ONLY)]
    # VC generation: one FRESH process per function (so that generated names, hence the VC text and the solvers'
    # behaviour, do not depend on which other functions were processed before), up to 16 at a time
    if len(quals) > 1:
        import multiprocessing
        ctx_mp = multiprocessing.get_context("fork")
        with ctx_mp.Pool(min(16, len(quals)), maxtasksperchild=1) as pool:
            gen = pool.map(_generate, [(repo, prop, q) for q in quals], chunksize=1)
    else:
        gen = [_generate((repo, prop, q)) for q in quals]
    for q, (f, obls, dropped) in zip(quals, gen):
        out["functions"].append(f)
        out["dropped"] += dropped
        out["trusted"] |= set(f["trusted"])
        out["inlined"] |= set(f["inlined"])
        if f["error"] is None and not any(o["kind"] != "cover" for o in obls):
            out["vacuous"].append("no obligation generated for " + q)
        eff = f["eff_sha"]
        for o in obls:
            o["function"] = q
            o["source_sha"] = f["sha"]
            o["eff_sha"] = eff
            todo.append(o)
    lemma_list = [("lib:" + n, h, c) for n, h, c in stdspec.lib_schemas()] if getattr(mod, "USES_LIB", False) else []
    if hasattr(mod, "lemmas"):
        lemma_list += list(mod.lemmas(reg))
    if lemma_list:
        import z3
        for name, hyps, claim in lemma_list:
            s = z3.Solver()
            for h in hyps:
                s.add(h)
            s.add(z3.Not(claim))
            todo.append(dict(name="%s/lemma:%s" % (prop, name), kind="lemma", carry=True, line=None, smt2=s.to_smt2(),
                             function="(lemma)", source_sha=None, axioms=[]))
            s2 = z3.Solver()
            for h in hyps:
                s2.add(h)
            todo.append(dict(name="%s/cover:lemma:%s" % (prop, name), kind="cover", carry=True, line=None,
                             smt2=s2.to_smt2(), function="(lemma)", source_sha=None, axioms=[]))
            out["lemmas"] += 1
    # solver preference recorded with the baseline: (back end, seconds) per obligation name
    try:
        import json
        bl = json.load(open(os.path.join(os.path.dirname(os.path.dirname(os.path.abspath(__file__))), "specs", "baseline", prop + ".json")))
        pref = bl.get("backends", {})
    except Exception:
        pref = {}
    for o in todo:
        if o["name"] in pref and o["kind"] != "cover":
            o["prefer"] = tuple(pref[o["name"]])
    import fnmatch
    for o in todo:
        if any(fnmatch.fnmatchcase(o["name"], pat.replace("[", "[[]")) for pat in short_patterns):
            o["kind_timeout"] = 8      # obligations of recorded findings: short budget
    res = solve_all(todo, timeout_s=TIMEOUT[tier])
    for o, r in zip(todo, res):
        o.update(verdict=r["verdict"], backend=r["backend"], time=r["time"], model=r["model"], detail=r["detail"],
                 candidate_model=r.get("candidate_model"))
        if o["kind"] == "cover" and r["verdict"] == "unsat":
            out["vacuous"].append("hypotheses contradictory at " + o["name"])
        o.pop("smt2")
        o.pop("prefer", None)
        o.pop("smt2_rel", None)
        o.pop("smt2_cone", None)
        o.pop("smt2_near1", None)
        o.pop("smt2_near2", None)
        out["obligations"].append(o)
    out["trusted"] = sorted(out["trusted"])
    out["inlined"] = sorted(out["inlined"])
    out["wall"] = time.time() - t0
    out["solver_time"] = round(sum(o["time"] for o in out["obligations"]), 2)
    return out
