"""Strings as opaque integer codes (DESIGN §2.3: no general string theory).

Python string literals are interned to distinct non-negative codes.  `"#" + str(n)` is the
injective constructor HASHNAME(n) with negative codes, disjoint from every literal.  The only
predicate the verified code needs is `s[0] == "#"` (first_is_hash)."""
import z3
from .kinds import STR
from .values import Val, OutOfSubset

_intern = {}
_rev = {}


def code(s):
    if s not in _intern:
        _intern[s] = len(_intern) + 1
        _rev[_intern[s]] = s
    return _intern[s]


def lit(s):
    return Val(STR, [z3.IntVal(code(s))], py=s)


def decode(c):
    return _rev.get(c)


HASHNAME = z3.Function("hashname", z3.IntSort(), z3.IntSort())
FIRST_IS_HASH = z3.Function("first_is_hash", z3.IntSort(), z3.BoolSort())
FIRSTCHAR = z3.Function("str_first_char", z3.IntSort(), z3.IntSort())   # s[0] as a one-character string code
CONCAT = z3.Function("strconcat", z3.IntSort(), z3.IntSort(), z3.IntSort())
STR_OF_INT = z3.Function("str_of_int", z3.IntSort(), z3.IntSort())


def axioms():
    n, m = z3.Ints("n!s m!s")
    ax = [
        z3.ForAll([n], z3.And(HASHNAME(n) < 0, FIRST_IS_HASH(HASHNAME(n)))),
        z3.ForAll([n, m], z3.Implies(HASHNAME(n) == HASHNAME(m), n == m)),
    ]
    for s, c in _intern.items():
        ax.append(FIRST_IS_HASH(z3.IntVal(c)) == z3.BoolVal(s[:1] == "#"))
    ax.append(z3.ForAll([n], FIRST_IS_HASH(n) == (FIRSTCHAR(n) == z3.IntVal(code("#")))))
    return ax


def first_char(v):
    if v.py is not None and len(v.py) >= 1:
        return lit(v.py[0])
    return Val(STR, [FIRSTCHAR(v.terms[0])])


def concat(a, b):
    if a.py is not None and b.py is not None:
        return lit(a.py + b.py)
    if a.py == "#" and getattr(b, "py", None) is None and b.terms[0].decl().eq(STR_OF_INT):
        return Val(STR, [HASHNAME(b.terms[0].arg(0))])
    # any other concatenation: an opaque string (sound: nothing is known about it)
    return Val(STR, [CONCAT(a.terms[0], b.terms[0])])


def str_of_int(v):
    return Val(STR, [STR_OF_INT(v.terms[0])])
