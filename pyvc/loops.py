"""Loops: cut at the head with a sidecar invariant (init / preserve obligations, havoc of what
the body writes), or complete unrolling when the trip count is a small constant."""
import ast
import z3
from .kinds import *
from .values import *
from .symexec import State, Outcomes, merge, POISON, LoopSpec

UNROLL_MAX = 16


def loop_spec(ex, node):
    lid = ex.loop_ids.get(id(node))
    sp = ex.spec.loops.get(lid) if ex.spec is not None else None
    return lid, sp


def havoc_like(v, name):
    if v is POISON or v is None:
        return v
    if isinstance(v.kind, KFunc):
        return v
    f = fresh(v.kind, name)
    return f


def maybe_assigned(node, spec):
    """Names the loop may rebind or mutate, syntactically: assignment / for / del targets, bases of subscript or
    attribute stores, receivers of method calls, and ghost assignments of the contract.  None = unknown (all)."""
    out = set()

    def base_name(e):
        while isinstance(e, (ast.Subscript, ast.Attribute)):
            e = e.value
        return e.id if isinstance(e, ast.Name) else None
    for n in ast.walk(node):
        if isinstance(n, ast.Name) and isinstance(n.ctx, (ast.Store, ast.Del)):
            out.add(n.id)
        elif isinstance(n, (ast.Subscript, ast.Attribute)) and isinstance(n.ctx, (ast.Store, ast.Del)):
            b = base_name(n)
            if b:
                out.add(b)
        elif isinstance(n, ast.Call) and isinstance(n.func, ast.Attribute):
            b = base_name(n.func.value)
            if b:
                out.add(b)
    if spec is not None:
        for hints in spec.at.values():
            for h in hints:
                t = h[1] if isinstance(h, tuple) else h
                if isinstance(t, str) and t.startswith("ghost "):
                    out.add(t[6:].split("=", 1)[0].strip())
    out.add("$alloc")
    return out


def written_sets(ex, body_runner, st, node=None):
    """Dry run of the body from a havoc state; returns (vars, heap fields) that change.  Variables the loop cannot
    assign (syntactically) keep their value, so that constants stay constants in the dry run."""
    ctx = ex.ctx
    n_h, n_o = len(ctx.hyps), len(ctx.obls)
    saved_drop = list(ctx.dropped)
    may = maybe_assigned(node, ex.spec) if node is not None else None
    dry = State({k: (havoc_like(v, "dry_" + k) if may is None or k in may else v) for k, v in st.vars.items()}, {}, TRUE)
    for key in list(ex.ctx.reg.fields):
        k = ex.ctx.reg.fields[key]
        dry.heap[key] = [z3.Const(uid("dryH_%s_%s" % key), z3.ArraySort(z3.IntSort(), s)) for s in flat(k)]
    before_vars = dict(dry.vars)
    before_heap = dict(dry.heap)
    saved_depth = ctx.depth
    try:
        after = body_runner(dry)
    finally:
        del ctx.hyps[n_h:]
        del ctx.obls[n_o:]
        ctx.dropped[:] = saved_drop
        ctx.depth = saved_depth
    wv, wh = {}, set()
    if after is not None:
        for k, v in after.vars.items():
            b = before_vars.get(k)
            if b is None or v is POISON or b is POISON:
                if k not in before_vars or v is not b:
                    wv[k] = None if v is POISON else v.kind
                continue
            if v is b:
                continue
            if v.kind != b.kind or len(v.terms) != len(b.terms) or any(not x.eq(y) for x, y in zip(v.terms, b.terms)):
                wv[k] = v.kind
        for k, arrs in after.heap.items():
            b = before_heap.get(k)
            if b is None or any(not x.eq(y) for x, y in zip(arrs, b)):
                wh.add(k)
    return wv, wh


class Iter:
    """Description of the iteration space of a `for`."""
    def __init__(self):
        self.ghost = None      # name under which invariants see the iteration index
        self.lo = self.hi = None
        self.step = 1
        self.bind = None       # function(st, k) binding the loop targets at the start of an iteration
        self.names = []        # python names bound by the loop header
        self.filter = None     # function(k) -> z3 Bool: iteration slot k is skipped when false (dict tombstones)


def analyse_for(ex, node, st, lspec):
    it = Iter()
    t, src = node.target, node.iter
    if isinstance(src, ast.Call) and isinstance(src.func, ast.Name) and src.func.id == "range":
        args = [to_int(ex.eval(a, st)) for a in src.args]
        if len(args) == 1:
            it.lo, it.hi = z3.IntVal(0), args[0]
        else:
            it.lo, it.hi = args[0], args[1]
        if len(args) == 3:
            s = z3.simplify(args[2])
            if not z3.is_int_value(s) or s.as_long() == 0:
                raise OutOfSubset("range step must be a non-zero constant")
            it.step = s.as_long()
        if not isinstance(t, ast.Name):
            raise OutOfSubset("range loop target")
        it.ghost = t.id
        it.names = [t.id]

        def bind(s, k):
            s.vars[t.id] = vint(k)
        it.bind = bind
        return it
    # iteration over a list value (possibly via enumerate / a variable holding range())
    enum = False
    if isinstance(src, ast.Call) and isinstance(src.func, ast.Name) and src.func.id == "enumerate":
        enum = True
        src = src.args[0]
    seq = ex.eval(src, st)
    if isinstance(seq.kind, KFunc) and seq.py and seq.py[0] == "range":
        args = [to_int(a) for a in seq.py[1]]
        it.lo, it.hi = (z3.IntVal(0), args[0]) if len(args) == 1 else (args[0], args[1])
        it.ghost = t.id
        it.names = [t.id]
        it.bind = lambda s, k: s.vars.__setitem__(t.id, vint(k))
        return it
    if isinstance(seq.kind, KDict):
        # iteration over the insertion log of the dict as it was when the loop started; tombstones skipped.
        # (Python raises RuntimeError if the key set changes during the iteration: not checked here.)
        from . import dicts
        if seq.py == "dictitems":
            raise OutOfSubset("dict.items() iteration")
        if enum:
            raise OutOfSubset("enumerate over a dict")
        d0 = seq
        it.lo, it.hi = z3.IntVal(0), dicts.D(d0).olen
        it.ghost = (lspec.index if lspec is not None and lspec.index else "_k")
        it.filter = lambda k: dicts.live(d0, k)
        it.bind = lambda s, k: ex.assign(t, dicts.slot_key(d0, k), s, node)
        return it
    if not isinstance(seq.kind, KList):
        raise OutOfSubset("%s: iteration over %r (line %d)" % (ex.fi.qual, seq.kind, node.lineno))
    it.lo, it.hi = z3.IntVal(0), list_len(seq)
    if enum:
        assert isinstance(t, ast.Tuple) and len(t.elts) == 2 and isinstance(t.elts[0], ast.Name)
        it.ghost = t.elts[0].id
        xt = t.elts[1]
        it.names = [t.elts[0].id]
    else:
        it.ghost = (lspec.index if lspec is not None and lspec.index else "_k")
        xt = t

    def bind(s, k):
        if enum:
            s.vars[t.elts[0].id] = vint(k)
        ex.assign(xt, list_get(seq, k), s, node)
    it.bind = bind
    return it


def exec_for(ex, node, st):
    lid, lspec = loop_spec(ex, node)
    if node.orelse:
        ex.unsupported(node, "for-else")
    it = analyse_for(ex, node, st, lspec)
    lo, hi = z3.simplify(it.lo), z3.simplify(it.hi)
    if lspec is None or lspec.unroll:
        if z3.is_int_value(lo) and z3.is_int_value(hi):
            ks = list(range(lo.as_long(), hi.as_long(), it.step))
            if len(ks) <= (lspec.unroll if lspec is not None and lspec.unroll else UNROLL_MAX):
                return unroll(ex, node, st, it, ks)
        raise OutOfSubset("%s: loop %s (line %d) has no invariant in the sidecar and is not a small constant range"
                          % (ex.fi.qual, lid, node.lineno))
    step = it.step

    def guard(k):
        return k < it.hi if step > 0 else k > it.hi

    def auto_range(k):
        if step == 1:
            return and_(k >= it.lo, or_(k <= it.hi, k == it.lo))
        if step == -1:
            return and_(k <= it.lo, or_(k >= it.hi, k == it.lo))
        return and_(k >= it.lo, (k - it.lo) % step == 0)
    return cut_loop(ex, node, st, lid, lspec, it, guard, auto_range)


def unroll(ex, node, st, it, ks):
    out = Outcomes()
    cur = st
    exits = None
    for k in ks:
        if cur is None:
            break
        it.bind(cur, z3.IntVal(k))
        skipped = None
        if it.filter is not None:
            f = it.filter(z3.IntVal(k))
            skipped = cur.copy(and_(cur.pc, not_(f)))
            cur.pc = and_(cur.pc, f)
        o = ex.exec_block(node.body, cur)
        exits = merge(exits, o.brk)
        out.ret = merge(out.ret, o.ret)
        cur = merge(merge(o.normal, o.cont), skipped)
    out.normal = merge(exits, cur)
    return out


def cut_loop(ex, node, st, lid, lspec, it, guard, auto_range):
    ctx = ex.ctx
    is_for = it is not None
    name = "%sloop%s" % (ex.tag, lid)

    def with_ghost(k, fn):
        if not is_for:
            return fn()
        saved = ex.bound
        ex.bound = dict(saved)
        ex.bound[it.ghost] = vint(k)
        try:
            return fn()
        finally:
            ex.bound = saved

    # 1. what does the body write?
    def body_runner(dry):
        if is_for:
            k = z3.Int(uid("dryk"))
            it.bind(dry, k)
        else:
            ex.eval(node.test, dry)
        o = ex.exec_block(node.body, dry)
        return merge(o.normal, o.cont)
    wv, wh = written_sets(ex, body_runner, st, node)
    # loop-carried variables whose kind widens in the body (somme = 0 ... somme += float)
    widened = False
    for v, k in list(wv.items()):
        cur = st.vars.get(v)
        if k is not None and cur is not None and cur is not POISON and cur.kind != k:
            try:
                jk = join_kinds(cur.kind, k)
            except OutOfSubset:
                continue
            if jk != cur.kind:
                st.vars[v], _ = coerce(cur, jk)
                widened = True
    if widened:
        wv, wh2 = written_sets(ex, body_runner, st, node)
        wh |= wh2
    wv = set(wv)
    if lspec.modifies is not None:
        wh |= {tuple(m.split(".")) for m in lspec.modifies}
    if is_for:
        wv -= set(it.names)
    # loop-carried variables that do not exist yet need a declared kind
    for v in sorted(wv):
        if v not in st.vars or st.vars[v] is POISON:
            dk = ex.declared_local(v)
            if dk is not None:
                st.vars[v] = fresh(dk, "undef_" + v)

    entry_saved = getattr(ex, "loop_entry", None)
    ex.loop_entry = st
    try:
        # 2. invariant holds on entry
        for j, c in enumerate(lspec.inv):
            cl = with_ghost(it.lo if is_for else None, lambda: ex.eval_spec(c, st))
            ctx.oblige(st, "%s.init#%d" % (name, j), cl, "loop-init", node.lineno)
        # 3. arbitrary iteration
        h = st.copy()
        for v in wv:
            if v in h.vars and h.vars[v] is not POISON and h.vars[v] is not None:
                h.vars[v] = havoc_like(h.vars[v], v)
                for fact in basic_facts(h.vars[v]):
                    ctx.hyps.append(fact)
        for key in wh:
            k = ctx.reg.fields[key]
            h.heap[key] = [z3.Const(uid("H_%s_%s" % key), z3.ArraySort(z3.IntSort(), s)) for s in flat(k)]
            ex.assume_list_lengths(k, h.heap[key])
        if "$alloc" in wv and "$alloc" in st.vars and h.vars.get("$alloc") is not None:
            # the allocation counter only grows (A-ALLOC)
            ctx.assume(h, h.vars["$alloc"].terms[0] >= st.vars["$alloc"].terms[0])
        kk = z3.Int(uid(it.ghost)) if is_for else None
        if is_for:
            ctx.assume(h, auto_range(kk))
        for c in lspec.inv:
            ctx.assume(h, with_ghost(kk, lambda: ex.eval_spec(c, h, assumed=True)))
        # guard
        if is_for:
            g = guard(kk)
        else:
            g = truth(ex.eval(node.test, h))
        b = h.copy(and_(h.pc, g))
        if is_for:
            it.bind(b, kk)
        variant0 = None
        if lspec.decreases is not None:
            variant0 = with_ghost(kk, lambda: to_int(ex.eval_spec_term(lspec.decreases, b)))
            ctx.oblige(b, "%s.variant-nonneg" % name, variant0 >= 0, "loop-variant", node.lineno)
        skipped = None
        if is_for and it.filter is not None:
            f = it.filter(kk)
            skipped = b.copy(and_(b.pc, not_(f)))
            b.pc = and_(b.pc, f)
        o = ex.exec_block(node.body, b)
        nxt = merge(merge(o.normal, o.cont), skipped)
        if nxt is not None and not z3.is_false(nxt.pc):
            k2 = (kk + it.step) if is_for else None
            for j, hnt in enumerate(lspec.hints):
                if isinstance(hnt, tuple):
                    hnt = hnt[1]
                if isinstance(hnt, str) and hnt.startswith("use "):
                    ctx.assume(nxt, with_ghost(k2, lambda: ex.eval_spec(hnt[4:], nxt)))
                    continue
                cl = with_ghost(k2, lambda: ex.eval_spec(hnt, nxt))
                ctx.oblige(nxt, "%s.hint#%d" % (name, j), cl, "hint", node.lineno)
                ctx.assume(nxt, cl)
            for j, c in enumerate(lspec.inv):
                cl = with_ghost(k2, lambda: ex.eval_spec(c, nxt))
                ctx.oblige(nxt, "%s.preserve#%d" % (name, j), cl, "loop-preserve", node.lineno)
            if variant0 is not None:
                saved_spec = ex.spec_mode
                ex.spec_mode = True
                try:
                    v1 = with_ghost(k2, lambda: to_int(ex.eval(ast.parse(lspec.decreases, mode="eval").body, nxt)))
                finally:
                    ex.spec_mode = saved_spec
                ctx.oblige(nxt, "%s.variant-decreases" % name, v1 < variant0, "loop-variant", node.lineno)
        # 4. exit
        e = h.copy(and_(h.pc, not_(g)))
        if is_for:
            # Python leaves the loop variable at its last value
            for n in it.names:
                prev = st.vars.get(n)
                if prev is not None and prev is not POISON and isinstance(prev.kind, KInt):
                    e.vars[n] = vint(if_(guard(it.lo), kk - it.step, prev.terms[0]))
                else:
                    e.vars[n] = vint(kk - it.step)
            e.vars["$exit_" + it.ghost] = vint(kk)
        out = Outcomes()
        out.normal = merge(e, o.brk)
        out.ret = o.ret
        return out
    finally:
        ex.loop_entry = entry_saved


def exec_while(ex, node, st):
    lid, lspec = loop_spec(ex, node)
    if node.orelse:
        ex.unsupported(node, "while-else")
    if lspec is None:
        raise OutOfSubset("%s: while loop %s (line %d) has no invariant in the sidecar" % (ex.fi.qual, lid, node.lineno))
    return cut_loop(ex, node, st, lid, lspec, None, None, None)
