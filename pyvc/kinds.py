"""Static kinds (types) of symbolic Python values and their flattening to z3 sorts.

A symbolic value is `Val(kind, terms)`: `terms` is a tuple of z3 terms whose sorts are
`flat(kind)`.  Containers have *value semantics* (see DESIGN §2.3 and pyvc/README): a list is
(length, one z3 array per flattened component of the element kind).  Objects are references
(Int) into per-field heap arrays kept in the symbolic state.
"""
import z3


class Kind:
    def __eq__(self, o):
        return type(self) is type(o) and self.key() == o.key()

    def __hash__(self):
        return hash((type(self).__name__, self.key()))

    def key(self):
        return ()

    def __repr__(self):
        k = self.key()
        return type(self).__name__ + (repr(k) if k else "")


class KInt(Kind):
    pass


class KBool(Kind):
    pass


class KFloat(Kind):
    """IEEE double modelled as (nan: Bool, v: Real) -- assumption A-REAL."""


class KReal(Kind):
    """A float statically known not to be NaN (storage refinement of KFloat)."""


class KStr(Kind):
    """Strings are opaque codes (Int); see strings.py."""


class KNone(Kind):
    pass


class KComplex(Kind):
    """complex number as (re, im) reals; used by the back-pointer idiom  i + j*1j  of the DTW code"""


class KAny(Kind):
    """A value the verified code only stores and passes on (user ids: ints or strings): an opaque code."""


class KRef(Kind):
    def __init__(self, cls):
        self.cls = cls

    def key(self):
        return (self.cls,)


class KList(Kind):
    def __init__(self, elem):
        self.elem = elem

    def key(self):
        return (self.elem,)


class KTuple(Kind):
    def __init__(self, *elems):
        self.elems = tuple(elems)

    def key(self):
        return self.elems


class KArr2(Kind):
    """numpy 2-D array (value semantics): n0, n1, arrays (Int,Int)->component."""

    def __init__(self, elem):
        self.elem = elem

    def key(self):
        return (self.elem,)


class KOpt(Kind):
    """None | elem."""

    def __init__(self, elem):
        self.elem = elem

    def key(self):
        return (self.elem,)


class KDict(Kind):
    """dict with value semantics, modelled on CPython's own layout: dom : K -> Bool, one array per value
    component, size (number of live keys), and the insertion log (olen, order : Int -> K, pos : K -> Int).
    A deleted key stays in the log as a tombstone; slot i of the log is live iff dom[order[i]] and
    pos[order[i]] == i.  See pyvc/dicts.py."""

    def __init__(self, k, v):
        self.k, self.v = k, v

    def key(self):
        return (self.k, self.v)


class KSet(Kind):
    """set (value semantics): characteristic function over the flattened element components"""

    def __init__(self, elem):
        self.elem = elem

    def key(self):
        return (self.elem,)


class KFunc(Kind):
    """A Python-level callable known statically (function name / lambda AST)."""


INT, BOOL, FLOAT, REAL, STR, NONE, FUNC = KInt(), KBool(), KFloat(), KReal(), KStr(), KNone(), KFunc()
ANY = KAny()
COMPLEX = KComplex()


def flat(kind):
    """z3 sorts of the flattened representation."""
    I, B, R = z3.IntSort(), z3.BoolSort(), z3.RealSort()
    if isinstance(kind, (KInt, KStr, KRef, KAny)):
        return [I]
    if isinstance(kind, KBool):
        return [B]
    if isinstance(kind, KFloat):
        return [B, R]
    if isinstance(kind, KReal):
        return [R]
    if isinstance(kind, KComplex):
        return [R, R]
    if isinstance(kind, KNone):
        return []
    if isinstance(kind, KTuple):
        out = []
        for e in kind.elems:
            out += flat(e)
        return out
    if isinstance(kind, KList):
        return [I] + [z3.ArraySort(I, s) for s in flat(kind.elem)]
    if isinstance(kind, KArr2):
        return [I, I] + [z3.ArraySort(I, I, s) for s in flat(kind.elem)]
    if isinstance(kind, KOpt):
        return [B] + flat(kind.elem)
    if isinstance(kind, KDict):
        ks = flat(kind.k)
        assert len(ks) == 1, "dict keys must be scalar"
        return [z3.ArraySort(ks[0], B)] + [z3.ArraySort(ks[0], s) for s in flat(kind.v)] + \
            [I, I, z3.ArraySort(I, ks[0]), z3.ArraySort(ks[0], I)]
    if isinstance(kind, KSet):
        return [z3.ArraySort(*(flat(kind.elem) + [B]))]
    if isinstance(kind, KFunc):
        return []
    raise TypeError(kind)


def parse_kind(s):
    """Small textual syntax used by the sidecar specs:
    int bool float real str none  Obs (any capitalised name = reference to that class)
    list[k]  tuple[k1,k2]  arr2[k]  opt[k]  dict[k,v]
    """
    s = s.strip()
    base = {"int": INT, "bool": BOOL, "float": FLOAT, "real": REAL, "str": STR, "none": NONE,
            "func": FUNC, "any": ANY, "complex": COMPLEX}
    if s in base:
        return base[s]
    if s.startswith("obj[") and s.endswith("]"):
        return KRef(s[4:-1])        # reference to a class whose name is not capitalised (priority_dict)
    if "[" in s:
        head, rest = s.split("[", 1)
        assert rest.endswith("]"), s
        rest = rest[:-1]
        parts, depth, cur = [], 0, ""
        for ch in rest:
            if ch == "[":
                depth += 1
            if ch == "]":
                depth -= 1
            if ch == "," and depth == 0:
                parts.append(cur)
                cur = ""
            else:
                cur += ch
        parts.append(cur)
        ks = [parse_kind(p) for p in parts]
        return {"list": lambda: KList(ks[0]), "tuple": lambda: KTuple(*ks), "arr2": lambda: KArr2(ks[0]),
                "opt": lambda: KOpt(ks[0]), "dict": lambda: KDict(ks[0], ks[1]), "set": lambda: KSet(ks[0])}[head]()
    if s[0].isupper() or s[0] == "_":
        return KRef(s)
    raise ValueError("unknown kind " + s)
