"""Symbolic values and the encoding of Python's operators on them (DESIGN §2.3)."""
import z3
from .kinds import *

_counter = [0]


def uid(prefix):
    _counter[0] += 1
    return "%s!%d" % (prefix, _counter[0])


class OutOfSubset(Exception):
    pass


class Val:
    __slots__ = ("kind", "terms", "py")

    def __init__(self, kind, terms, py=None):
        self.kind = kind
        self.terms = tuple(terms)
        self.py = py  # python-level payload (constants, function objects)

    def __repr__(self):
        return "Val(%r, %s)" % (self.kind, ", ".join(str(t) for t in self.terms))


TRUE, FALSE = z3.BoolVal(True), z3.BoolVal(False)


def and_(*xs):
    ys = []
    for x in xs:
        if z3.is_false(x):
            return FALSE
        if not z3.is_true(x):
            ys.append(x)
    if not ys:
        return TRUE
    return ys[0] if len(ys) == 1 else z3.And(*ys)


def or_(*xs):
    ys = []
    for x in xs:
        if z3.is_true(x):
            return TRUE
        if not z3.is_false(x):
            ys.append(x)
    if not ys:
        return FALSE
    return ys[0] if len(ys) == 1 else z3.Or(*ys)


def not_(x):
    if z3.is_true(x):
        return FALSE
    if z3.is_false(x):
        return TRUE
    return z3.Not(x)


def implies(a, b):
    if z3.is_true(a):
        return b
    if z3.is_false(a) or z3.is_true(b):
        return TRUE
    return z3.Implies(a, b)


def if_(c, a, b):
    if z3.is_true(c):
        return a
    if z3.is_false(c):
        return b
    if a.eq(b):
        return a
    return z3.If(c, a, b)


# ---------------------------------------------------------------- constructors
def vint(x):
    return Val(INT, [z3.IntVal(x) if isinstance(x, int) else x])


def vbool(x):
    return Val(BOOL, [z3.BoolVal(x) if isinstance(x, bool) else x])


def vfloat(v, nan=FALSE):
    if isinstance(v, (int, float)):
        if v != v:
            return Val(FLOAT, [TRUE, z3.RealVal(0)])
        v = z3.RealVal(repr(float(v))) if not float(v).is_integer() or abs(v) > 1e15 else z3.RealVal(int(v))
    return Val(FLOAT, [nan, v])


def vnone():
    return Val(NONE, [])


def vref(t, cls):
    return Val(KRef(cls), [t])


def vtuple(vals):
    terms = []
    for v in vals:
        terms += list(v.terms)
    return Val(KTuple(*[v.kind for v in vals]), terms)


def tuple_items(v):
    out, pos = [], 0
    for k in v.kind.elems:
        n = len(flat(k))
        out.append(Val(k, v.terms[pos:pos + n]))
        pos += n
    return out


def fresh(kind, name):
    terms = [z3.Const(uid(name) if i == 0 else uid(name + "." + str(i)), s) for i, s in enumerate(flat(kind))]
    return Val(kind, terms)


def set_empty(kind):
    sorts = flat(kind.elem)
    arr = z3.K(sorts[-1], FALSE) if len(sorts) == 1 else None
    if arr is None:
        vs = [z3.Const(uid("se"), srt) for srt in sorts]
        arr = z3.Lambda(vs, FALSE)
    return Val(kind, [arr])


def set_contains(sv, x):
    x, _ = coerce(x, sv.kind.elem)
    return z3.Select(sv.terms[0], *x.terms)


def set_add(sv, x):
    x, sc = coerce(x, sv.kind.elem)
    return Val(sv.kind, [z3.Store(sv.terms[0], *(list(x.terms) + [TRUE]))]), sc


def basic_facts(v):
    """facts true of every value of the kind: lengths and dimensions are non-negative (stated whenever a value is
    introduced as a fresh symbol: inputs, havoc at a loop cut, results of contracted calls)"""
    out = []
    if v is None or not isinstance(v, Val):
        return out
    k = v.kind
    if isinstance(k, KList):
        out.append(v.terms[0] >= 0)
        if isinstance(k.elem, KList):
            i = z3.Int(uid("bf"))
            out.append(z3.ForAll([i], z3.Select(v.terms[1], i) >= 0))
    elif isinstance(k, KArr2):
        out += [v.terms[0] >= 0, v.terms[1] >= 0]
    elif isinstance(k, KOpt):
        out += basic_facts(opt_get(v))
    elif isinstance(k, KTuple):
        for it in tuple_items(v):
            out += basic_facts(it)
    return out


def named(kind, name):
    """Symbol with a stable, readable name (function inputs: used for counter-model read-out)."""
    fl = flat(kind)
    terms = [z3.Const(name if len(fl) == 1 else "%s.%d" % (name, i), s) for i, s in enumerate(fl)]
    return Val(kind, terms)


# ---------------------------------------------------------------- coercions
def is_num(v):
    return isinstance(v.kind, (KInt, KBool, KFloat, KReal))


def to_int(v):
    if isinstance(v.kind, KInt):
        return v.terms[0]
    if isinstance(v.kind, KBool):
        return if_(v.terms[0], z3.IntVal(1), z3.IntVal(0))
    raise OutOfSubset("int expected, got %r" % (v.kind,))


def to_float(v):
    """-> (nan, real)"""
    if isinstance(v.kind, KFloat):
        return v.terms[0], v.terms[1]
    if isinstance(v.kind, KReal):
        return FALSE, v.terms[0]
    if isinstance(v.kind, (KInt, KBool)):
        t = to_int(v)
        return FALSE, (z3.RealVal(t.as_long()) if z3.is_int_value(t) else z3.ToReal(t))
    raise OutOfSubset("number expected, got %r" % (v.kind,))


def truth(v):
    """Python truthiness."""
    k = v.kind
    if isinstance(k, KBool):
        return v.terms[0]
    if isinstance(k, KInt):
        return v.terms[0] != 0
    if isinstance(k, (KFloat, KReal)):
        nan, x = to_float(v)
        return or_(nan, x != 0)
    if isinstance(k, KNone):
        return FALSE
    if isinstance(k, KList):
        return v.terms[0] != 0
    if isinstance(k, KOpt):
        return and_(not_(v.terms[0]), truth(opt_get(v)))
    if isinstance(k, KRef):
        return TRUE
    raise OutOfSubset("truthiness of %r" % (k,))


def coerce(v, kind):
    """Convert v for storage into a slot of `kind`; returns (val, side_condition)."""
    if v.kind == kind:
        return v, TRUE
    if isinstance(kind, KFloat) and is_num(v):
        nan, x = to_float(v)
        return Val(FLOAT, [nan, x]), TRUE
    if isinstance(kind, KReal) and is_num(v):
        nan, x = to_float(v)
        return Val(REAL, [x]), not_(nan)
    if isinstance(kind, KInt) and isinstance(v.kind, KBool):
        return vint(to_int(v)), TRUE
    if isinstance(v.kind, KOpt) and not isinstance(kind, KOpt):
        # an optional value used where a value is required: fine exactly when it is not None (side condition)
        inner, sc = coerce(opt_get(v), kind)
        return inner, and_(not_(v.terms[0]), sc)
    if isinstance(kind, KAny):
        if isinstance(v.kind, (KInt, KBool)):
            return Val(kind, [ANY_OF_INT(to_int(v))]), TRUE
        if isinstance(v.kind, KStr):
            return Val(kind, [ANY_OF_STR(v.terms[0])]), TRUE
        return Val(kind, [z3.Int(uid("any"))]), TRUE
    if isinstance(kind, KOpt):
        if isinstance(v.kind, KNone):
            return opt_none(kind), TRUE
        inner, sc = coerce(v, kind.elem)
        return Val(kind, [FALSE] + list(inner.terms)), sc
    if isinstance(kind, KTuple) and isinstance(v.kind, KTuple) and len(kind.elems) == len(v.kind.elems):
        items, scs = [], []
        for it, k in zip(tuple_items(v), kind.elems):
            c, sc = coerce(it, k)
            items.append(c)
            scs.append(sc)
        return vtuple(items), and_(*scs)
    if isinstance(kind, KList) and isinstance(v.kind, KList):
        # element-kind conversion of a whole list (int list used as float list, ...)
        ek, vk = kind.elem, v.kind.elem
        if isinstance(ek, (KFloat, KReal)) and isinstance(vk, (KInt, KFloat, KReal)):
            i = z3.Int(uid("ci"))
            e, _ = coerce(list_get(v, i), ek)
            arrs = [z3.Lambda([i], t) for t in e.terms]
            return Val(kind, [v.terms[0]] + arrs), TRUE
    raise OutOfSubset("cannot store %r into %r" % (v.kind, kind))


ANY_OF_INT = z3.Function("any_of_int", z3.IntSort(), z3.IntSort())
ANY_OF_STR = z3.Function("any_of_str", z3.IntSort(), z3.IntSort())


def opt_none(kind):
    d = default(kind.elem)
    return Val(kind, [TRUE] + list(d.terms))


def opt_get(v):
    return Val(v.kind.elem, v.terms[1:])


def default(kind):
    terms = []
    for s in flat(kind):
        if s == z3.IntSort():
            terms.append(z3.IntVal(0))
        elif s == z3.BoolSort():
            terms.append(FALSE)
        elif s == z3.RealSort():
            terms.append(z3.RealVal(0))
        else:
            terms.append(_default_of_sort(s))
    return Val(kind, terms)


def _default_of_sort(s):
    if s == z3.IntSort():
        return z3.IntVal(0)
    if s == z3.BoolSort():
        return FALSE
    if s == z3.RealSort():
        return z3.RealVal(0)
    if s == z3.ArraySort(z3.IntSort(), s.range()):
        return z3.K(z3.IntSort(), _default_of_sort(s.range()))
    return z3.Const(uid("dflt"), s)


# ---------------------------------------------------------------- unify / ite
def join_kinds(a, b):
    if a == b:
        return a
    num = (KInt, KBool, KFloat, KReal)
    if isinstance(a, num) and isinstance(b, num):
        if isinstance(a, KFloat) or isinstance(b, KFloat):
            return FLOAT
        if isinstance(a, KReal) or isinstance(b, KReal):
            return REAL
        return INT
    if isinstance(a, KNone) and isinstance(b, KNone):
        return NONE
    if isinstance(a, KNone):
        return b if isinstance(b, KOpt) else KOpt(b)
    if isinstance(b, KNone):
        return a if isinstance(a, KOpt) else KOpt(a)
    if isinstance(a, KOpt) and not isinstance(b, KOpt):
        return KOpt(join_kinds(a.elem, b))
    if isinstance(b, KOpt) and not isinstance(a, KOpt):
        return KOpt(join_kinds(a, b.elem))
    if isinstance(a, KOpt) and isinstance(b, KOpt):
        return KOpt(join_kinds(a.elem, b.elem))
    if isinstance(a, KTuple) and isinstance(b, KTuple) and len(a.elems) == len(b.elems):
        return KTuple(*[join_kinds(x, y) for x, y in zip(a.elems, b.elems)])
    if isinstance(a, KList) and isinstance(b, KList):
        return KList(join_kinds(a.elem, b.elem))
    raise OutOfSubset("cannot merge kinds %r and %r" % (a, b))


def ite(c, a, b):
    if z3.is_true(c):
        return a
    if z3.is_false(c):
        return b
    k = join_kinds(a.kind, b.kind)
    a2, _ = coerce(a, k)
    b2, _ = coerce(b, k)
    return Val(k, [if_(c, x, y) for x, y in zip(a2.terms, b2.terms)], py=a.py if a.py is b.py else None)


# ---------------------------------------------------------------- arithmetic
def floor_div(a, b):
    # z3 Int '/' is Euclidean div: equals floor division for a positive divisor
    if z3.is_int_value(b):
        return a / b if b.as_long() > 0 else (-a) / z3.IntVal(-b.as_long())
    return if_(b > 0, a / b, (-a) / (-b))


def py_mod(a, b):
    if z3.is_int_value(b) and b.as_long() > 0:
        return a % b
    return a - b * floor_div(a, b)


def real_floor(x):
    return z3.ToInt(x)


def real_trunc(x):
    return if_(x >= 0, z3.ToInt(x), -z3.ToInt(-x))


def is_intlike(v):
    return isinstance(v.kind, (KInt, KBool))


def _sq_or_mul(x, y):
    return x * y


FDIV = z3.Function("fdiv", z3.RealSort(), z3.RealSort(), z3.RealSort())    # real division, kept uninterpreted


def arith(op, a, b, on_check, on_assume=None):
    """op in + - * / // % **.  on_check(name, cond) emits a safety obligation."""
    if op == "+" and isinstance(a.kind, KList) and isinstance(b.kind, KList):
        return list_concat(a, b)
    if op == "*" and isinstance(a.kind, KList) and is_intlike(b):
        return list_repeat(a, to_int(b))
    if op == "*" and isinstance(b.kind, KList) and is_intlike(a):
        return list_repeat(b, to_int(a))
    if op == "+" and isinstance(a.kind, KStr) and isinstance(b.kind, KStr):
        from . import strings
        return strings.concat(a, b)
    if isinstance(a.kind, KComplex) or isinstance(b.kind, KComplex):
        if isinstance(a.kind, KArr2) or isinstance(b.kind, KArr2):
            arr, c = (a, b) if isinstance(a.kind, KArr2) else (b, a)
            if op == "*" and isinstance(arr.kind.elem, (KFloat, KReal)):
                i, j = z3.Int(uid("ci")), z3.Int(uid("cj"))
                x = z3.Select(arr.terms[-1], i, j)
                return Val(KArr2(COMPLEX), [arr.terms[0], arr.terms[1], z3.Lambda([i, j], x * c.terms[0]), z3.Lambda([i, j], x * c.terms[1])])
            raise OutOfSubset("array %s complex" % op)

        def cx(v):
            if isinstance(v.kind, KComplex):
                return v.terms[0], v.terms[1]
            nan, x = to_float(v)
            on_check("complex-arithmetic-on-NaN", not_(nan))
            return x, z3.RealVal(0)
        (ar, ai), (br, bi) = cx(a), cx(b)
        if op == "+":
            return Val(COMPLEX, [ar + br, ai + bi])
        if op == "-":
            return Val(COMPLEX, [ar - br, ai - bi])
        if op == "*":
            return Val(COMPLEX, [ar * br - ai * bi, ar * bi + ai * br])
        raise OutOfSubset("complex operator " + op)
    if not (is_num(a) and is_num(b)):
        raise OutOfSubset("arithmetic %s on %r, %r" % (op, a.kind, b.kind))
    if is_intlike(a) and is_intlike(b) and op != "/":
        x, y = to_int(a), to_int(b)
        if op == "+":
            return vint(x + y)
        if op == "-":
            return vint(x - y)
        if op == "*":
            return vint(x * y)
        if op == "//":
            on_check("ZeroDivisionError", y != 0)
            return vint(floor_div(x, y))
        if op == "%":
            on_check("ZeroDivisionError", y != 0)
            return vint(py_mod(x, y))
        if op == "**":
            if z3.is_int_value(y) and 0 <= y.as_long() <= 4:
                if y.as_long() == 0:
                    return vint(1)
                r = x
                for _ in range(y.as_long() - 1):
                    r = r * x
                return vint(r)
            raise OutOfSubset("int ** symbolic")
    na, x = to_float(a)
    nb, y = to_float(b)
    nan = or_(na, nb)
    if op == "+":
        return vfloat(x + y, nan)
    if op == "-":
        return vfloat(x - y, nan)
    if op == "*":
        return vfloat(x * y, nan)
    if op == "/":
        on_check("ZeroDivisionError", or_(nb, y != 0))       # dividing by NaN gives NaN, not an exception
        if z3.is_rational_value(y) or z3.is_int_value(y) or on_assume is None:
            return vfloat(x / y, nan)
        # symbolic divisor: name the quotient so that linear reasoning about it stays linear
        q = z3.Real(uid("quot"))
        on_assume(implies(y != 0, q * y == x), str(q))
        on_assume(implies(y != 0, q == x / y), str(q))
        on_assume(q == FDIV(x, y), str(q))      # the same quotient as an uninterpreted term (congruence reasoning)
        return vfloat(q, nan)
    if op == "//":
        on_check("ZeroDivisionError", y != 0)
        return vfloat(z3.ToReal(z3.ToInt(x / y)), nan)
    if op == "%":
        on_check("ZeroDivisionError", y != 0)
        q = z3.ToReal(z3.ToInt(x / y))
        return vfloat(x - y * q, nan)
    if op == "**":
        if z3.is_rational_value(y) and y.denominator_as_long() == 1 and 0 <= y.numerator_as_long() <= 4:
            if y.numerator_as_long() == 0:
                return vfloat(z3.RealVal(1), nan)
            r = x
            for _ in range(y.numerator_as_long() - 1):
                r = r * x
            return vfloat(r, nan)
        from . import mathlib
        return vfloat(mathlib.POW(x, y), nan)
    raise OutOfSubset("operator " + op)


def compare(op, a, b):
    """-> z3 Bool, Python semantics incl. NaN."""
    if isinstance(a.kind, KNone) or isinstance(b.kind, KNone) or isinstance(a.kind, KOpt) or isinstance(b.kind, KOpt):
        return compare_none(op, a, b)
    if op in ("==", "!=") and ((isinstance(a.kind, KRef) and isinstance(b.kind, KStr) and b.py == "") or
                               (isinstance(b.kind, KRef) and isinstance(a.kind, KStr) and a.py == "")):
        return FALSE if op == "==" else TRUE
    if op in ("==", "!=") and ((isinstance(a.kind, KStr) and (is_num(b) or isinstance(b.kind, KList))) or
                               (isinstance(b.kind, KStr) and (is_num(a) or isinstance(a.kind, KList)))):
        return FALSE if op == "==" else TRUE        # a str never equals a number or a list
    if is_num(a) and is_num(b):
        if is_intlike(a) and is_intlike(b):
            if isinstance(a.kind, KBool) and isinstance(b.kind, KBool) and op in ("==", "!="):
                e = a.terms[0] == b.terms[0]
                return e if op == "==" else not_(e)
            x, y = to_int(a), to_int(b)
            nan = FALSE
        else:
            na, x = to_float(a)
            nb, y = to_float(b)
            nan = or_(na, nb)
        r = {"<": x < y, "<=": x <= y, ">": x > y, ">=": x >= y, "==": x == y, "!=": x != y}[op]
        if op == "!=":
            return or_(nan, r)
        return and_(not_(nan), r)
    if isinstance(a.kind, KStr) and isinstance(b.kind, KStr) or \
            isinstance(a.kind, KAny) and isinstance(b.kind, KAny) or \
            isinstance(a.kind, KRef) and isinstance(b.kind, KRef):
        if op in ("==", "is"):
            return a.terms[0] == b.terms[0]
        if op in ("!=", "is not"):
            return a.terms[0] != b.terms[0]
    if (isinstance(a.kind, KComplex) or isinstance(b.kind, KComplex)) and op in ("==", "!="):
        def cx(v):
            if isinstance(v.kind, KComplex):
                return v.terms[0], v.terms[1]
            nan, x = to_float(v)
            return x, z3.RealVal(0)
        (ar, ai), (br, bi) = cx(a), cx(b)
        e = and_(ar == br, ai == bi)
        return e if op == "==" else not_(e)
    if isinstance(a.kind, KTuple) and isinstance(b.kind, KTuple) and op in ("==", "!="):
        ia, ib = tuple_items(a), tuple_items(b)
        if len(ia) != len(ib):
            return FALSE if op == "==" else TRUE
        e = and_(*[compare("==", x, y) for x, y in zip(ia, ib)])
        return e if op == "==" else not_(e)
    if op in ("==", "!=") and type(a.kind) is not type(b.kind):
        # values of unrelated types are never equal in Python (str vs number, ...)
        return FALSE if op == "==" else TRUE
    raise OutOfSubset("comparison %s on %r, %r" % (op, a.kind, b.kind))


def compare_none(op, a, b):
    # modelling convention: the empty string used as a "no object" marker (Node.antecedent == "") is None
    if isinstance(a.kind, KStr) and a.py == "":
        a = vnone()
    if isinstance(b.kind, KStr) and b.py == "":
        b = vnone()

    def isnone(v):
        if isinstance(v.kind, KNone):
            return TRUE
        if isinstance(v.kind, KOpt):
            return v.terms[0]
        return FALSE
    if op in ("is", "==", "is not", "!="):
        if isinstance(a.kind, KNone) or isinstance(b.kind, KNone):
            e = and_(isnone(a), isnone(b))
        else:
            # opt vs value / opt vs opt
            ia, ib = isnone(a), isnone(b)
            va = opt_get(a) if isinstance(a.kind, KOpt) else a
            vb = opt_get(b) if isinstance(b.kind, KOpt) else b
            e = or_(and_(ia, ib), and_(not_(ia), not_(ib), compare("==", va, vb)))
        return e if op in ("is", "==") else not_(e)
    raise OutOfSubset("ordering comparison with None")


# ---------------------------------------------------------------- lists
def list_len(l):
    return l.terms[0]


def list_get(l, i):
    return Val(l.kind.elem, [z3.Select(a, i) for a in l.terms[1:]])


def list_set(l, i, v):
    v, sc = coerce(v, l.kind.elem)
    return Val(l.kind, [l.terms[0]] + [z3.Store(a, i, t) for a, t in zip(l.terms[1:], v.terms)]), sc


def list_empty(elem):
    return Val(KList(elem), [z3.IntVal(0)] + list(default(KList(elem)).terms[1:]))


def list_append(l, v):
    v, sc = coerce(v, l.kind.elem)
    n = l.terms[0]
    return Val(l.kind, [n + 1] + [z3.Store(a, n, t) for a, t in zip(l.terms[1:], v.terms)]), sc


def list_literal(vals, elem=None):
    if elem is None:
        if not vals:
            raise OutOfSubset("empty list literal needs a declared kind")
        elem = vals[0].kind
        for v in vals[1:]:
            elem = join_kinds(elem, v.kind)
    l = list_empty(elem)
    for v in vals:
        l, _ = list_append(l, v)
    return Val(l.kind, [z3.IntVal(len(vals))] + list(l.terms[1:]))


def list_repeat(l, n):
    """[c] * n (only single-element lists are supported)."""
    if not (z3.is_int_value(l.terms[0]) and l.terms[0].as_long() == 1):
        raise OutOfSubset("list * n only for one-element lists")
    e = list_get(l, z3.IntVal(0))
    arrs = [z3.K(z3.IntSort(), z3.simplify(t)) for t in e.terms]
    return Val(l.kind, [if_(n > 0, n, z3.IntVal(0))] + arrs)


_concat_memo = {}


def list_concat(a, b):
    k = KList(join_kinds(a.kind.elem, b.kind.elem))
    a, _ = coerce(a, k)
    b, _ = coerce(b, k)
    key = (k, tuple(t.get_id() for t in a.terms), tuple(t.get_id() for t in b.terms))
    if key in _concat_memo:
        return _concat_memo[key][0]       # the same operands give the very same term (lemma instances must match)
    r = _list_concat(a, b, k)
    _concat_memo[key] = (r, a, b)
    return r


def _list_concat(a, b, k):
    i = z3.Int(uid("cc"))
    na = a.terms[0]
    arrs = [z3.Lambda([i], z3.If(i < na, z3.Select(x, i), z3.Select(y, i - na))) for x, y in zip(a.terms[1:], b.terms[1:])]
    return Val(k, [na + b.terms[0]] + arrs)


def list_slice(l, lo, hi, step=None):
    """l[lo:hi] with already-normalised bounds 0 <= lo, hi <= len (caller clamps)."""
    i = z3.Int(uid("sl"))
    if step is None:
        n = if_(hi > lo, hi - lo, z3.IntVal(0))
        arrs = [z3.Lambda([i], z3.Select(a, i + lo)) for a in l.terms[1:]]
        return Val(l.kind, [n] + arrs)
    raise OutOfSubset("slice step")


def list_delete(l, k):
    i = z3.Int(uid("dl"))
    arrs = [z3.Lambda([i], z3.If(i < k, z3.Select(a, i), z3.Select(a, i + 1))) for a in l.terms[1:]]
    return Val(l.kind, [l.terms[0] - 1] + arrs)


def list_reverse(l):
    i = z3.Int(uid("rv"))
    n = l.terms[0]
    arrs = [z3.Lambda([i], z3.Select(a, n - 1 - i)) for a in l.terms[1:]]
    return Val(l.kind, [n] + arrs)


def list_stride(l, k):
    """l[::k], k > 0."""
    i = z3.Int(uid("st"))
    n = l.terms[0]
    arrs = [z3.Lambda([i], z3.Select(a, i * k)) for a in l.terms[1:]]
    return Val(l.kind, [if_(n > 0, (n - 1) / k + 1, z3.IntVal(0))] + arrs)


# ---------------------------------------------------------------- 2-D arrays
def arr2_new(elem, n0, n1, fill):
    fill, _ = coerce(fill, elem)
    arrs = [z3.K(z3.IntSort(), z3.K(z3.IntSort(), t)) for t in fill.terms]
    # z3 multi-dim arrays: use nested arrays Int -> (Int -> s) for simplicity
    return Val(KArr2(elem), [n0, n1] + arrs)


# representation note: flat(KArr2) declares ArraySort(I, I, s); we use that 2-index form.
def arr2_const(elem, n0, n1, fill):
    fill, _ = coerce(fill, elem)
    i, j = z3.Int(uid("ai")), z3.Int(uid("aj"))
    arrs = [z3.Lambda([i, j], t) for t in fill.terms]
    return Val(KArr2(elem), [n0, n1] + arrs)


def arr2_get(a, i, j):
    return Val(a.kind.elem, [z3.Select(t, i, j) for t in a.terms[2:]])


def arr2_set(a, i, j, v):
    v, sc = coerce(v, a.kind.elem)
    return Val(a.kind, list(a.terms[:2]) + [z3.Store(t, i, j, x) for t, x in zip(a.terms[2:], v.terms)]), sc
