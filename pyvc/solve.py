"""Discharge obligations (SMT-LIB text of the negated VC) with a solver portfolio, in parallel.

verdicts: 'unsat' = discharged, 'sat' = counter-model found (model returned), 'unknown' =
undecided (never a violation).  A 'sat' from z3 on a quantified problem is re-examined: z3 may
return sat only when it has a model for the quantified axioms too (MBQI); 'unknown' otherwise."""
import os
import subprocess
import tempfile
import time
import multiprocessing as mp


def _linearize(assertions, ctx):
    """Sound abstraction: every product of two non-numeral terms, every division by a non-numeral and
    every power becomes an application of an uninterpreted function.  Real multiplication is one
    interpretation of those functions, so `unsat` of the abstraction implies `unsat` of the original;
    `sat` of the abstraction means nothing.  Obligations that only need linear reasoning are thereby
    kept away from the non-linear engine."""
    import z3
    R, I = z3.RealSort(ctx), z3.IntSort(ctx)
    fr = z3.Function("nlmul_r", R, R, R)
    fi = z3.Function("nlmul_i", I, I, I)
    fd = z3.Function("nldiv_r", R, R, R)
    cache = {}
    pairs = []

    def numeral(e):
        return z3.is_rational_value(e) or z3.is_int_value(e)

    def walk(e):
        k = e.get_id()
        if k in cache:
            return cache[k]
        if z3.is_quantifier(e) or not z3.is_app(e) or e.num_args() == 0:
            cache[k] = e
            return e
        args = [walk(c) for c in e.children()]
        dk = e.decl().kind()
        r = None
        if dk == z3.Z3_OP_MUL:
            nums = [a for a in args if numeral(a)]
            rest = sorted([a for a in args if not numeral(a)], key=lambda a: a.get_id())
            if len(rest) >= 2:
                f = fr if rest[0].sort() == R else fi
                acc = rest[0]
                for a in rest[1:]:
                    pairs.append((f, acc, a))
                    acc = f(acc, a)
                for n in nums:
                    acc = n * acc
                r = acc
        elif dk == z3.Z3_OP_DIV and not numeral(args[1]):
            r = fd(args[0], args[1])
        elif dk == z3.Z3_OP_POWER:
            r = z3.Function("nlpow_r", R, R, R)(args[0], args[1]) if args[0].sort() == R else None
        if r is None:
            try:
                r = e.decl()(*args)
            except Exception:
                r = e
        cache[k] = r
        return r
    out = [walk(a) for a in assertions]
    # multiplication is commutative: the abstraction says so for every product it introduced (the operand order chosen
    # above is by term id, which is not stable under the equalities the hypotheses state)
    seen = set()
    for f, a, b in pairs:
        k = (a.get_id(), b.get_id())
        if k not in seen:
            seen.add(k)
            out.append(f(a, b) == f(b, a))
    return out


def _purify(assertions, ctx):
    """Replace every array read select(a, i) by a fresh constant (congruence between different reads is dropped:
    sound for `unsat`).  Returns None if quantifiers or uninterpreted functions remain (not pure arithmetic)."""
    import z3
    cache, fresh = {}, {}
    ok = [True]

    def walk(e):
        k = e.get_id()
        if k in cache:
            return cache[k]
        if z3.is_quantifier(e):
            ok[0] = False
            return e
        if not z3.is_app(e) or e.num_args() == 0:
            if z3.is_app(e) and z3.is_array(e):
                ok[0] = False
            cache[k] = e
            return e
        dk = e.decl().kind()
        if dk == z3.Z3_OP_SELECT:
            key = e.sexpr()
            if key not in fresh:
                fresh[key] = z3.Const("sel!%d" % len(fresh), e.sort())
            r = fresh[key]
        elif dk == z3.Z3_OP_UNINTERPRETED and not z3.is_array(e):
            # application of an uninterpreted function (sin, cos, a spec function): a fresh constant per distinct
            # application (congruence dropped: sound for `unsat`)
            key = e.sexpr()
            if key not in fresh:
                fresh[key] = z3.Const("app!%d" % len(fresh), e.sort())
            r = fresh[key]
        else:
            if dk == z3.Z3_OP_UNINTERPRETED or dk in (z3.Z3_OP_STORE, z3.Z3_OP_CONST_ARRAY):
                ok[0] = False
            args = [walk(c) for c in e.children()]
            try:
                r = e.decl()(*args)
            except Exception:
                r = e
        cache[k] = r
        return r
    out = []
    for a in assertions:
        ok[0] = True
        w = walk(a)
        if ok[0]:
            out.append(w)
        # an assertion that is not pure arithmetic after purification (quantified, array-valued) is left out: fewer
        # hypotheses can only make `unsat` harder, never wrong
    _purify.last_selects = {str(v): k for k, v in fresh.items()}
    return out or None


_purify.last_selects = {}


def _solve_one(task):
    """Portfolio over (stage x hypothesis set): cheap stages first, each on the relevance-filtered hypotheses
    (when they differ from the full set) and then on all hypotheses.  `sat` is only believed from the full set."""
    name, smt2, timeout_s, want_model, smt2_rel, smt2_cone = task[:6]
    prefer = task[6] if len(task) > 6 else None
    import z3
    t0 = time.time()
    out = dict(name=name, verdict="unknown", backend=None, time=0.0, model=None, detail="")
    stages = [("z3-linearized", {"linearize": True}, min(timeout_s, 6.0)),
              ("z3-nlsat", {"nlsat": True}, min(timeout_s, 5.0)),
              ("z3", {}, min(timeout_s, 4.0)), ("z3-arith2", {"smt.arith.solver": 2}, min(timeout_s, 6.0))]
    if timeout_s > 4.0:
        stages.append(("z3", {}, timeout_s))
    extras = task[7] if len(task) > 7 and task[7] else []
    texts = list(extras) + ([("+cone", smt2_cone)] if smt2_cone else []) + ([("+relevant-hyps", smt2_rel)] if smt2_rel else []) + [("", smt2)]
    done = False
    # z3 5.1 command-line front end first: on the quantified VCs it is often far quicker than the API solver object
    # on the very same text (measured: 0.25 s against > 100 s on C12's interval-DP invariant)
    cli = _z3_cli()
    if prefer:
        # the back end (and hypothesis variant) that discharged this obligation on the baseline tree goes first
        pb, pt = prefer
        suffix = next((sf for sf in ("+near1", "+near2", "+cone", "+relevant-hyps") if pb.endswith(sf)), "")
        text = dict(texts).get(suffix)
        budget = min(max(10.0, 4 * pt + 5), max(timeout_s, 10.0) * 2)
        r = None
        if text:
            try:
                if pb.startswith("z3-cli") and cli:
                    r = _run_cli([cli, "-t:%d" % int(budget * 1000)], text, budget + 5)
                elif pb.startswith("cvc5-1.0-linearized"):
                    lt = _linearized_text(z3, text)
                    r = _run_cli(["/usr/bin/cvc5", "--tlimit=%d" % int(budget * 1000)], "(set-logic ALL)\n" + lt, budget + 5) if lt else None
                elif pb.startswith("z3-linearized"):
                    r = _stage(z3, "z3-linearized", {"linearize": True}, budget, text, False, out)
                elif pb.startswith("z3-nlsat"):
                    r = _stage(z3, "z3-nlsat", {"nlsat": True}, budget, text, False, out)
                elif pb.startswith("z3-arith2"):
                    r = _stage(z3, "z3-arith2", {"smt.arith.solver": 2}, budget, text, False, out)
                elif pb.startswith("z3-5"):
                    r = _stage(z3, "z3", {}, budget, text, False, out)
            except Exception:
                r = None
        if r == "unsat":
            out["verdict"], out["backend"] = "unsat", pb
            done = True
    if not done and ("(* " in smt2 or "(/ " in smt2):
        for suffix, text in texts:
            try:
                r = _stage(z3, "z3-linearized", {"linearize": True}, min(timeout_s, 3.0), text, False, out)
            except Exception:
                r = None
            if r == "unsat":
                out["verdict"], out["backend"] = "unsat", "z3-linearized-%s%s" % (z3.get_version_string(), suffix)
                done = True
                break
    if cli and not done:
        # two passes: a short budget on every hypothesis set first (a set that lacks a needed hypothesis must not
        # burn the whole budget before the full set is tried), then the longer one
        for budget in (min(timeout_s, 2.5), min(timeout_s, 10.0)):
            for suffix, text in texts:
                r = _run_cli([cli, "-t:%d" % int(budget * 1000)], text, budget + 5)
                if r == "unsat":
                    out["verdict"], out["backend"] = "unsat", "z3-cli-5.1%s" % suffix
                    done = True
                    break
            if done:
                break
    if not done and os.path.exists("/usr/bin/cvc5"):
        # cvc5 on the linearised abstraction (products as uninterpreted functions: UF + mixed linear integer / real
        # arithmetic, where z3's branch-and-bound occasionally diverges on unbounded integers such as a named floor)
        for suffix, text in texts:
            try:
                lt = _linearized_text(z3, text)
                if lt is None:
                    continue
                r = _run_cli(["/usr/bin/cvc5", "--tlimit=%d" % int(min(timeout_s, 6.0) * 1000)], "(set-logic ALL)\n" + lt, min(timeout_s, 6.0) + 5)
            except Exception:
                r = None
            if r == "unsat":
                out["verdict"], out["backend"] = "unsat", "cvc5-1.0-linearized%s" % suffix
                done = True
                break
    for label, opts0, tmo in ([] if done else stages):
        for suffix, text in texts:
            full = suffix == ""
            try:
                r = _stage(z3, label, dict(opts0), tmo, text, want_model and full, out)
            except Exception as e:
                out["detail"] = "z3 error: %s" % e
                r = None
            if r == "unsat":
                out["verdict"], out["backend"] = "unsat", "%s-%s%s" % (label, z3.get_version_string(), suffix)
                done = True
                break
            if r == "sat" and full:
                out["verdict"], out["backend"] = "sat", "%s-%s" % (label, z3.get_version_string())
                done = True
                break
        if done:
            break
    if out["verdict"] == "unknown":
        for backend, cmd in (("cvc5-1.0", ["/usr/bin/cvc5", "--tlimit=%d" % int(timeout_s * 1000)]),
                             ("z3-4.8.12", ["/usr/bin/z3", "-T:%d" % max(1, int(timeout_s))])):
            if not os.path.exists(cmd[0]):
                continue
            with tempfile.NamedTemporaryFile("w", suffix=".smt2", delete=False) as f:
                f.write("(set-logic ALL)\n" if backend.startswith("cvc5") else "")
                f.write(smt2)
                path = f.name
            try:
                p = subprocess.run(cmd + [path], capture_output=True, text=True, timeout=timeout_s + 5)
                first = (p.stdout.strip().splitlines() or [""])[0]
                if first == "unsat":
                    out["verdict"], out["backend"] = "unsat", backend
                    break
            except Exception:
                pass
            finally:
                os.unlink(path)
    out["time"] = round(time.time() - t0, 3)
    return out


_CLI = []


def _z3_cli():
    if not _CLI:
        import sys
        cand = [os.path.join(os.path.dirname(sys.executable), "z3"), "/usr/local/bin/z3-new", "/opt/veriftools/pyvenv/bin/z3"]
        _CLI.append(next((c for c in cand if os.path.exists(c)), None))
    return _CLI[0]


def _run_cli(cmd, text, limit):
    with tempfile.NamedTemporaryFile("w", suffix=".smt2", delete=False) as f:
        f.write(text)
        path = f.name
    try:
        p = subprocess.run(cmd + [path], capture_output=True, text=True, timeout=limit)
        return (p.stdout.strip().splitlines() or [""])[0]
    except Exception:
        return None
    finally:
        os.unlink(path)


def _linearized_text(z3, smt2):
    """SMT-LIB text of the linearised abstraction of a VC (see _linearize): sound for `unsat` only"""
    ctx = z3.Context()
    s = z3.Solver(ctx=ctx)
    s.from_string(smt2)
    s2 = z3.Solver(ctx=ctx)
    for a in _linearize(s.assertions(), ctx):
        s2.add(a)
    return s2.to_smt2()


def _stage(z3, label, opts, tmo, smt2, want_model, out):
    ctx = z3.Context()
    s = z3.Solver(ctx=ctx)
    s.set("timeout", int(tmo * 1000))
    lin = opts.pop("linearize", False)
    if opts.pop("nlsat", False):
        if "(* " not in smt2 and "(/ " not in smt2:
            return None
        s.from_string(smt2)
        pre = z3.Goal(ctx=ctx)
        for a in s.assertions():
            pre.add(a)
        try:
            simp = z3.Then(z3.Tactic("simplify", ctx), z3.Tactic("propagate-values", ctx), ctx=ctx)(pre)[0]
            base = [simp[i] for i in range(len(simp))]
        except Exception:
            base = list(s.assertions())
        pure = _purify(base, ctx)
        if pure is None:
            return None
        tac = z3.Then(z3.Tactic("simplify", ctx), z3.Tactic("propagate-values", ctx), z3.Tactic("solve-eqs", ctx),
                      z3.Tactic("elim-term-ite", ctx), z3.Tactic("qfnra-nlsat", ctx), ctx=ctx)
        sol = tac.solver()
        sol.set("timeout", int(tmo * 1000))
        for a in pure:
            sol.add(a)
        rr = sol.check()
        if rr == z3.unsat:
            return "unsat"
        if rr == z3.sat and want_model:
            # model of the purified formula: only a *candidate* counter-model (array congruence was dropped);
            # it is believed only if the real code fails on it (checks/run.py replays it)
            try:
                m = sol.model()
                cand = {}
                for d in m.decls():
                    n = d.name()
                    if n.startswith("in_") or n.startswith("sel!"):
                        cand[n] = _val(m, d)
                out["candidate_model"] = dict(values=cand, selects=_purify.last_selects)
            except Exception:
                pass
        return None
    for k, v in opts.items():
        s.set(k, v)
    s.from_string(smt2)
    if lin:
        if "(* " not in smt2 and "(/ " not in smt2:
            return None
        s2 = z3.Solver(ctx=ctx)
        s2.set("timeout", int(tmo * 1000))
        for a in _linearize(s.assertions(), ctx):
            s2.add(a)
        return "unsat" if s2.check() == z3.unsat else None
    r = s.check()
    if r == z3.unsat:
        return "unsat"
    if r == z3.sat:
        if want_model:
            m = s.model()
            vals = {}
            for d in m.decls():
                n = d.name()
                if n.startswith("in_") or n.startswith("H0_") or n in ("alloc0",):
                    try:
                        vals[n] = _val(m, d)
                    except Exception as e:  # pragma: no cover
                        vals[n] = "?" + str(e)
            out["model"] = vals
        return "sat"
    out["detail"] = s.reason_unknown()
    return None


def _val(m, d):
    import z3
    v = m[d]
    if d.arity() > 0:
        return str(v)
    if z3.is_int_value(v):
        return v.as_long()
    if z3.is_rational_value(v):
        return [v.numerator_as_long(), v.denominator_as_long()]
    if z3.is_true(v):
        return True
    if z3.is_false(v):
        return False
    if z3.is_algebraic_value(v):
        a = v.approx(12)
        return [a.numerator_as_long(), a.denominator_as_long()]
    if z3.is_array(v) or isinstance(v, z3.QuantifierRef) or z3.is_as_array(v):
        # sample the first cells
        c = z3.Const(d.name(), d.range())
        out = {}
        try:
            if c.sort().domain() == z3.IntSort(c.ctx):
                for i in range(-1, 12):
                    e = m.eval(z3.Select(c, z3.IntVal(i, c.ctx)), model_completion=True)
                    out[str(i)] = _scalar(e)
                return {"array": out}
        except Exception:
            pass
        return str(v)
    return str(v)


def _scalar(e):
    import z3
    if z3.is_int_value(e):
        return e.as_long()
    if z3.is_rational_value(e):
        return [e.numerator_as_long(), e.denominator_as_long()]
    if z3.is_algebraic_value(e):
        a = e.approx(12)
        return [a.numerator_as_long(), a.denominator_as_long()]
    if z3.is_true(e):
        return True
    if z3.is_false(e):
        return False
    return str(e)


def solve_all(obligations, timeout_s=20, procs=None, want_model=True):
    tasks = [(o["name"], o["smt2"], min(timeout_s, 5) if o.get("kind") == "cover" else min(timeout_s, o.get("kind_timeout", timeout_s)), want_model,
              o.get("smt2_rel"), o.get("smt2_cone"), o.get("prefer"),
              [("+near%d" % d, o["smt2_near%d" % d]) for d in (1, 2) if o.get("smt2_near%d" % d)]) for o in obligations]
    if not tasks:
        return []
    procs = procs or min(16, os.cpu_count() or 4, len(tasks))
    if procs <= 1:
        return [_solve_one(t) for t in tasks]
    ctx = mp.get_context("fork")
    with ctx.Pool(procs) as pool:
        return pool.map(_solve_one, tasks, chunksize=1)
