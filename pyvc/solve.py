"""Discharge obligations (SMT-LIB text of the negated VC) with a solver portfolio, in parallel.

verdicts: 'unsat' = discharged, 'sat' = counter-model found (model returned), 'unknown' =
undecided (never a violation).  A 'sat' from z3 on a quantified problem is re-examined: z3 may
return sat only when it has a model for the quantified axioms too (MBQI); 'unknown' otherwise."""
import os
import subprocess
import tempfile
import time
import multiprocessing as mp


def _solve_one(task):
    name, smt2, timeout_s, want_model = task
    import z3
    t0 = time.time()
    out = dict(name=name, verdict="unknown", backend=None, time=0.0, model=None, detail="")
    stages = [("z3", {}, min(timeout_s, 4.0)), ("z3-arith2", {"smt.arith.solver": 2}, min(timeout_s, 6.0))]
    if timeout_s > 4.0:
        stages.append(("z3", {}, timeout_s))
    for label, opts, tmo in stages:
        try:
            ctx = z3.Context()
            s = z3.Solver(ctx=ctx)
            s.set("timeout", int(tmo * 1000))
            for k, v in opts.items():
                s.set(k, v)
            s.from_string(smt2)
            r = s.check()
            out["backend"] = "%s-%s" % (label, z3.get_version_string())
            if r == z3.unsat:
                out["verdict"] = "unsat"
                break
            elif r == z3.sat:
                out["verdict"] = "sat"
                if want_model:
                    m = s.model()
                    vals = {}
                    for d in m.decls():
                        n = d.name()
                        if n.startswith("in_") or n.startswith("H0_") or n in ("alloc0",):
                            try:
                                vals[n] = _val(m, d)
                            except Exception as e:  # pragma: no cover
                                vals[n] = "?" + str(e)
                    out["model"] = vals
                break
            else:
                out["detail"] = s.reason_unknown()
        except Exception as e:
            out["detail"] = "z3 error: %s" % e
    if out["verdict"] == "unknown":
        for backend, cmd in (("cvc5-1.0", ["/usr/bin/cvc5", "--tlimit=%d" % int(timeout_s * 1000)]),
                             ("z3-4.8.12", ["/usr/bin/z3", "-T:%d" % max(1, int(timeout_s))])):
            if not os.path.exists(cmd[0]):
                continue
            with tempfile.NamedTemporaryFile("w", suffix=".smt2", delete=False) as f:
                f.write("(set-logic ALL)\n" if backend.startswith("cvc5") else "")
                f.write(smt2)
                path = f.name
            try:
                p = subprocess.run(cmd + [path], capture_output=True, text=True, timeout=timeout_s + 5)
                first = (p.stdout.strip().splitlines() or [""])[0]
                if first == "unsat":
                    out["verdict"], out["backend"] = "unsat", backend
                    break
            except Exception:
                pass
            finally:
                os.unlink(path)
    out["time"] = round(time.time() - t0, 3)
    return out


def _val(m, d):
    import z3
    v = m[d]
    if d.arity() > 0:
        return str(v)
    if z3.is_int_value(v):
        return v.as_long()
    if z3.is_rational_value(v):
        return [v.numerator_as_long(), v.denominator_as_long()]
    if z3.is_true(v):
        return True
    if z3.is_false(v):
        return False
    if z3.is_algebraic_value(v):
        a = v.approx(12)
        return [a.numerator_as_long(), a.denominator_as_long()]
    if z3.is_array(v) or isinstance(v, z3.QuantifierRef) or z3.is_as_array(v):
        # sample the first cells
        c = z3.Const(d.name(), d.range())
        out = {}
        try:
            if c.sort().domain_n() == 1 and c.sort().domain() == z3.IntSort(c.ctx):
                for i in range(-1, 12):
                    e = m.eval(z3.Select(c, z3.IntVal(i, c.ctx)), model_completion=True)
                    out[str(i)] = _scalar(e)
                return {"array": out}
        except Exception:
            pass
        return str(v)
    return str(v)


def _scalar(e):
    import z3
    if z3.is_int_value(e):
        return e.as_long()
    if z3.is_rational_value(e):
        return [e.numerator_as_long(), e.denominator_as_long()]
    if z3.is_true(e):
        return True
    if z3.is_false(e):
        return False
    return str(e)


def solve_all(obligations, timeout_s=20, procs=None, want_model=True):
    tasks = [(o["name"], o["smt2"], timeout_s, want_model) for o in obligations]
    if not tasks:
        return []
    procs = procs or min(16, os.cpu_count() or 4, len(tasks))
    if procs <= 1:
        return [_solve_one(t) for t in tasks]
    ctx = mp.get_context("fork")
    with ctx.Pool(procs) as pool:
        return pool.map(_solve_one, tasks, chunksize=1)
