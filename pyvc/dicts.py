"""Dictionaries (value semantics).  Representation (see kinds.KDict):
    dom, vals..., size, olen, order, pos
Well-formedness facts that hold of every dict value by construction of the operations below and that are
therefore assumed of dict values obtained from outside (parameters, heap reads, havoc) -- wf(d):
    0 <= size <= olen,   forall k: dom[k] -> 0 <= pos[k] < olen and order[pos[k]] == k
"""
import z3
from .kinds import *
from .values import *


class D:
    def __init__(self, d):
        nv = len(flat(d.kind.v))
        self.kind = d.kind
        self.dom = d.terms[0]
        self.vals = list(d.terms[1:1 + nv])
        self.size, self.olen, self.order, self.pos = d.terms[1 + nv:5 + nv]

    def val(self):
        return Val(self.kind, [self.dom] + self.vals + [self.size, self.olen, self.order, self.pos])


def wf(d):
    x = D(d)
    k = z3.Const(uid("wk"), x.dom.sort().domain())
    body = implies(z3.Select(x.dom, k), and_(z3.Select(x.pos, k) >= 0, z3.Select(x.pos, k) < x.olen,
                                             z3.Select(x.order, z3.Select(x.pos, k)) == k))
    if _pattern_ok(x.pos):
        q = z3.ForAll([k], body, patterns=[z3.Select(x.pos, k)])
    else:
        q = z3.ForAll([k], body)
    return and_(x.size >= 0, x.size <= x.olen, q)


def _pattern_ok(e, depth=0):
    """terms usable inside an E-matching pattern: no ite / boolean connectives"""
    if depth > 6:
        return False
    if z3.is_app(e):
        if e.decl().kind() in (z3.Z3_OP_ITE, z3.Z3_OP_AND, z3.Z3_OP_OR, z3.Z3_OP_NOT):
            return False
        return all(_pattern_ok(c, depth + 1) for c in e.children())
    return not z3.is_quantifier(e)


def empty(kind):
    ks = flat(kind.k)[0]
    terms = [z3.K(ks, FALSE)]
    for s in flat(kind.v):
        terms.append(z3.K(ks, _dflt(s)))
    terms += [z3.IntVal(0), z3.IntVal(0), z3.K(z3.IntSort(), _dflt(ks)), z3.K(ks, z3.IntVal(0))]
    return Val(kind, terms)


def _dflt(s):
    if s == z3.IntSort():
        return z3.IntVal(0)
    if s == z3.BoolSort():
        return FALSE
    if s == z3.RealSort():
        return z3.RealVal(0)
    return z3.K(s.domain(), _dflt(s.range()))


def contains(d, key):
    k, _ = coerce(key, d.kind.k)
    return z3.Select(d.terms[0], k.terms[0])


def get(d, key):
    x = D(d)
    k, _ = coerce(key, d.kind.k)
    return Val(d.kind.v, [z3.Select(a, k.terms[0]) for a in x.vals])


def set_(d, key, v):
    """-> (new dict, side condition of the value coercion)"""
    x = D(d)
    k, _ = coerce(key, d.kind.k)
    v, sc = coerce(v, d.kind.v)
    kt = k.terms[0]
    present = z3.Select(x.dom, kt)
    x.dom = z3.Store(x.dom, kt, TRUE)
    x.vals = [z3.Store(a, kt, t) for a, t in zip(x.vals, v.terms)]
    x.order = if_(present, x.order, z3.Store(x.order, x.olen, kt))
    x.pos = if_(present, x.pos, z3.Store(x.pos, kt, x.olen))
    x.size = if_(present, x.size, x.size + 1)
    x.olen = if_(present, x.olen, x.olen + 1)
    return x.val(), sc


def delete(d, key):
    x = D(d)
    k, _ = coerce(key, d.kind.k)
    x.dom = z3.Store(x.dom, k.terms[0], FALSE)
    x.size = x.size - 1
    return x.val()


def live(d, i):
    """slot i of the insertion log holds a key that is still in the dict (and this is its current slot)"""
    x = D(d)
    k = z3.Select(x.order, i)
    return and_(z3.Select(x.dom, k), z3.Select(x.pos, k) == i)


def slot_key(d, i):
    x = D(d)
    return Val(d.kind.k, [z3.Select(x.order, i)])
