"""Per-function driver: build the initial symbolic state from the contract, execute the real
function body, emit the post-condition obligations, and package everything for the solvers."""
import z3
from .kinds import *
from .values import *
from .symexec import *
from . import strings, mathlib


class FunctionResult:
    def __init__(self, fi, spec):
        self.fi, self.spec = fi, spec
        self.obligations = []     # list of dict (name, kind, smt2, carry, line)
        self.error = None         # OutOfSubset text
        self.dropped, self.inlined, self.called, self.trusted = [], [], [], []
        self.axioms_used = []
        self.inputs = []


def clause_items(clauses):
    out = []
    for i, c in enumerate(clauses):
        if isinstance(c, tuple):
            out.append((c[0], c[1]))
        else:
            out.append(("#%d" % i, c))
    return out


def verify_function(reg, qual, prop):
    fi = reg.index.funcs.get(qual)
    spec = reg.specs[qual]
    res = FunctionResult(fi, spec)
    if fi is None:
        res.error = "function %s not found in the repository (renamed or removed?)" % qual
        return res
    ctx = Ctx(reg, "%s/%s" % (prop, fi.short))
    ex = Executor(ctx, fi, spec)
    ctx.top_spec, ctx.top_exec = spec, ex
    st = State()
    inputs = []
    argnames = [a.arg for a in fi.node.args.args]
    for n in argnames:
        if n not in spec.params:
            # parameter fixed by its default (e.g. verbose=False) or by spec.fixed
            continue
    for n, ktxt in spec.params.items():
        if n not in argnames:
            res.error = "contract parameter %s is not a parameter of %s any more" % (n, qual)
            return res
        k = parse_kind(ktxt) if isinstance(ktxt, str) else ktxt
        v = named(k, "in_" + n)
        st.vars[n] = v
        inputs.append((n, k))
    # parameters not mentioned in the contract take their default value
    defaults = fi.node.args.defaults
    for n, d in zip(argnames[len(argnames) - len(defaults):], defaults):
        if n not in st.vars:
            st.vars[n] = ex.eval(d, State({}, {}, TRUE))
    for n in argnames:
        if n not in st.vars:
            res.error = "parameter %s of %s has neither a kind in the contract nor a default" % (n, qual)
            return res
    st.vars["$alloc"] = vint(z3.Int("alloc0"))
    # every reference received as input was allocated before the call (A-ALLOC)
    a0 = z3.Int("alloc0")
    for n, k in inputs:
        v = st.vars[n]
        if isinstance(k, KRef):
            ctx.hyps.append(and_(v.terms[0] >= 0, v.terms[0] < a0))
        elif isinstance(k, KOpt) and isinstance(k.elem, KRef):
            ctx.hyps.append(and_(v.terms[1] >= 0, v.terms[1] < a0))
        elif isinstance(k, KList) and isinstance(k.elem, KRef):
            i = z3.Int(uid("ia"))
            ctx.hyps.append(z3.ForAll([i], and_(z3.Select(v.terms[1], i) >= 0, z3.Select(v.terms[1], i) < a0)))
        if isinstance(k, KList):
            ctx.hyps.append(v.terms[0] >= 0)
    try:
        # touch every declared heap field read by the contract lazily: arrays are created on demand
        old = st.copy()
        ex.old_state = old
        for name, r in clause_items(spec.requires):
            ctx.assume(st, ex.eval_spec(r, st))
        old.heap = dict(st.heap)
        body_state = st.copy()
        ex.old_state = old
        # heap arrays created lazily after this point must be shared with `old`
        _share_heap(ex, old, body_state)
        out = ex.exec_block(fi.node.body, body_state)
        final = out.ret
        if out.normal is not None:
            out.normal.vars["$ret"] = vnone()
            final = merge(final, out.normal)
        if final is not None and not z3.is_false(final.pc):
            r = final.vars.get("$ret")
            if r is POISON:
                raise OutOfSubset("%s returns values of incompatible kinds" % qual)
            rk = parse_kind(spec.returns) if isinstance(spec.returns, str) else spec.returns
            r, sc = coerce(r, rk)
            ctx.oblige(final, "post:return-kind", sc, "post", fi.node.lineno)
            ex.result = r
            # vacuity guard: the end of the function must be reachable under the hypotheses
            ctx.obls.append(Obligation("%s/cover:end" % ctx.prefix, len(ctx.hyps), final.pc, FALSE, "cover",
                                       fi.node.lineno))
            for j, hnt in clause_items(spec.hints):
                if isinstance(hnt, str) and hnt.startswith("use "):
                    ctx.assume(final, ex.eval_spec(hnt[4:], final))     # instance of a proved library schema
                    continue
                cl = ex.eval_spec(hnt, final)
                ctx.oblige(final, "hint%s" % j, cl, "hint", fi.node.lineno)
                ctx.assume(final, cl)
            for name, e in clause_items(spec.ensures):
                cl = ex.eval_spec(e, final)
                ctx.oblige(final, "post%s" % (name if name.startswith("#") else ":" + name), cl, "post", fi.node.lineno)
            # frame: what the contract does not list as modified is proved unchanged
            a0 = z3.Int("alloc0")
            for key in sorted(set(final.heap) | set(old.heap)):
                cls, field = key
                if (cls + "." + field) in spec.modifies:
                    continue
                fa = final.heap.get(key)
                if fa is None:
                    continue
                oa = ex.heap_arrays(old, cls, field)
                if all(x.eq(y) for x, y in zip(fa, oa)):
                    continue
                r = z3.Int(uid("fr"))
                same = and_(*[z3.Select(x, r) == z3.Select(y, r) for x, y in zip(fa, oa)])
                if cls in spec.fresh:
                    cl = z3.ForAll([r], implies(r < a0, same))
                else:
                    cl = z3.ForAll([r], same)
                ctx.oblige(final, "frame:%s.%s" % key, cl, "frame", fi.node.lineno)
            for name, e in clause_items(spec.aux):
                cl = ex.eval_spec(e, final)
                ctx.oblige(final, "aux%s" % (name if name.startswith("#") else ":" + name), cl, "aux", fi.node.lineno,
                           carry=False)
    except OutOfSubset as e:
        res.error = str(e)
        return res
    res.dropped = ctx.dropped
    res.inlined = sorted(ctx.inlined)
    res.called = sorted(ctx.called)
    res.trusted = sorted(ctx.trusted_used)
    res.inputs = inputs
    package(reg, ctx, res)
    return res


def _share_heap(ex, old, st):
    """Heap arrays are created on first touch with a fixed name (H0_cls_field_i), so the `old`
    snapshot and the running state agree on the initial heap whichever touches it first."""
    return


def decl_names(expr, cache):
    """Names of all uninterpreted declarations occurring in expr."""
    out = set()
    todo = [expr]
    while todo:
        e = todo.pop()
        i = e.get_id()
        if i in cache:
            continue
        cache.add(i)
        if z3.is_quantifier(e):
            todo.append(e.body())
            continue
        if z3.is_app(e):
            d = e.decl()
            if d.kind() == z3.Z3_OP_UNINTERPRETED:
                out.add(d.name())
            todo.extend(e.children())
    return out


def package(reg, ctx, res):
    """Turn obligations into self-contained SMT-LIB benchmarks (negated VC)."""
    axioms_always = strings.axioms() if strings._intern else []
    math_ax = mathlib.axioms(ctx.math_used)
    for o in ctx.obls:
        hyps = ctx.hyps[:o.hyps]
        goal = z3.Not(o.claim)
        s = z3.Solver()
        body = hyps + [o.pc, goal]
        seen = set()
        names = set()
        for b in body:
            names |= decl_names(b, seen)
        used_ax = []
        # spec-function axioms: include those whose symbol occurs (transitively)
        changed = o.kind != "cover"     # covers: satisfiability of hypotheses + path, axioms left out
        included = set()
        while changed:
            changed = False
            for tag, provider in reg.axioms:
                if tag in included:
                    continue
                if tag in names or tag == "*":
                    included.add(tag)
                    axs = provider()
                    used_ax += axs
                    for a in axs:
                        names |= decl_names(a, seen)
                    changed = True
        if any(n in names for n in ("hashname", "first_is_hash", "str_of_int")) or True:
            strax = [a for a in axioms_always if decl_names(a, set()) & names or True]
        for a in used_ax:
            s.add(a)
        if names & {"hashname", "first_is_hash"}:
            for a in axioms_always:
                s.add(a)
        for a in math_ax:
            if decl_names(a, set()) & names:
                s.add(a)
        for b in body:
            s.add(b)
        res.obligations.append(dict(name=o.name, kind=o.kind, carry=o.carry, line=o.line,
                                    smt2=s.to_smt2(), axioms=sorted(included)))
