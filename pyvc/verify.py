"""Per-function driver: build the initial symbolic state from the contract, execute the real
function body, emit the post-condition obligations, and package everything for the solvers."""
import ast
import z3
from .kinds import *
from .values import *
from .symexec import *
from . import strings, mathlib


class FunctionResult:
    def __init__(self, fi, spec):
        self.fi, self.spec = fi, spec
        self.obligations = []     # list of dict (name, kind, smt2, carry, line)
        self.error = None         # OutOfSubset text
        self.dropped, self.inlined, self.called, self.trusted = [], [], [], []
        self.axioms_used = []
        self.inputs = []


def split_conj(e):
    """A and B -> [A, B];  P -> (A and B) -> [P -> A, P -> B]  (smaller queries, finer diagnostics)."""
    if z3.is_and(e):
        out = []
        for c in e.children():
            out += split_conj(c)
        return out
    if z3.is_implies(e):
        a, b = e.children()
        sub = split_conj(b)
        if len(sub) > 1:
            return [z3.Implies(a, x) for x in sub]
    return [e]


def clause_items(clauses):
    out = []
    for i, c in enumerate(clauses):
        if isinstance(c, tuple):
            out.append((c[0], c[1]))
        else:
            out.append(("#%d" % i, c))
    return out


def verify_function(reg, qual, prop):
    fi = reg.index.funcs.get(qual.split("@")[0])
    spec = reg.specs[qual]
    res = FunctionResult(fi, spec)
    if fi is None:
        res.error = "function %s not found in the repository (renamed or removed?)" % qual
        return res
    ctx = Ctx(reg, "%s/%s%s" % (prop, fi.short, "@" + qual.split("@")[1] if "@" in qual else ""))
    ex = Executor(ctx, fi, spec)
    ctx.top_spec, ctx.top_exec = spec, ex
    st = State()
    inputs = []
    argnames = [a.arg for a in fi.node.args.args]
    for n in argnames:
        if n not in spec.params:
            # parameter fixed by its default (e.g. verbose=False) or by spec.fixed
            continue
    body_stmts = fi.node.body
    if spec.region:
        # a contiguous slice of the function's own top-level statements, located by the text of its first statement
        # and of the statement it stops before; everything outside the slice is NOT verified by this contract
        def first_line(n):
            try:
                return ast.unparse(n).splitlines()[0].strip()
            except Exception:
                return ""
        lines = [first_line(n) for n in fi.node.body]
        try:
            a = lines.index(spec.region[0])
            b = lines.index(spec.region[1], a) if spec.region[1] else len(lines)
        except ValueError:
            res.error = "region %r .. %r not found in %s (statement text changed?)" % (spec.region[0], spec.region[1], qual)
            return res
        body_stmts = fi.node.body[a:b]
        ctx.dropped.append("%s: statements of %s before line %d and from line %s on are outside this contract's region"
                           % (fi.path, fi.short, fi.node.body[a].lineno, fi.node.body[b].lineno if b < len(lines) else "end"))
        argnames = list(spec.params)
    for n, ktxt in spec.params.items():
        if n not in argnames:
            res.error = "contract parameter %s is not a parameter of %s any more" % (n, qual)
            return res
        k = parse_kind(ktxt) if isinstance(ktxt, str) else ktxt
        v = named(k, "in_" + n)
        st.vars[n] = v
        inputs.append((n, k))
    for n, ktxt in spec.ghost.items():
        k = parse_kind(ktxt) if isinstance(ktxt, str) else ktxt
        st.vars[n] = named(k, "in_" + n)
        inputs.append((n, k))
    for n, q in spec.bind.items():
        st.vars[n] = Val(FUNC, [], py=("func", reg.index.funcs[q]))
    for n, fname in spec.abstract.items():
        st.vars[n] = Val(FUNC, [], py=("abstract", fname))
    for n, text in spec.let.items():
        st.vars[n] = ex.eval_spec_term(text, st)
    # parameters not mentioned in the contract take their default value
    defaults = fi.node.args.defaults if not spec.region else []
    for n, d in zip(argnames[len(argnames) - len(defaults):], defaults):
        if n not in st.vars:
            st.vars[n] = ex.eval(d, State({}, {}, TRUE))
    for n in argnames:
        if n not in st.vars:
            res.error = "parameter %s of %s has neither a kind in the contract nor a default" % (n, qual)
            return res
    st.vars["$alloc"] = vint(z3.Int("alloc0"))
    # every reference received as input was allocated before the call (A-ALLOC)
    a0 = z3.Int("alloc0")
    for n, k in inputs:
        v = st.vars[n]
        if isinstance(k, KRef):
            ctx.hyps.append(and_(v.terms[0] >= 0, v.terms[0] < a0))
        elif isinstance(k, KOpt) and isinstance(k.elem, KRef):
            ctx.hyps.append(and_(v.terms[1] >= 0, v.terms[1] < a0))
        elif isinstance(k, KList) and isinstance(k.elem, KRef):
            i = z3.Int(uid("ia"))
            ctx.hyps.append(z3.ForAll([i], and_(z3.Select(v.terms[1], i) >= 0, z3.Select(v.terms[1], i) < a0)))
        for fact in basic_facts(v):
            ctx.hyps.append(fact)
        if isinstance(k, KDict):
            ex.assume_dict_wf(v)
    try:
        # touch every declared heap field read by the contract lazily: arrays are created on demand
        old = st.copy()
        ex.old_state = old
        for name, r in clause_items(spec.requires):
            ctx.assume(st, ex.eval_spec(r, st, assumed=True))
        old.heap = dict(st.heap)
        if spec.cases:
            ctx.case_conds = [(cn, ex.eval_spec(ct, old)) for cn, ct in spec.cases.items()]
        body_state = st.copy()
        ex.old_state = old
        # heap arrays created lazily after this point must be shared with `old`
        _share_heap(ex, old, body_state)
        out = ex.exec_block(body_stmts, body_state)
        final = out.ret
        if out.normal is not None:
            out.normal.vars["$ret"] = vnone()
            final = merge(final, out.normal)
        if final is not None and not z3.is_false(final.pc):
            r = final.vars.get("$ret")
            if r is POISON:
                raise OutOfSubset("%s returns values of incompatible kinds" % qual)
            rk = parse_kind(spec.returns) if isinstance(spec.returns, str) else spec.returns
            r, sc = coerce(r, rk)
            ctx.oblige(final, "post:return-kind", sc, "post", fi.node.lineno)
            ex.result = r
            if spec.denotes:
                ctx.oblige(final, "pure-function", z3.BoolVal(is_pure_float_function(fi.node, spec)), "post", fi.node.lineno)
            # vacuity guard: the end of the function must be reachable under the hypotheses
            ctx.obls.append(Obligation("%s/cover:end" % ctx.prefix, len(ctx.hyps), final.pc, FALSE, "cover",
                                       fi.node.lineno))
            for j, hnt in clause_items(spec.hints):
                if isinstance(hnt, str) and hnt.startswith("use "):
                    ctx.assume(final, ex.eval_spec(hnt[4:], final))     # instance of a proved library schema
                    continue
                cl = ex.eval_spec(hnt, final)
                ctx.oblige(final, "hint%s" % j, cl, "hint", fi.node.lineno)
                ctx.assume(final, cl)
            cases = [(None, TRUE)]
            if spec.cases:
                cases = [(cn, ex.eval_spec(ct, old)) for cn, ct in spec.cases.items()]
                ctx.oblige(final, "post:cases-exhaustive", or_(*[c for _, c in cases]), "post", fi.node.lineno)
            # `raises={E: cond}` is read by callers as "raises E exactly when cond": no normal return under cond
            for exc, rc in sorted(spec.raises.items()):
                ctx.oblige(final, "post:no-normal-return-when-%s-is-specified" % exc, not_(ex.eval_spec(rc, old)), "post", fi.node.lineno)
            for name, e in clause_items(list(spec.ensures) + list(spec.ensures_local)):
                cl = ex.eval_spec(e, final)
                parts = split_conj(cl)
                for pi, part in enumerate(parts):
                    suffix = "" if len(parts) == 1 else ".%d" % pi
                    for cn, cc in cases:
                        ctx.oblige(final, "post%s%s%s" % (name if name.startswith("#") else ":" + name, suffix,
                                                          "[%s]" % cn if cn else ""),
                                   implies(cc, part), "post", fi.node.lineno)
            # frame: what the contract does not list as modified is proved unchanged
            a0 = z3.Int("alloc0")
            for key in sorted(set(final.heap) | set(old.heap)):
                cls, field = key
                if (cls + "." + field) in spec.modifies:
                    continue
                fa = final.heap.get(key)
                if fa is None:
                    continue
                oa = ex.heap_arrays(old, cls, field)
                if all(x.eq(y) for x, y in zip(fa, oa)):
                    continue
                r = z3.Int(uid("fr"))
                same = and_(*[z3.Select(x, r) == z3.Select(y, r) for x, y in zip(fa, oa)])
                if cls in spec.fresh:
                    cl = z3.ForAll([r], implies(r < a0, same))
                else:
                    cl = z3.ForAll([r], same)
                ctx.oblige(final, "frame:%s.%s" % key, cl, "frame", fi.node.lineno)
            for name, e in clause_items(spec.aux):
                cl = ex.eval_spec(e, final)
                ctx.oblige(final, "aux%s" % (name if name.startswith("#") else ":" + name), cl, "aux", fi.node.lineno,
                           carry=False)
    except OutOfSubset as e:
        res.error = str(e)
        return res
    res.ctx = ctx
    res.dropped = ctx.dropped
    res.inlined = sorted(ctx.inlined)
    res.called = sorted(ctx.called)
    res.trusted = sorted(ctx.trusted_used)
    res.inputs = inputs
    package(reg, ctx, res)
    return res


def is_pure_float_function(node, spec):
    """Syntactic purity (for `denotes`): float parameters only, the body reads nothing but its parameters, its own
    locals and numeric literals, and calls nothing but math.* / min / max / abs - so, in the encoding (where math
    functions and division are functions), the result is a function of the arguments."""
    if spec.modifies or spec.fresh or any(k != "float" for k in spec.params.values()):
        return False
    if [a.arg for a in node.args.args] != list(spec.params):
        return False
    bound = set(spec.params)
    for n in ast.walk(node):
        if isinstance(n, ast.Assign):
            for t in n.targets:
                if not isinstance(t, ast.Name):
                    return False
                bound.add(t.id)
        elif isinstance(n, ast.AugAssign):
            if not isinstance(n.target, ast.Name):
                return False
    for n in ast.walk(node):
        if isinstance(n, (ast.Subscript, ast.Global, ast.Nonlocal, ast.Lambda, ast.For, ast.While, ast.Try, ast.With,
                          ast.Yield, ast.Await, ast.Starred, ast.ListComp, ast.GeneratorExp)):
            return False
        if isinstance(n, ast.Attribute):
            if not (isinstance(n.value, ast.Name) and n.value.id == "math"):
                return False
        elif isinstance(n, ast.Call):
            f = n.func
            ok = (isinstance(f, ast.Name) and f.id in ("min", "max", "abs")) or \
                 (isinstance(f, ast.Attribute) and isinstance(f.value, ast.Name) and f.value.id == "math")
            if not ok:
                return False
        elif isinstance(n, ast.Name) and isinstance(n.ctx, ast.Load):
            if n.id not in bound and n.id not in ("min", "max", "abs", "math", "float"):
                return False
    return True


def _share_heap(ex, old, st):
    """Heap arrays are created on first touch with a fixed name (H0_cls_field_i), so the `old`
    snapshot and the running state agree on the initial heap whichever touches it first."""
    return


def decl_names(expr, cache):
    """Names of all uninterpreted declarations occurring in expr."""
    out = set()
    todo = [expr]
    while todo:
        e = todo.pop()
        i = e.get_id()
        if i in cache:
            continue
        cache.add(i)
        if z3.is_quantifier(e):
            todo.append(e.body())
            continue
        if z3.is_app(e):
            d = e.decl()
            if d.kind() == z3.Z3_OP_UNINTERPRETED:
                out.add(d.name())
            todo.extend(e.children())
    return out


_NAMES = {}
_ASYMS = {}


def names_of(expr):
    """decl_names of one expression, memoised (the same hypotheses are packaged into many obligations and variants)"""
    k = expr.get_id()
    hit = _NAMES.get(k)
    if hit is None:
        hit = (frozenset(decl_names(expr, set())), expr)      # the expression is kept alive so that its id is not reused
        _NAMES[k] = hit
    return hit[0]


def array_syms(expr, cache):
    """names of uninterpreted symbols that denote containers / heaps / functions (array sort or arity > 0)"""
    out = set()
    todo = [expr]
    while todo:
        e = todo.pop()
        i = e.get_id()
        if i in cache:
            continue
        cache.add(i)
        if z3.is_quantifier(e):
            todo.append(e.body())
            continue
        if z3.is_app(e):
            d = e.decl()
            if d.kind() == z3.Z3_OP_UNINTERPRETED and (d.arity() > 0 or d.range().kind() == z3.Z3_ARRAY_SORT):
                out.add(d.name())
            todo.extend(e.children())
    return out


def ground_sqrt(body):
    """Replace every ground application sqrt(t) by a fresh real s with  t >= 0 -> (s >= 0 and s*s == t):
    an instance of the trusted sqrt contract, which keeps the obligation quantifier-free."""
    apps = {}
    bound = [False]

    def collect(e, seen):
        todo = [e]
        while todo:
            x = todo.pop()
            i = x.get_id()
            if i in seen:
                continue
            seen.add(i)
            if z3.is_quantifier(x):
                if "sqrt" in x.body().sexpr():
                    bound[0] = True
                continue
            if z3.is_app(x):
                if x.decl().kind() == z3.Z3_OP_UNINTERPRETED and x.decl().name() == "sqrt":
                    apps[i] = x
                todo.extend(x.children())
    seen = set()
    for b in body:
        if "sqrt" in names_of(b):
            collect(b, seen)
    if not apps:
        return body, [], bound[0]
    # innermost first so that nested sqrt terms are replaced consistently
    order = sorted(apps.values(), key=lambda a: len(a.sexpr()))
    subs, defs, seen_args = [], [], []
    for a in order:
        arg = z3.substitute(a.arg(0), *subs) if subs else a.arg(0)
        sv = z3.Real(uid("sqrtv"))
        defs.append(z3.Implies(arg >= 0, z3.And(sv >= 0, sv * sv == arg)))
        # sqrt is a function: equal arguments give equal values (congruence, lost by the replacement otherwise)
        if len(seen_args) < 12:
            for arg2, sv2 in seen_args:
                defs.append(z3.Implies(arg == arg2, sv == sv2))
        seen_args.append((arg, sv))
        subs.append((a, sv))
    body = [z3.substitute(b, *subs) for b in body]
    return body, defs, bound[0]


def package(reg, ctx, res):
    """Turn obligations into self-contained SMT-LIB benchmarks (negated VC).

    Two texts per obligation: `smt2` holds every hypothesis; `smt2_rel` leaves out the *definitional*
    hypotheses (named quotients/floors/square roots, results of contracted calls) whose defined symbol is not
    reachable from the goal.  Dropping hypotheses is sound for `unsat`; the full text decides `sat`."""
    axioms_always = strings.axioms() if strings._intern else []
    math_ax = mathlib.axioms(ctx.math_used)
    sym_cache = {}

    def syms(e):
        k = e.get_id()
        if k not in sym_cache:
            sym_cache[k] = (decl_names(e, set()), e)
        return sym_cache[k][0]

    incompat = {}

    def incompatible(pc_o, pc_h):
        """the hypothesis is guarded by a path condition that cannot hold together with the obligation's:
        the hypothesis is vacuous there (e.g. facts of a loop body seen from after the loop)"""
        key = (pc_o.get_id(), pc_h.get_id())
        if key not in incompat:
            sv = z3.Solver()
            sv.set("timeout", 200)
            sv.add(pc_o, pc_h)
            incompat[key] = (sv.check() == z3.unsat, pc_o, pc_h)
        return incompat[key][0]

    for o in ctx.obls:
        goal = z3.Not(o.claim)
        hyps = ctx.hyps[:o.hyps]
        # relevance filter
        cone = set(syms(goal)) | set(syms(o.pc))
        always, pending = [], []
        pruned = False
        for i, h in enumerate(hyps):
            g = ctx.hyp_pc.get(i)
            if g is not None and o.kind != "cover" and not z3.is_true(o.pc) and incompatible(o.pc, g):
                pruned = True
                continue
            d = ctx.hyp_defs.get(i)
            if d is None:
                always.append(h)
                cone |= syms(h)
            else:
                pending.append((d, h))
        chosen = []
        changed = True
        while changed and pending:
            changed = False
            rest = []
            for d, h in pending:
                if d & cone:
                    chosen.append(h)
                    cone |= syms(h)
                    changed = True
                else:
                    rest.append((d, h))
            pending = rest
        variants = [("smt2", hyps)]
        if pending or pruned:
            variants.append(("smt2_rel", always + chosen))
        # cone of influence over non-input symbols: a hypothesis that shares no symbol other than the function's
        # inputs with (goal, path condition, hypotheses already in the cone) speaks about other program points
        # (older versions of variables havoced again since) and is left out of this variant
        if o.kind != "cover":
            base = always + chosen
            asym_cache = _ASYMS

            def asyms(e):
                k = e.get_id()
                if k not in asym_cache:
                    asym_cache[k] = (array_syms(e, set()), e)
                return asym_cache[k][0]
            noninput = lambda ss: {x for x in ss if not x.startswith("in_") and not x.startswith("H0_")}
            cone2 = noninput(asyms(goal)) | noninput(asyms(o.pc))
            keep, rest2 = [], list(base)
            changed2 = True
            while changed2:
                changed2 = False
                nxt = []
                for h in rest2:
                    sh = noninput(asyms(h))
                    if not sh or (sh & cone2):
                        keep.append(h)
                        if sh - cone2:
                            cone2 |= sh
                            changed2 = True
                    else:
                        nxt.append(h)
                rest2 = nxt
            if rest2:
                order = {h.get_id(): i for i, h in enumerate(base)}
                keep.sort(key=lambda h: order[h.get_id()])
                variants.append(("smt2_cone", keep))
            # depth-limited versions of the same cone (hypotheses one / two sharing steps away from the goal): on long
            # functions the transitive cone is nearly everything, and most proofs need only the facts next to the goal
            base_n = keep if rest2 else base
            g = noninput(asyms(goal)) | noninput(asyms(o.pc))
            prev = None
            for depth in (1, 2):
                sel = [h for h in base_n if not noninput(asyms(h)) or (noninput(asyms(h)) & g)]
                if len(sel) < len(base_n) and (prev is None or len(sel) > prev):
                    variants.append(("smt2_near%d" % depth, sel))
                prev = len(sel)
                for h in sel:
                    g = g | noninput(asyms(h))
        rec = dict(name=o.name, kind=o.kind, carry=o.carry, line=o.line)
        for key, hs in variants:
            s = z3.Solver()
            body = hs + [o.pc, goal]
            seen = set()
            names = set()
            for b in body:
                names |= names_of(b)
            used_ax = []
            changed = o.kind != "cover"     # covers: satisfiability of hypotheses + path, axioms left out
            included = set()
            while changed:
                changed = False
                for tag, provider in reg.axioms:
                    if tag in included:
                        continue
                    if tag in names or tag == "*":
                        included.add(tag)
                        axs = provider()
                        used_ax += axs
                        for a in axs:
                            names |= names_of(a)
                        changed = True
            for a in used_ax:
                s.add(a)
            if names & {"hashname", "first_is_hash", "str_first_char"}:
                for a in axioms_always:
                    s.add(a)
            body, sq_defs, has_bound_sqrt = ground_sqrt(body)
            for a in math_ax:
                dn = decl_names(a, set())
                if "sqrt" in dn and not has_bound_sqrt:
                    continue
                if o.kind == "cover":
                    continue
                if dn & names:
                    s.add(a)
            for d in sq_defs:
                s.add(d)
            for b in body:
                s.add(b)
            rec[key] = s.to_smt2()
            rec["axioms"] = sorted(included)
        res.obligations.append(rec)
