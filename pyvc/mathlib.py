"""Trusted contracts of math-library functions as uninterpreted symbols + axioms (DESIGN §7)."""
import z3

R = z3.RealSort()
SQRT = z3.Function("sqrt", R, R)
SIN = z3.Function("m_sin", R, R)
COS = z3.Function("m_cos", R, R)
EXP = z3.Function("exp", R, R)
LOG = z3.Function("log", R, R)
ATAN2 = z3.Function("atan2", R, R, R)
POW = z3.Function("pow", R, R, R)
BIG = z3.Real("BIG")          # 1e300 / 1e400 / float max: "larger than every datum"


def axioms(used):
    """Only the axioms whose symbol occurs are added (keeps queries small)."""
    x, y = z3.Reals("x!m y!m")
    ax = []
    if "sqrt" in used:
        ax.append(z3.ForAll([x], z3.Implies(x >= 0, z3.And(SQRT(x) >= 0, SQRT(x) * SQRT(x) == x)),
                            patterns=[SQRT(x)]))
    if "sincos" in used:
        ax.append(z3.ForAll([x], SIN(x) * SIN(x) + COS(x) * COS(x) == 1, patterns=[SIN(x)]))
    if "exp" in used:
        ax.append(z3.ForAll([x], EXP(x) > 0, patterns=[EXP(x)]))
    if "big" in used:
        ax.append(BIG > 0)
    return ax
