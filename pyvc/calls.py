"""Call dispatch: built-ins, trusted library functions, list/dict methods, repository functions."""
import ast
import z3
from .kinds import *
from .values import *
from . import strings, mathlib


def do_call(ex, node, st):
    f = node.func
    here = getattr(ex, "pol_here", 0)
    # --- spec-only forms -------------------------------------------------------
    if isinstance(f, ast.Name):
        name = f.id
        if name in ("all", "any") and len(node.args) == 1 and isinstance(node.args[0], ast.GeneratorExp):
            return vbool(ex.quantify(node.args[0], st, name == "all"))
        if name == "old":
            if ex.old_state is None:
                raise OutOfSubset("old() outside a contract")
            saved = ex.bound
            return ex.eval(node.args[0], ex.old_state)
        if name == "implies":
            cur = getattr(ex, "pol", 0)
            ex.pol = -cur
            try:
                a = truth(ex.eval(node.args[0], st))
            finally:
                ex.pol = cur
            b = truth(ex.eval(node.args[1], st))
            return vbool(implies(a, b))
        if name == "iff":
            a = truth(ex.eval(node.args[0], st))
            b = truth(ex.eval(node.args[1], st))
            return vbool(a == b)
        if name in ex.ctx.reg.specfuncs and (ex.spec_mode or name in ex.ctx.reg.ghost_ok):
            args = [ex.eval(a, st) for a in node.args]
            ex.call_pol = here
            return ex.ctx.reg.specfuncs[name](ex, st, *args)
    # --- method calls ------------------------------------------------------------
    if isinstance(f, ast.Attribute):
        # static / class-qualified calls and module functions
        if isinstance(f.value, ast.Name) and f.value.id not in st.vars and f.value.id not in ex.bound:
            base = f.value.id
            idx = ex.ctx.reg.index
            if base in idx.classes:
                from .extract import mangle
                fi = ex.find_method(base, mangle(f.attr, ex.fi.cls if base == ex.fi.cls else base))
                if fi is None:
                    raise OutOfSubset("unknown %s.%s" % (base, f.attr))
                args, kwargs = eval_args(ex, node, st)
                return ex.call_function(fi, args, kwargs, st, node)
            if base in ("math", "np", "numpy", "sys", "copy", "progressbar", "plt", "random"):
                return call_builtin(ex, base + "." + f.attr, node, st)
        recv = ex.eval(f.value, st)
        if isinstance(recv.kind, KFunc) and recv.py and recv.py[0] in ("module",):
            return call_builtin(ex, recv.py[1] + "." + f.attr, node, st)
        if isinstance(recv.kind, KFunc) and recv.py and recv.py[0] == "builtin":
            return call_builtin(ex, recv.py[1] + "." + f.attr, node, st)
        if isinstance(recv.kind, KFunc) and recv.py and recv.py[0] == "class":
            from .extract import mangle
            fi = ex.find_method(recv.py[1], mangle(f.attr, recv.py[1]))
            args, kwargs = eval_args(ex, node, st)
            return ex.call_function(fi, args, kwargs, st, node)
        if isinstance(recv.kind, KOpt):
            ex.check(st, "AttributeError-None", not_(recv.terms[0]), node)
            recv = opt_get(recv)
        if isinstance(recv.kind, KList):
            return list_method(ex, recv, f, node, st)
        if isinstance(recv.kind, KDict):
            return dict_method(ex, recv, f, node, st)
        if isinstance(recv.kind, KSet):
            args, _ = eval_args(ex, node, st)
            if f.attr == "add":
                ns, sc = set_add(recv, args[0])
                ex.check(st, "store-kind", sc, node)
                ex.assign(f.value, ns, st, node)
                return vnone()
            if f.attr == "update" and isinstance(args[0].kind, KList) and len(flat(recv.kind.elem)) == 1:
                # s.update(list): s | {l[q] : q < len(l)}
                l = args[0]
                xv = z3.Const(uid("su"), flat(recv.kind.elem)[0])
                q = z3.Int(uid("sq"))
                e, _ = coerce(list_get(l, q), recv.kind.elem)
                mem = z3.Exists([q], and_(q >= 0, q < list_len(l), e.terms[0] == xv))
                ns = Val(recv.kind, [z3.Lambda([xv], z3.Or(z3.Select(recv.terms[0], xv), mem))])
                ex.assign(f.value, ns, st, node)
                return vnone()
            raise OutOfSubset("set method " + f.attr)
        if isinstance(recv.kind, (KFloat, KReal)) and f.attr == "is_integer":
            nan, x = to_float(recv)
            return vbool(and_(not_(nan), z3.ToReal(floor_of(ex, x)) == x))
        if isinstance(recv.kind, KRef):
            from .extract import mangle
            fi = ex.find_method(recv.kind.cls, mangle(f.attr, ex.fi.cls))
            if fi is None and "%s.%s" % (recv.kind.cls, f.attr) in ex.ctx.reg.abstract_fields:
                # a function-valued field (HMM.Q, HMM.P): an abstract function of its scalar arguments; arguments that
                # are objects (the track) are assumed not to influence it beyond their identity
                args, _ = eval_args(ex, node, st)
                zargs = []
                for a in args:
                    if isinstance(a.kind, (KFloat, KReal)):
                        zargs.append(to_float(a)[1])
                    elif a.terms:
                        zargs.append(a.terms[0] if not isinstance(a.kind, KBool) else to_int(a))
                fn = z3.Function(ex.ctx.reg.abstract_fields["%s.%s" % (recv.kind.cls, f.attr)],
                                 *([x.sort() for x in zargs] + [z3.RealSort()]))
                return vfloat(fn(*zargs))
            if fi is None:
                raise OutOfSubset("no method %s.%s" % (recv.kind.cls, f.attr))
            args, kwargs = eval_args(ex, node, st)
            return ex.call_function(fi, [recv] + args, kwargs, st, node)
        raise OutOfSubset("%s: method call .%s on %r (line %s)" % (ex.fi.qual, f.attr, recv.kind, node.lineno))
    # --- plain names ---------------------------------------------------------------
    if isinstance(f, ast.Name):
        name = f.id
        if name in st.vars and st.vars[name] is not None:
            fv = st.vars[name]
            if isinstance(fv.kind, KFunc):
                return call_value(ex, fv, node, st)
        idx = ex.ctx.reg.index
        if name in idx.classes:
            return construct(ex, name, node, st)
        fi = ex.resolve_function(name)
        if fi is not None:
            args, kwargs = eval_args(ex, node, st)
            return ex.call_function(fi, args, kwargs, st, node)
        return call_builtin(ex, name, node, st)
    if isinstance(f, ast.Call) or isinstance(f, ast.Subscript):
        fv = ex.eval(f, st)
        if isinstance(fv.kind, KFunc):
            return call_value(ex, fv, node, st)
    # (int)(x) style casts
    raise OutOfSubset("%s: call form at line %s" % (ex.fi.qual, node.lineno))


def eval_args(ex, node, st):
    args = []
    for a in node.args:
        if isinstance(a, ast.Starred):
            raise OutOfSubset("*args")
        args.append(ex.eval(a, st))
    kwargs = {}
    for kw in node.keywords:
        if kw.arg is None:
            raise OutOfSubset("**kwargs")
        kwargs[kw.arg] = ex.eval(kw.value, st)
    return args, kwargs


def call_value(ex, fv, node, st):
    kind = fv.py[0]
    if kind == "func":
        args, kwargs = eval_args(ex, node, st)
        return ex.call_function(fv.py[1], args, kwargs, st, node)
    if kind == "builtin":
        return call_builtin(ex, fv.py[1], node, st)
    if kind == "class":
        return construct(ex, fv.py[1], node, st)
    if kind == "abstract":
        # a function-valued input known only through the axioms registered for the named uninterpreted function
        args, _ = eval_args(ex, node, st)
        reals = [to_float(a) for a in args]
        f = z3.Function(fv.py[1], *([z3.RealSort()] * (len(reals) + 1)))
        return vfloat(f(*[r for _, r in reals]), or_(*[n for n, _ in reals]))
    if kind == "lambda":
        lam, env = fv.py[1], fv.py[2]
        args, _ = eval_args(ex, node, st)
        names = [a.arg for a in lam.args.args]
        inner = st.copy()
        inner.vars = dict(env)
        for n, v in zip(names, args):
            inner.vars[n] = v
        return ex.eval(lam.body, inner)
    raise OutOfSubset("call of " + kind)


def construct(ex, cls, node, st):
    """Object construction: allocate, then run __init__ (inline or by contract)."""
    args, kwargs = eval_args(ex, node, st)
    obj = ex.new_object(st, cls)
    fi = ex.find_method(cls, "__init__")
    if fi is None:
        return obj
    ex.call_function(fi, [obj] + args, kwargs, st, node)
    return obj


def list_method(ex, l, f, node, st):
    name = f.attr
    args, _ = eval_args(ex, node, st)
    if name == "append":
        if isinstance(l.kind.elem, KNone):
            raise OutOfSubset("append to a list of undeclared kind")
        v = args[0]
        if v.py == "emptylist":
            v = list_empty(l.kind.elem.elem)
        try:
            nl, sc = list_append(l, v)
        except OutOfSubset:
            # a value of an unrelated kind (an object into a list of floats): this statement must be unreachable
            ex.check(st, "store-kind-unreachable", FALSE, node)
            st.pc = FALSE
            return vnone()
        ex.check(st, "store-kind", sc, node)
        ex.assign(f.value, nl, st, node)
        return vnone()
    if name == "pop" and not args:
        n = list_len(l)
        ex.check(st, "IndexError-pop", n > 0, node)
        v = list_get(l, n - 1)
        ex.assign(f.value, Val(l.kind, [n - 1] + list(l.terms[1:])), st, node)
        return v
    if name == "insert":
        k = to_int(args[0])
        n = list_len(l)
        k = if_(k < 0, if_(k + n < 0, z3.IntVal(0), k + n), if_(k > n, n, k))
        v, sc = coerce(args[1], l.kind.elem)
        ex.check(st, "store-kind", sc, node)
        i = z3.Int(uid("ins"))
        arrs = [z3.Lambda([i], z3.If(i < k, z3.Select(a, i), z3.If(i == k, t, z3.Select(a, i - 1))))
                for a, t in zip(l.terms[1:], v.terms)]
        ex.assign(f.value, Val(l.kind, [n + 1] + arrs), st, node)
        return vnone()
    if name == "copy":
        return l
    if name == "reverse":
        ex.assign(f.value, list_reverse(l), st, node)
        return vnone()
    if name == "sort":
        # trusted model of list.sort(key=f): a permutation of the list, non-decreasing in the key (stability not modelled)
        kw = {k.arg: k.value for k in node.keywords}
        n = list_len(l)
        L2 = fresh(l.kind, "sorted")
        perm = z3.Function(uid("perm"), z3.IntSort(), z3.IntSort())
        inv = z3.Function(uid("perminv"), z3.IntSort(), z3.IntSort())
        i, j = z3.Int(uid("si")), z3.Int(uid("sj"))

        def key(elem):
            if "key" not in kw:
                return elem
            fv = ex.eval(kw["key"], st)
            if not (isinstance(fv.kind, KFunc) and fv.py and fv.py[0] == "func"):
                raise OutOfSubset("sort key must be a repository function")
            return ex.call_function(fv.py[1], [elem], {}, st, node)
        ki, kj = key(list_get(L2, i)), key(list_get(L2, j))
        ex.ctx.trusted_used.add("list.sort")
        hy = ex.ctx.hyps
        hy.append(L2.terms[0] == n)
        hy.append(z3.ForAll([i], implies(and_(i >= 0, i < n), and_(perm(i) >= 0, perm(i) < n, inv(perm(i)) == i,
                                                                  *[a == b for a, b in zip(list_get(L2, i).terms, list_get(l, perm(i)).terms)]))))
        hy.append(z3.ForAll([j], implies(and_(j >= 0, j < n), and_(inv(j) >= 0, inv(j) < n, perm(inv(j)) == j))))
        hy.append(z3.ForAll([i, j], implies(and_(i >= 0, i < j, j < n), compare("<=", ki, kj))))
        ex.assign(f.value, L2, st, node)
        return vnone()
    raise OutOfSubset("list method " + name)


def dict_delete(ex, d, key, st, node):
    from . import dicts
    ex.check(st, "KeyError", dicts.contains(d, key), node)
    return dicts.delete(d, key)


def dict_method(ex, d, f, node, st):
    name = f.attr
    if name in ("keys",):
        return Val(d.kind, d.terms, py="dictkeys")
    if name == "items":
        return Val(d.kind, d.terms, py="dictitems")
    if name == "copy":
        return Val(d.kind, d.terms)
    raise OutOfSubset("dict method " + name)


def floor_of(ex, x):
    """floor of a real term.  In code (not inside contract clauses) the floor is a named integer with its
    two defining linear inequalities, which keeps z3 out of to_int + non-linear arithmetic."""
    if z3.is_rational_value(x) or (ex.spec_mode and ex.bound):
        return z3.ToInt(x)
    cache = ex.ctx.__dict__.setdefault("floor_cache", {})
    key = x.get_id()
    if key in cache:
        return cache[key][0]
    f = z3.Int(uid("floor"))
    ex.ctx.add_hyp(z3.And(z3.ToReal(f) <= x, x < z3.ToReal(f) + 1), [str(f)])
    cache[key] = (f, x)      # keep x alive so that its id is not reused
    for x0, n in ex.ctx.__dict__.get("float_int_eq", {}).get(key, []):
        ex.ctx.add_hyp(implies(x == z3.ToReal(n), f == n), [str(f)])      # see Executor.cmp1
    return f


def trunc_of(ex, x):
    if z3.is_rational_value(x) or (ex.spec_mode and ex.bound):
        return real_trunc(x)
    return if_(x >= 0, floor_of(ex, x), -floor_of(ex, -x))


def call_builtin(ex, name, node, st):
    reg = ex.ctx.reg
    if name.startswith("tracklib.") and name.split(".")[-1] in reg.index.classes:
        return construct(ex, name.split(".")[-1], node, st)
    if name in reg.builtins:
        args, kwargs = eval_args(ex, node, st)
        return reg.builtins[name](ex, st, args, kwargs, node)
    args, kwargs = eval_args(ex, node, st)
    chk = lambda what, cond: ex.check(st, what, cond, node)
    if name == "len":
        v = args[0]
        if isinstance(v.kind, KList):
            return vint(list_len(v))
        if isinstance(v.kind, KDict):
            from . import dicts
            return vint(dicts.D(v).size)
        if isinstance(v.kind, KTuple):
            return vint(len(v.kind.elems))
        if isinstance(v.kind, KRef):
            fi = ex.find_method(v.kind.cls, "__len__")
            if fi is not None:
                return ex.call_function(fi, [v], {}, st, node)
        raise OutOfSubset("len of %r" % (v.kind,))
    if name == "abs" or name == "math.fabs":
        v = args[0]
        if is_intlike(v) and name == "abs":
            t = to_int(v)
            return vint(if_(t >= 0, t, -t))
        nan, x = to_float(v)
        return vfloat(if_(x >= 0, x, -x), nan)
    if name in ("min", "max"):
        if len(args) == 1 and isinstance(args[0].kind, KList):
            raise OutOfSubset("min/max of a list")
        res = args[0]
        for v in args[1:]:
            # Python: min(a, b) returns b only if b < a (NaN comparisons are False)
            c = compare("<" if name == "min" else ">", v, res)
            res = ite(c, v, res)
        return res
    if name == "int":
        v = args[0]
        if is_intlike(v):
            return vint(to_int(v))
        if isinstance(v.kind, (KFloat, KReal)):
            nan, x = to_float(v)
            chk("ValueError-int-of-nan", not_(nan))
            return vint(trunc_of(ex, x))
        raise OutOfSubset("int(%r)" % (v.kind,))
    if name == "float":
        v = args[0]
        if is_num(v):
            nan, x = to_float(v)
            return vfloat(x, nan)
        raise OutOfSubset("float(%r)" % (v.kind,))
    if name == "bool":
        return vbool(truth(args[0]))
    if name == "type" and len(args) == 1:
        k = args[0].kind
        nm = ("function" if isinstance(k, KFunc) else "list" if isinstance(k, KList) else "str" if isinstance(k, KStr) else
              "bool" if isinstance(k, KBool) else "int" if isinstance(k, KInt) else "float" if isinstance(k, (KFloat, KReal)) else
              "tuple" if isinstance(k, KTuple) else "dict" if isinstance(k, KDict) else None)
        if nm is None:
            raise OutOfSubset("type(%r)" % (k,))
        return Val(FUNC, [], py=("typeof", nm))
    if name == "str" and isinstance(args[0].kind, KFunc) and args[0].py and args[0].py[0] == "typeof":
        return strings.lit("<class '%s'>" % args[0].py[1])
    if name == "str":
        if is_intlike(args[0]):
            return strings.str_of_int(vint(to_int(args[0])))
        if isinstance(args[0].kind, (KAny, KStr)):
            return Val(STR, [strings.STR_OF_INT(args[0].terms[0])])      # opaque text of an opaque value
        raise OutOfSubset("str(%r)" % (args[0].kind,))
    if name == "math.floor":
        nan, x = to_float(args[0])
        chk("ValueError-floor-of-nan", not_(nan))
        return vint(floor_of(ex, x))
    if name == "math.ceil":
        nan, x = to_float(args[0])
        chk("ValueError-ceil-of-nan", not_(nan))
        return vint(-floor_of(ex, -x))
    if name in ("math.sqrt", "np.sqrt"):
        nan, x = to_float(args[0])
        chk("ValueError-sqrt-negative", or_(nan, x >= 0))
        ex.ctx.math_used.add("sqrt")
        return vfloat(mathlib.SQRT(x), nan)
    if name in ("math.sin", "math.cos", "np.sin", "np.cos"):
        nan, x = to_float(args[0])
        ex.ctx.math_used.add("sincos")
        return vfloat((mathlib.SIN if name.endswith("sin") else mathlib.COS)(x), nan)
    if name in ("math.exp", "np.exp"):
        nan, x = to_float(args[0])
        ex.ctx.math_used.add("exp")
        return vfloat(mathlib.EXP(x), nan)
    if name in ("math.log", "np.log"):
        nan, x = to_float(args[0])
        chk("ValueError-log-nonpositive", or_(nan, x > 0))
        ex.ctx.math_used.add("log")
        return vfloat(mathlib.LOG(x), nan)
    if name in ("math.atan2",):
        na, x = to_float(args[0])
        nb, y = to_float(args[1])
        return vfloat(mathlib.ATAN2(x, y), or_(na, nb))
    if name in ("math.pow", "pow"):
        na, x = to_float(args[0])
        nb, y = to_float(args[1])
        ys = z3.simplify(y)
        if z3.is_rational_value(ys) and ys.denominator_as_long() == 1 and 0 <= ys.numerator_as_long() <= 8:
            r = z3.RealVal(1)
            for _ in range(ys.numerator_as_long()):
                r = r * x if not (z3.is_rational_value(r) and r.numerator_as_long() == 1 and r.denominator_as_long() == 1) else x
            return vfloat(r, na)
        return vfloat(mathlib.POW(x, y), or_(na, nb))
    if name in ("np.real", "np.imag") and isinstance(args[0].kind, KComplex):
        return vfloat(args[0].terms[0 if name.endswith("real") else 1])
    if name == "np.array" and len(args) == 1 and isinstance(args[0].kind, KList):
        return args[0]      # a one-dimensional array of the same elements (only indexed / passed on afterwards)
    if name == "np.argsort" and len(args) == 1 and isinstance(args[0].kind, KList):
        # trusted model of numpy.argsort: a permutation of the indices (bijection, its inverse is published as the ghost
        # list `argsort_inverse`) along which the keys do not decrease.  Keys: numbers, or timestamps ordered by
        # ObsTime.__lt__, which C03 proves to be the numeric order of abstime on well-formed timestamps.
        l = args[0]
        n = list_len(l)
        ek = l.kind.elem
        i, j = z3.Int(uid("as")), z3.Int(uid("as"))
        if isinstance(ek, KRef) and ek.cls == "ObsTime" and "abstime" in ex.ctx.reg.specfuncs:
            saved = ex.spec_mode
            ex.spec_mode = True
            try:
                wf = ex.ctx.reg.specfuncs["wf"]
                chk("argsort-of-ill-formed-timestamps", z3.ForAll([i], implies(and_(i >= 0, i < n), truth(wf(ex, st, list_get(l, i))))))
                key = lambda e: to_float(ex.ctx.reg.specfuncs["abstime"](ex, st, e))[1]
            finally:
                ex.spec_mode = saved
        elif isinstance(ek, (KFloat, KReal)):
            chk("argsort-over-NaN", z3.ForAll([i], implies(and_(i >= 0, i < n), not_(to_float(list_get(l, i))[0]))))
            key = lambda e: to_float(e)[1]
        elif isinstance(ek, KInt):
            key = lambda e: to_int(e)
        else:
            raise OutOfSubset("np.argsort over %r" % (ek,))
        L = fresh(KList(INT), "argsort")
        INV = fresh(KList(INT), "argsort_inverse")
        ex.ctx.trusted_used.add("numpy.argsort")
        hy = ex.ctx.hyps
        hy.append(and_(L.terms[0] == n, INV.terms[0] == n))
        li, ij = z3.Select(L.terms[1], i), z3.Select(INV.terms[1], j)
        hy.append(z3.ForAll([i], implies(and_(i >= 0, i < n), and_(li >= 0, li < n, z3.Select(INV.terms[1], li) == i))))
        hy.append(z3.ForAll([j], implies(and_(j >= 0, j < n), and_(ij >= 0, ij < n, z3.Select(L.terms[1], ij) == j))))
        saved = ex.spec_mode
        ex.spec_mode = True
        try:
            ki = key(list_get(l, li))
            kj = key(list_get(l, z3.Select(L.terms[1], j)))
        finally:
            ex.spec_mode = saved
        hy.append(z3.ForAll([i, j], implies(and_(i >= 0, i < j, j < n), ki <= kj)))
        st.vars["argsort_inverse"] = INV
        return L
    if name == "np.argmin" and isinstance(args[0].kind, KList) and isinstance(args[0].kind.elem, (KFloat, KReal)):
        # trusted model of numpy.argmin on a list of non-NaN floats: the first index of a minimum
        l = args[0]
        n = list_len(l)
        chk("ValueError-argmin-of-empty", n > 0)
        i = z3.Int(uid("am"))
        chk("argmin-over-NaN", z3.ForAll([i], implies(and_(i >= 0, i < n), not_(to_float(list_get(l, i))[0]))))
        r = z3.Int(uid("argmin"))
        rv = to_float(list_get(l, r))[1]
        ex.ctx.trusted_used.add("numpy.argmin")
        ex.ctx.add_hyp(implies(n > 0, and_(r >= 0, r < n,
                                          z3.ForAll([i], implies(and_(i >= 0, i < n), rv <= to_float(list_get(l, i))[1])),
                                          z3.ForAll([i], implies(and_(i >= 0, i < r), rv < to_float(list_get(l, i))[1])))))
        return vint(r)
    if name == "isinstance":
        return vbool(isinstance_(ex, args[0], node.args[1]))
    if name in ("np.zeros", "np.ones"):
        shp = args[0]
        if isinstance(shp.kind, KTuple) and len(shp.kind.elems) == 2:
            n0, n1 = [to_int(x) for x in tuple_items(shp)]
            chk("ValueError-negative-dimension", and_(n0 >= 0, n1 >= 0))
            return arr2_const(FLOAT, n0, n1, vfloat(0.0 if name.endswith("zeros") else 1.0))
        raise OutOfSubset(name + " shape")
    if name == "progressbar.progressbar":
        ex.ctx.dropped.append("%s:%d progressbar.progressbar(x) -> x (A-PB)" % (ex.fi.path, node.lineno))
        return args[0]
    if name == "set" and not args:
        return Val(NONE, [], py="emptyset")
    if name == "list" and args and isinstance(args[0].kind, KSet) and len(flat(args[0].kind.elem)) == 1:
        # list(s): some list holding exactly the members of s (trusted model; order unspecified)
        sv = args[0]
        L = fresh(KList(sv.kind.elem), "setlist")
        q, xv = z3.Int(uid("lq")), z3.Const(uid("lx"), flat(sv.kind.elem)[0])
        ex.ctx.hyps.append(L.terms[0] >= 0)
        ex.ctx.hyps.append(z3.ForAll([q], implies(and_(q >= 0, q < L.terms[0]), z3.Select(sv.terms[0], z3.Select(L.terms[1], q)))))
        w = z3.Function(uid("setpos"), flat(sv.kind.elem)[0], z3.IntSort())
        ex.ctx.hyps.append(z3.ForAll([xv], implies(z3.Select(sv.terms[0], xv),
                                                   and_(w(xv) >= 0, w(xv) < L.terms[0], z3.Select(L.terms[1], w(xv)) == xv))))
        return L
    if name == "list":
        if not args:
            return Val(KList(NONE), [z3.IntVal(0)], py="emptylist")
        if args and isinstance(args[0].kind, KList):
            return args[0]
        if args and isinstance(args[0].kind, KDict):
            return dict_keys_list(ex, st, args[0])
    if name == "exit":
        ex.raise_exc(st, "SystemExit", node)
        st.pc = FALSE
        return vnone()
    if name == "range":
        return Val(FUNC, [], py=("range", args))
    raise OutOfSubset("%s: call to %s (line %s) has no model" % (ex.fi.qual, name, node.lineno))


def dict_keys_list(ex, st, d):
    """list(d) / list(d.keys()): the live keys in insertion order.  Modelled as a fresh list L with a fresh
    ranking  rank : K -> Int  that is a bijection between the domain and [0, size) and is monotone in the
    insertion position (trusted model of the built-in)."""
    from . import dicts
    x = dicts.D(d)
    ks = flat(d.kind.k)[0]
    L = fresh(KList(d.kind.k), "keys")
    rank = z3.Const(uid("rank"), z3.ArraySort(ks, z3.IntSort()))
    k, k2, i = z3.Const(uid("kk"), ks), z3.Const(uid("kk"), ks), z3.Int(uid("ki"))
    n = L.terms[0]
    arr = L.terms[1]
    ex.ctx.add_hyp(n == x.size)
    ex.ctx.add_hyp(z3.ForAll([k], implies(z3.Select(x.dom, k), and_(z3.Select(rank, k) >= 0, z3.Select(rank, k) < n,
                                                                   z3.Select(arr, z3.Select(rank, k)) == k)),
                             patterns=[z3.Select(rank, k)]))
    ex.ctx.add_hyp(z3.ForAll([i], implies(and_(i >= 0, i < n), and_(z3.Select(x.dom, z3.Select(arr, i)),
                                                                  z3.Select(rank, z3.Select(arr, i)) == i)),
                             patterns=[z3.Select(arr, i)]))
    ex.ctx.add_hyp(z3.ForAll([k, k2], implies(and_(z3.Select(x.dom, k), z3.Select(x.dom, k2),
                                                   z3.Select(x.pos, k) < z3.Select(x.pos, k2)),
                                              z3.Select(rank, k) < z3.Select(rank, k2)),
                             patterns=[z3.MultiPattern(z3.Select(rank, k), z3.Select(rank, k2))]))
    return L


def isinstance_(ex, v, tnode):
    names = []
    if isinstance(tnode, ast.Tuple):
        names = [getattr(e, "id", getattr(e, "attr", None)) for e in tnode.elts]
    else:
        names = [getattr(tnode, "id", getattr(tnode, "attr", None))]
    k = v.kind
    res = FALSE
    for n in names:
        if n == "str":
            r = isinstance(k, KStr)
        elif n == "int":
            r = isinstance(k, (KInt, KBool))
        elif n == "float":
            r = isinstance(k, (KFloat, KReal))
        elif n == "bool":
            r = isinstance(k, KBool)
        elif n in ("list",):
            r = isinstance(k, KList)
        elif n in ("tuple",):
            r = isinstance(k, KTuple)
        elif n == "dict":
            r = isinstance(k, KDict)
        elif isinstance(k, KRef):
            c, r = k.cls, False
            while c is not None:
                if c == n:
                    r = True
                c = ex.ctx.reg.subclasses.get(c)
        else:
            r = False
        if r:
            res = TRUE
    if isinstance(k, KOpt):
        inner = isinstance_(ex, opt_get(v), tnode)
        return and_(not_(v.terms[0]), inner)
    return res
