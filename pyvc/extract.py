"""Extraction: the verified text is the code that runs (DESIGN §2.1).

Parses every module under <repo>/tracklib with `ast` on every run and indexes functions,
methods, module-level and class-level constants.  Nothing is cached between runs and no
function body is retyped in /verif.  Private names are mangled as CPython does."""
import ast
import hashlib
import os


class FuncInfo:
    def __init__(self, module, cls, name, node, path):
        self.module, self.cls, self.name, self.node, self.path = module, cls, name, node, path
        self.qual = "%s:%s" % (module, (cls + "." if cls else "") + name)
        self.short = (cls + "." if cls else "") + name

    def sha(self):
        return hashlib.sha256(ast.dump(self.node).encode()).hexdigest()[:16]


def mangle(name, cls):
    if cls and name.startswith("__") and not name.endswith("__"):
        return "_" + cls.lstrip("_") + name
    return name


class Index:
    def __init__(self, repo):
        self.repo = repo
        self.funcs = {}        # qual -> FuncInfo
        self.by_short = {}     # "Cls.meth" / "func" -> [FuncInfo]
        self.consts = {}       # (module, name) -> python value ; class consts as (module, "Cls.name")
        self.const_by_name = {}
        self.classes = {}      # cls -> module
        self.bases = {}        # cls -> first base class name (single inheritance is all the verified code uses)
        self.singletons = {}   # (owner class, NAME) -> class of which `NAME = Cls()` makes the one instance
        self.file_sha = {}
        root = os.path.join(repo, "tracklib")
        for dp, dn, fn in sorted(os.walk(root)):
            dn.sort()
            for f in sorted(fn):
                if f.endswith(".py"):
                    self._index(os.path.join(dp, f))

    def _index(self, path):
        rel = os.path.relpath(path, self.repo)
        module = rel[:-3].replace(os.sep, ".")
        if module.endswith(".__init__"):
            module = module[:-9]
        src = open(path, encoding="utf-8").read()
        self.file_sha[rel] = hashlib.sha256(src.encode()).hexdigest()
        try:
            import warnings
            with warnings.catch_warnings():
                warnings.simplefilter("ignore")
                tree = ast.parse(src)
        except SyntaxError:
            return
        for node in tree.body:
            if isinstance(node, ast.FunctionDef):
                self._add(FuncInfo(module, None, node.name, node, rel))
            elif isinstance(node, ast.Assign):
                self._const(module, None, node)
            elif isinstance(node, ast.AnnAssign) and node.value is not None and isinstance(node.target, ast.Name):
                self._const(module, None, ast.Assign(targets=[node.target], value=node.value))
            elif isinstance(node, ast.ClassDef):
                self.classes.setdefault(node.name, module)
                for b in node.bases:
                    if isinstance(b, ast.Name):
                        self.bases.setdefault(node.name, b.id)
                        break
                for sub in node.body:
                    if isinstance(sub, ast.Assign) and len(sub.targets) == 1 and isinstance(sub.targets[0], ast.Name) \
                            and isinstance(sub.value, ast.Call) and isinstance(sub.value.func, ast.Name) \
                            and not sub.value.args and not sub.value.keywords:
                        self.singletons[(node.name, sub.targets[0].id)] = sub.value.func.id
                for sub in node.body:
                    if isinstance(sub, ast.FunctionDef):
                        self._add(FuncInfo(module, node.name, mangle(sub.name, node.name), sub, rel))
                    elif isinstance(sub, ast.Assign):
                        self._const(module, node.name, sub)

    def _add(self, fi):
        self.funcs[fi.qual] = fi
        self.by_short.setdefault(fi.short, []).append(fi)

    def _const(self, module, cls, node):
        if len(node.targets) != 1 or not isinstance(node.targets[0], ast.Name):
            return
        name = node.targets[0].id
        _MISSING = object()
        try:
            val = ast.literal_eval(node.value)
        except Exception:
            val = _fold(node.value)
            if val is None:
                val = _MISSING
        if val is _MISSING:
            v = node.value
            if False:
                pass
            elif isinstance(v, ast.Call) and isinstance(v.func, ast.Name) and v.func.id == "float" and v.args \
                    and isinstance(v.args[0], ast.Constant) and v.args[0].value in ("nan", "NaN"):
                val = float("nan")
            else:
                return
        key = (module, (cls + "." if cls else "") + mangle(name, cls))
        self.consts[key] = val
        if cls is None:
            self.const_by_name.setdefault(name, []).append((module, val))

    def func(self, qual):
        return self.funcs[qual]

    def find(self, short, module=None):
        c = self.by_short.get(short, [])
        if module:
            m = [f for f in c if f.module == module]
            if m:
                return m[0]
        if len(c) == 1:
            return c[0]
        return None


def _fold(e):
    """constant folding of arithmetic on numeric literals (module constants such as 1.0 / 298.257223563)"""
    if isinstance(e, ast.Constant) and isinstance(e.value, (int, float)) and not isinstance(e.value, bool):
        return e.value
    if isinstance(e, ast.UnaryOp) and isinstance(e.op, (ast.USub, ast.UAdd)):
        v = _fold(e.operand)
        return None if v is None else (-v if isinstance(e.op, ast.USub) else v)
    if isinstance(e, ast.BinOp) and isinstance(e.op, (ast.Add, ast.Sub, ast.Mult, ast.Div)):
        a, b = _fold(e.left), _fold(e.right)
        if a is None or b is None:
            return None
        try:
            return {ast.Add: a + b, ast.Sub: a - b, ast.Mult: a * b, ast.Div: a / b}[type(e.op)]
        except Exception:
            return None
    return None


def number_loops(fnode):
    """Structural loop ids: '1', '2', '1.1', ... in source order per nesting level."""
    ids = {}

    def walk(stmts, prefix, counter):
        for s in stmts:
            if isinstance(s, (ast.For, ast.While)):
                counter[0] += 1
                lid = (prefix + "." if prefix else "") + str(counter[0])
                ids[id(s)] = lid
                walk(s.body, lid, [0])
                walk(s.orelse, prefix, counter)
            elif isinstance(s, ast.If):
                walk(s.body, prefix, counter)
                walk(s.orelse, prefix, counter)
            elif isinstance(s, ast.Try):
                walk(s.body, prefix, counter)
                for h in s.handlers:
                    walk(h.body, prefix, counter)
                walk(s.orelse, prefix, counter)
                walk(s.finalbody, prefix, counter)
            elif isinstance(s, ast.With):
                walk(s.body, prefix, counter)
    walk(fnode.body, "", [0])
    return ids
